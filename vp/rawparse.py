"""Parser of PHREEQC `DUMP` text (the *_RAW blocks) + canonical form, comparison and element inventories.

Independent of /repo's reader (ReadClass.cxx / *_raw readers): written from the dump *format* only.

Format facts used
-----------------
* An entity starts on a line whose first token is a keyword ending in `_RAW` (or `MIX_RAW`), followed by the user
  number (`n` or `n-m`) and a free description.  `USE <kind> none` lines close a dump.
* Everything after `#` is a comment.
* `-name v1 v2 ...` is an option.  Lines that do not start with `-<letter>` are *data rows* of the closest option
  above them with a smaller indentation (name/value lists such as `-totals`, number lists such as `-steps`); rows
  directly below the header belong to the entity itself (MIX_RAW fractions).
* Options indented deeper than an option above them are its children (`-component Calcite` -> `-si`, `-moles` ...;
  `-solid_solution` -> `-component` -> `-moles`).  Nesting therefore follows the indentation written by the engine.

Parsed form
-----------
    parse(text) -> dict  {(KIND, n): entity}   in dump order;  KIND is the keyword without `_RAW`
                   ("SOLUTION", "EXCHANGE", "SURFACE", "GAS_PHASE", "EQUILIBRIUM_PHASES", "SOLID_SOLUTIONS", "KINETICS",
                    "MIX", "REACTION", "REACTION_TEMPERATURE", "REACTION_PRESSURE");  `USE x none` lines -> key ("USE", x)
    entity      -> dict with the reserved keys "_kind", "_n", "_n_end", "_desc", "_rows" (rows below the header) plus
                   one key per option (name without the leading '-')
    option value:
        no value                      -> None                      (`-totals` with nothing below it)
        one token                     -> float | str               (`-moles 0.1`, `-units Mol`)
        several tokens                -> list of float | str
        data rows "name number"       -> dict name -> float        (`-totals`, `-activities`, `-namecoef`, `-reactant_list`)
        data rows of numbers only     -> flat list of float        (`-steps`, `-d_params`, `-diffuse_layer_species`)
        option with child options     -> dict;  when the option line carries a name (`-component Calcite`) the parent holds
                                         {name: child-dict} under the option name, in dump order
        option repeated without children -> list of the values     (`-g_map`)
    Numbers are Python floats (`nan`/`inf` accepted), everything else stays text.

Helpers
-------
    nv(x)                      -> {} for None, x for a dict (name/value lists that may be empty)
    nums(x)                    -> [] for None, [x] for a scalar, x for a list
    mix_fractions(entity)      -> {solution number: fraction} of a MIX entity
    kinds(entities)            -> sorted list of KINDs present;  select(entities, kind) -> {n: entity}
    canonical(entities, ...)   -> deterministic text: entities sorted by (kind, n), options sorted by name, numbers as
                                  repr(float), header number optionally renumbered, description dropped
    diff(a, b, rtol, atol, ignore=(...), renumber=None) -> list of (path, va, vb) differences, numbers compared as doubles
    inventory(entities, phases, keys=None, weights=None) -> Inventory(elements, charge, amounts, negatives)
    entity_inventory(entity, phases) -> (elements dict, charge, amounts list)
    implied_dl_water(entity)   -> kg of diffuse-layer water (area x thickness, manual eq. 76) of a never-used SURFACE
                                  definition whose dump shows -mass_water 0 (diagnostic; not part of the inventories)
    reaction_stoich(entity, phases) -> elements added per mole of REACTION progress (phase names resolved through
                                  `phases`: dict phase -> formula text, e.g. inv_util.phase_formulas("phreeqc.dat"))

Inventory rules (from the dump format and the PHREEQC manual, not from the engine's totalize()):
    SOLUTION              H = -total_h, O = -total_o, other elements = sum over valence states of -totals, charge = -cb
    EXCHANGE              per component -totals (incl. the exchanger element itself), charge = sum -charge_balance
    SURFACE               per component -totals (incl. the site "element"), per charge component -diffuse_layer_totals;
                          charge: -type 1 (NO_EDL) -> component -charge_balance, otherwise the charge components'
                          -charge_balance (surface + diffuse layer; summing both double-counts)
    GAS_PHASE             component -moles x phase formula
    EQUILIBRIUM_PHASES    component -moles x (-add_formula if given, else phase formula)
    SOLID_SOLUTIONS       component -moles x phase formula
    KINETICS              component -m x sum(-namecoef coef x formula or phase formula)
"""
import math, re
from . import formula as F
from . import inv_util as U

__all__ = ["parse", "nv", "nums", "mix_fractions", "kinds", "select", "canonical", "diff", "inventory",
           "entity_inventory", "reaction_stoich", "implied_dl_water", "Inventory", "RawParseError"]


class RawParseError(ValueError):
    pass


_HDR = re.compile(r"^([A-Z_]+)_RAW$")
_OPT = re.compile(r"^-[A-Za-z_]")
_NUMRE = re.compile(r"^[+-]?(\d+\.?\d*([eE][+-]?\d+)?|\.\d+([eE][+-]?\d+)?|nan|inf|infinity)$", re.I)
RESERVED = ("_kind", "_n", "_n_end", "_desc", "_rows")


def _num(tok):
    if _NUMRE.match(tok):
        try:
            return float(tok)
        except ValueError:
            return None
    return None


def _val(tok):
    x = _num(tok)
    return tok if x is None else x


class _Entry(object):
    __slots__ = ("name", "args", "rows", "children", "indent")

    def __init__(self, name, args, indent):
        self.name, self.args, self.indent = name, args, indent
        self.rows, self.children = [], []


def _rows_value(rows):
    if all(len(r) == 2 and _num(r[0]) is None and _num(r[1]) is not None for r in rows):
        out = {}
        for r in rows:
            out[r[0]] = out.get(r[0], 0.0) + float(r[1])   # a name written twice counts twice
        return out
    flat = [t for r in rows for t in r]
    if all(_num(t) is not None for t in flat):
        return [float(t) for t in flat]
    return [[_val(t) for t in r] for r in rows]


def _leaf_value(e):
    if e.rows:
        v = _rows_value(e.rows)
        if e.args and isinstance(v, list):
            return [_val(t) for t in e.args] + v
        return v
    if not e.args:
        return None
    if len(e.args) == 1:
        return _val(e.args[0])
    return [_val(t) for t in e.args]


def _node(children):
    out = {}
    for c in children:
        if c.children:
            sub = _node(c.children)
            if c.rows:
                sub["_rows"] = _rows_value(c.rows)
            if c.args:
                slot = out.setdefault(c.name, {})
                if not isinstance(slot, dict):
                    raise RawParseError("option -%s used both with and without children" % c.name)
                key = " ".join(c.args)
                if key in slot:
                    raise RawParseError("duplicate -%s %s" % (c.name, key))
                slot[key] = sub
            else:
                if c.name in out:
                    raise RawParseError("duplicate nested option -%s" % c.name)
                out[c.name] = sub
        else:
            v = _leaf_value(c)
            if c.name in out:
                prev = out[c.name]
                if isinstance(prev, _Multi):
                    prev.append(v)
                else:
                    out[c.name] = _Multi([prev, v])
            else:
                out[c.name] = v
    for k, v in list(out.items()):
        if isinstance(v, _Multi):
            out[k] = list(v)
    return out


class _Multi(list):
    pass


def parse(text):
    """DUMP text -> {(KIND, n): entity dict}; see the module docstring"""
    out = {}
    cur = None          # (key, header _Entry)
    stack = []

    def finish():
        if cur is None:
            return
        key, root, meta = cur
        ent = {"_kind": meta[0], "_n": meta[1], "_n_end": meta[2], "_desc": meta[3],
               "_rows": _rows_value(root.rows) if root.rows else []}
        ent.update(_node(root.children))
        if key in out:
            raise RawParseError("entity %r dumped twice" % (key,))
        out[key] = ent

    for raw in text.split("\n"):
        line = raw.split("#", 1)[0].rstrip()
        if not line.strip():
            continue
        body = line.lstrip(" \t")
        indent = len(line) - len(body)
        toks = body.split()
        m = _HDR.match(toks[0]) if indent == 0 else None
        if m:
            finish()
            kind = m.group(1)
            n, n_end, desc = None, None, ""
            if len(toks) > 1:
                mm = re.match(r"^(-?\d+)(?:-(-?\d+))?$", toks[1])
                if not mm:
                    raise RawParseError("bad user number in header %r" % line)
                n = int(mm.group(1))
                n_end = int(mm.group(2)) if mm.group(2) else n
                desc = body.split(None, 2)[2].strip() if len(toks) > 2 else ""
            root = _Entry(kind, [], -1)
            cur = ((kind, n), root, (kind, n, n_end, desc))
            stack = [root]
            continue
        if indent == 0 and toks[0] == "USE":
            finish()
            cur = None
            stack = []
            if len(toks) >= 3:
                out[("USE", toks[1])] = " ".join(toks[2:])
            continue
        if cur is None:
            raise RawParseError("text outside an entity: %r" % line[:80])
        if _OPT.match(toks[0]):
            while len(stack) > 1 and stack[-1].indent >= indent:
                stack.pop()
            e = _Entry(toks[0][1:], toks[1:], indent)
            stack[-1].children.append(e)
            stack.append(e)
        else:
            while len(stack) > 1 and stack[-1].indent >= indent:
                stack.pop()
            stack[-1].rows.append(toks)
    finish()
    return out


# ------------------------------------------------------------------------------------------ small accessors
def nv(x):
    if x is None:
        return {}
    if isinstance(x, dict):
        return x
    if isinstance(x, list) and not x:
        return {}
    raise RawParseError("expected a name/value list, got %r" % (x,))


def nums(x):
    if x is None:
        return []
    if isinstance(x, list):
        return x
    return [x]


def mix_fractions(ent):
    r = ent.get("_rows") or []
    if isinstance(r, dict):
        raise RawParseError("MIX rows with names")
    if len(r) % 2:
        raise RawParseError("MIX rows are not pairs")
    out = {}
    for i in range(0, len(r), 2):
        out[int(r[i])] = out.get(int(r[i]), 0.0) + float(r[i + 1])
    return out


def kinds(entities):
    return sorted({k[0] for k in entities if k[0] != "USE"})


def select(entities, kind):
    return {k[1]: v for k, v in entities.items() if k[0] == kind}


# ------------------------------------------------------------------------------------------ canonical form / diff
def _canon_value(v, ind, L, name):
    pad = "  " * ind
    if isinstance(v, dict):
        L.append("%s-%s" % (pad, name))
        for k in sorted(v):
            _canon_value(v[k], ind + 1, L, k)
    elif isinstance(v, list):
        L.append("%s-%s [%s]" % (pad, name, " ".join(_canon_scalar(x) for x in v)))
    else:
        L.append("%s-%s %s" % (pad, name, _canon_scalar(v)))


def _canon_scalar(x):
    if isinstance(x, list):
        return "[" + " ".join(_canon_scalar(y) for y in x) + "]"
    if x is None:
        return "~"
    if isinstance(x, float):
        if x == 0:
            return "0.0"
        return repr(x)
    return str(x)


def canonical(entities, renumber=None, ignore=()):
    """deterministic text rendering; renumber: dict old n -> new n (or callable), ignore: option names to drop anywhere"""
    L = []
    items = []
    for k, e in entities.items():
        if k[0] == "USE":
            continue
        n = e["_n"]
        if renumber is not None:
            n = renumber(n) if callable(renumber) else renumber.get(n, n)
        items.append((k[0], n, e))
    for kind, n, e in sorted(items, key=lambda t: (t[0], t[1] if t[1] is not None else -10 ** 9)):
        L.append("%s %s" % (kind, n))
        if e.get("_rows"):
            _canon_value(e["_rows"], 1, L, "_rows")
        for k in sorted(e):
            if k in RESERVED or k in ignore:
                continue
            _canon_value(_strip(e[k], ignore), 1, L, k)
    return "\n".join(L) + "\n"


def _strip(v, ignore):
    if isinstance(v, dict) and ignore:
        return {k: _strip(x, ignore) for k, x in v.items() if k not in ignore}
    return v


def _close(a, b, rtol, atol):
    if a == b:
        return True
    if math.isnan(a) and math.isnan(b):
        return True
    if math.isinf(a) or math.isinf(b):
        return False
    return abs(a - b) <= atol + rtol * max(abs(a), abs(b))


def _diff_value(a, b, path, out, rtol, atol, ignore):
    if isinstance(a, dict) and isinstance(b, dict):
        for k in sorted(set(a) | set(b)):
            if k in ignore or k in ("_desc", "_n", "_n_end"):
                continue
            if k not in a or k not in b:
                out.append((path + "/" + k, a.get(k, "<absent>"), b.get(k, "<absent>")))
            else:
                _diff_value(a[k], b[k], path + "/" + k, out, rtol, atol, ignore)
    elif isinstance(a, list) and isinstance(b, list):
        if len(a) != len(b):
            out.append((path, a, b))
        else:
            for i, (x, y) in enumerate(zip(a, b)):
                _diff_value(x, y, "%s[%d]" % (path, i), out, rtol, atol, ignore)
    elif isinstance(a, float) and isinstance(b, float):
        if not _close(a, b, rtol, atol):
            out.append((path, a, b))
    elif a != b:
        out.append((path, a, b))


def diff(a, b, rtol=0.0, atol=0.0, ignore=(), renumber=None):
    """differences between two parsed dumps (or two entities); numbers compared as doubles; the description and the
    header number are not compared (keys are: use `renumber` {old: new} applied to `a` when numbers differ by design)"""
    out = []
    if "_kind" in a or "_kind" in b:
        _diff_value(a, b, "", out, rtol, atol, set(ignore))
        return out
    def keyed(d, ren):
        r = {}
        for k, e in d.items():
            if k[0] == "USE":
                continue
            n = k[1]
            if ren is not None:
                n = ren(n) if callable(ren) else ren.get(n, n)
            r["%s %s" % (k[0], n)] = e
        return r
    _diff_value(keyed(a, renumber), keyed(b, None), "", out, rtol, atol, set(ignore))
    return out


# ------------------------------------------------------------------------------------------ inventories
class Inventory(object):
    """elements: {element: moles}, charge: equivalents, amounts: [(label, moles)] of every reactant amount seen,
    negatives: the subset of amounts that is < 0"""

    def __init__(self):
        self.elements, self.charge, self.amounts = {}, 0.0, []

    def add(self, els, charge=0.0, w=1.0, amounts=()):
        for k, v in els.items():
            self.elements[k] = self.elements.get(k, 0.0) + w * v
        self.charge += w * charge
        self.amounts.extend(amounts)

    @property
    def negatives(self):
        return [(l, v) for l, v in self.amounts if v < 0]


def _phases(phases):
    if isinstance(phases, str):
        return U.phase_formulas(phases)
    return phases


def reaction_stoich(ent, phases):
    """elements per unit of reaction progress of a REACTION entity (-reactant_list; phase names use the phase formula)"""
    phases = _phases(phases)
    out = {}
    for name, coef in nv(ent.get("reactant_list")).items():
        F.add(out, U.formula_elements(name, phases), coef)
    return out


def implied_dl_water(ent):
    """kg of diffuse-layer water W_s = A_surf * t * 1000 (manual 1999, eq. 76; A_surf = specific area x grams, 1 L = 1 kg)
    of the charge components of a SURFACE with an explicit constant-thickness diffuse layer (-diffuse_layer / -donnan)
    whose dump still shows `-mass_water 0`, i.e. a definition that has never been used (neither -equilibrate nor a
    reaction).  Diagnostic helper only - NOT part of any inventory: on the pinned tree the ion-association databases
    create this water on top of the solution's water at the first reaction (C02 known finding
    `diffuse-layer-water-created-at-first-contact`), pitzer.dat and `-donnan debye_lengths` take it out of the solution.
    Returns 0.0 for surfaces without explicit diffuse layer, for initialised surfaces and for -donnan debye_lengths."""
    if ent.get("_kind") != "SURFACE":
        return 0.0
    if float(ent.get("dl_type") or 0.0) == 0.0 or float(ent.get("debye_lengths") or 0.0) > 0.0:
        return 0.0
    t = float(ent.get("thickness") or 0.0)
    w = 0.0
    for c in (ent.get("charge_component") or {}).values():
        if float(c.get("mass_water") or 0.0) == 0.0:
            w += float(c.get("specific_area") or 0.0) * float(c.get("grams") or 0.0) * t * 1000.0
    return w


def entity_inventory(ent, phases):
    """-> (elements, charge, amounts) of one parsed entity; kinds without mass (MIX, REACTION, ...) give empty results"""
    phases = _phases(phases)
    kind = ent["_kind"]
    tag = "%s %s" % (kind, ent["_n"])
    els, z, amounts = {}, 0.0, []
    if kind == "SOLUTION":
        for name, v in nv(ent.get("totals")).items():
            base = U.base_element(name)
            if base in ("H", "O"):
                continue          # included in -total_h / -total_o
            els[base] = els.get(base, 0.0) + v
            amounts.append(("%s total %s" % (tag, name), v))
        els["H"] = els.get("H", 0.0) + float(ent["total_h"])
        els["O"] = els.get("O", 0.0) + float(ent["total_o"])
        z = float(ent["cb"])
        amounts.append((tag + " mass_water", float(ent["mass_water"])))
    elif kind == "EXCHANGE":
        for cname, c in (ent.get("component") or {}).items():
            for name, v in nv(c.get("totals")).items():
                base = U.base_element(name)
                els[base] = els.get(base, 0.0) + v
                amounts.append(("%s comp %s total %s" % (tag, cname, name), v))
            z += float(c.get("charge_balance") or 0.0)
    elif kind == "SURFACE":
        stype = ent.get("type")
        for cname, c in (ent.get("component") or {}).items():
            for name, v in nv(c.get("totals")).items():
                base = U.base_element(name)
                els[base] = els.get(base, 0.0) + v
                amounts.append(("%s comp %s total %s" % (tag, cname, name), v))
            if stype == 1.0:
                z += float(c.get("charge_balance") or 0.0)
        for cname, c in (ent.get("charge_component") or {}).items():
            for name, v in nv(c.get("diffuse_layer_totals")).items():
                base = U.base_element(name)
                els[base] = els.get(base, 0.0) + v
            if stype != 1.0:
                z += float(c.get("charge_balance") or 0.0)
    elif kind == "GAS_PHASE":
        for cname, c in (ent.get("component") or {}).items():
            m = float(c["moles"])
            F.add(els, U.formula_elements(cname, phases), m)
            amounts.append(("%s comp %s moles" % (tag, cname), m))
    elif kind == "EQUILIBRIUM_PHASES":
        for cname, c in (ent.get("component") or {}).items():
            m = float(c["moles"])
            af = c.get("add_formula")
            fe = F.elements(str(af)) if af not in (None, "") else U.formula_elements(cname, phases)
            F.add(els, fe, m)
            amounts.append(("%s comp %s moles" % (tag, cname), m))
    elif kind == "SOLID_SOLUTIONS":
        for sname, s in (ent.get("solid_solution") or {}).items():
            for cname, c in (s.get("component") or {}).items():
                m = float(c["moles"])
                F.add(els, U.formula_elements(cname, phases), m)
                amounts.append(("%s ss %s comp %s moles" % (tag, sname, cname), m))
    elif kind == "KINETICS":
        for cname, c in (ent.get("component") or {}).items():
            m = float(c["m"])
            per = {}
            for name, coef in nv(c.get("namecoef")).items():
                F.add(per, U.formula_elements(name, phases), coef)
            F.add(els, per, m)
            amounts.append(("%s comp %s m" % (tag, cname), m))
    return els, z, amounts


def inventory(entities, phases, keys=None, weights=None):
    """Sum of the inventories of `keys` (default: every entity of the dump); weights: {key: factor} (mixing fractions).
    phases: database file name or dict phase name -> formula text."""
    phases = _phases(phases)
    inv = Inventory()
    if keys is None:
        keys = [k for k in entities if k[0] != "USE"]
    for k in keys:
        if k not in entities:
            raise KeyError("entity %r is not in the dump" % (k,))
        els, z, am = entity_inventory(entities[k], phases)
        inv.add(els, z, 1.0 if weights is None else weights.get(k, 1.0), am)
    return inv
