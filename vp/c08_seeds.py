"""C08: seed corpora and dictionary for the libFuzzer targets, base blocks for the grammar engine.

All texts are written for /verif/corpus/small.dat (H O C Ca Na Cl S Fe, exchanger X, surface Hfo, phases Calcite
Siderite Gypsum Goethite Fe(OH)3(a) Pyrite Sulfur Halite CO2(g) O2(g) H2(g) CH4(g), rates Calcite Pyrite).
Seed files are written fresh into a scratch directory for every fuzz job (libFuzzer adds files to its corpus
directory), so the committed tree holds only this module.
"""
import os, re, glob

SOL = "SOLUTION 1\n pH 7.5\n temp 20\n Na 12\n Cl 10 charge\n Ca 2\n C(4) 3\n S(6) 1\n Fe 0.02\n"
SOL2 = "SOLUTION 2\n units mg/L\n pH 6.5\n pe 8\n density 1.01\n Ca 40 as Ca\n Na 5 mmol/L\n Cl 1 charge\n Alkalinity 60 as HCO3\n S(6) 10 gfw 96\n -water 0.5\n"

# name -> text; every block is valid input for small.dat (checked by c08_seeds.selfcheck with the release build)
BLOCKS = [
    ("title", "TITLE a title line\n second line\n" + SOL + "END\n"),
    ("solution", SOL + "END\n"),
    ("solution_opts", SOL2 + "END\n"),
    ("solution_redox", "SOLUTION 3 seawaterish\n units ppm\n pH 8.22\n pe 8.451\n redox O(0)/O(-2)\n density 1.023\n temp 25\n Ca 412.3\n Na 10768\n Cl 19353\n S(6) 2712\n Fe 0.002\n Alkalinity 141.682 as HCO3\n O(0) 1 O2(g) -0.7\n -isotope 13C -2 0.1\nEND\n"),
    ("solution_spread", "SOLUTION_SPREAD\n -units mmol/kgw\n -temp 20\n Number\tpH\tNa\tCl\tCa\tDescription\n \t\t\tcharge\t\t\n 1\t7\t1\t1\t0.5\tfirst\n 2\t8\t2\t2\t1\tsecond\n 5-6\t6.5\t3\t3\t0.1\trange\nEND\n"),
    ("equilibrium_phases", SOL + "EQUILIBRIUM_PHASES 1\n Calcite 0 0.01\n Goethite 0 0\n CO2(g) -2 10\n Gypsum 0 0 dissolve_only\n Siderite -1 FeCO3 0.001\n -force_equality true\nEND\n"),
    ("exchange", SOL + "EXCHANGE 1\n X 0.02\n -equilibrate 1\n -pitzer_exchange_gammas true\nEND\n"),
    ("exchange_explicit", SOL + "EXCHANGE 2\n NaX 0.01\n CaX2 0.005\n X Calcite equilibrium_phase 0.1\n -exchange_gammas false\nEQUILIBRIUM_PHASES 2\n Calcite 0 0.1\nEND\n"),
    ("surface", SOL + "SURFACE 1\n Hfo_w 0.002 600 1\n Hfo_s 0.0001\n -equilibrate 1\nEND\n"),
    ("surface_dl", SOL + "SURFACE 2\n -equilibrate with solution 1\n -sites_units density\n Hfo_w 2.3 600 0.5 Dw 1e-10\n -diffuse_layer 1e-8\n -only_counter_ions true\nEND\n"),
    ("surface_donnan", SOL + "SURFACE 3\n Hfo_wOH 0.001 300 2\n -donnan 1e-9 viscosity 0.5\n -equilibrate 1\nEND\n"),
    ("surface_no_edl", SOL + "SURFACE 4\n Hfo_w Goethite equilibrium_phase 0.1 1e4\n -no_edl\nEQUILIBRIUM_PHASES 4\n Goethite 0 0.01\nEND\n"),
    ("surface_ccm", SOL + "SURFACE 5\n Hfo_w 0.001 100 1\n -ccm 2.5\n -equilibrate 1\nEND\n"),
    ("gas_phase_p", SOL + "GAS_PHASE 1\n -fixed_pressure\n -pressure 1.1\n -volume 2\n -temperature 30\n CO2(g) 0.01\n O2(g) 0.2\n CH4(g) 0\nEND\n"),
    ("gas_phase_v", SOL + "GAS_PHASE 2\n -fixed_volume\n -volume 0.5\n -equilibrate 1\n CO2(g)\n H2(g) 0\nEND\n"),
    ("solid_solutions", SOL + "SOLID_SOLUTIONS 1\n CaFeCO3\n -comp Calcite 0.1\n -comp Siderite 0.001\n Sulf\n -comp1 Gypsum 0.01\n -comp2 Halite 0\n -Gugg_nondim 1.5 0.2\n -temp 30\n -tempk 300\nEND\n"),
    ("solid_solutions_opts", SOL + "SOLID_SOLUTIONS 2\n ss\n -comp1 Calcite 0.1\n -comp2 Siderite 0.1\n -Gugg_kJ 5 1\n ss2\n -comp1 Gypsum 0\n -comp2 Halite 0\n -activity_coefficients 2.0 1.5 0.1 0.2\n ss3\n -comp1 Goethite 0.1\n -comp2 Fe(OH)3(a) 0.2\n -miscibility_gap 0.1 0.8\nEND\n"),
    ("kinetics", SOL + "KINETICS 1\n Calcite\n -m0 0.01\n -m 0.005\n -parms 10 0.67\n -tol 1e-8\n -steps 100 in 2\n -step_divide 10\n -runge_kutta 3\n -bad_step_max 100\nINCREMENTAL_REACTIONS true\nEND\n"),
    ("kinetics_cvode", SOL + "KINETICS 2\n Pyrite\n -formula FeS2 1 H2O -0.5\n -m0 0.1\n -parms -5 0.1 0.5 -0.11\n -steps 1000\n -cvode true\n -cvode_steps 50\n -cvode_order 3\nEND\n"),
    ("rates", "RATES\n myrate\n -start\n 10 REM comment\n 20 k = PARM(1) * (1 - SR(\"Calcite\"))\n 30 IF k < 0 THEN k = 0\n 40 FOR i = 1 TO 3\n 50 k = k + i * 1e-9\n 60 NEXT i\n 100 SAVE k * TIME\n -end\n" + SOL + "KINETICS 1\n myrate\n -formula CaCO3 1\n -m0 1\n -parms 1e-7\n -steps 10 in 2 steps\nEND\n"),
    ("reaction", SOL + "REACTION 1\n CO2 1\n NaCl 0.5\n Calcite 0.1\n 0.001 0.002 0.005 moles\nEND\n"),
    ("reaction_steps", SOL + "REACTION 2\n HCl 1\n 1 mmol in 3 steps\nREACTION_TEMPERATURE 2\n 15 45 in 3 steps\nREACTION_PRESSURE 2\n 1 10 100\nEND\n"),
    ("mix", SOL + SOL2 + "END\nMIX 1\n 1 0.5\n 2 0.5\nSAVE solution 3\nEND\nUSE solution 3\nEQUILIBRIUM_PHASES 1\n Calcite\nEND\n"),
    ("use_save", SOL + "EQUILIBRIUM_PHASES 1\n Calcite 0 1\nSAVE solution 2-4\nSAVE equilibrium_phases 2\nEND\nUSE solution 2\nUSE equilibrium_phases 2\nUSE exchange none\nREACTION 1\n CO2 1\n 0.01\nEND\n"),
    ("copy_delete", SOL + "END\nCOPY solution 1 5-7\nCOPY cell 1 10\nEND\nDELETE\n -solution 6\n -cells 10\nEND\nRUN_CELLS\n -cells 1 5-7\n -start_time 0\n -time_step 10\nEND\nDELETE\n -all\nEND\n"),
    ("dump", SOL + "EQUILIBRIUM_PHASES 1\n Calcite\nDUMP\n -all\n -file dump.out\n -append false\nEND\nDUMP\n -solution 1\n -equilibrium_phases 1-2\nEND\n"),
    ("transport", SOL + "SOLUTION 0\n pH 6\n Ca 1\n Cl 2\nEND\nSOLUTION 1-3\n Na 1\n Cl 1\nEXCHANGE 1-3\n X 0.001\n -equilibrate 1\nEND\nTRANSPORT\n -cells 3\n -shifts 2\n -time_step 100\n -lengths 0.1\n -dispersivities 0.01\n -diffusion_coefficient 1e-9\n -boundary_conditions flux flux\n -flow_direction forward\n -punch_cells 3\n -print_cells 1-3\n -punch_frequency 1\n -warnings false\nEND\n"),
    ("transport_stag", "SOLUTION 0-5\n Na 1\n Cl 1\nEND\nTRANSPORT\n -cells 2\n -shifts 1\n -stagnant 1 6.8e-6 0.3 0.1\n -time_step 10\n -correct_disp true\n -initial_time 5\nEND\n"),
    ("transport_multid", "SOLUTION 0-3\n Na 1\n Cl 1\n Ca 0.1\nEND\nTRANSPORT\n -cells 3\n -shifts 1\n -flow_direction diffusion_only\n -boundary_conditions constant closed\n -multi_d true 1e-9 0.3 0.05 1.0\n -interlayer_d false\n -porosities 0.3 0.3 0.2\n -time_step 100 2\n -thermal_diffusion 2 1e-6\n -implicit false\nEND\n"),
    ("advection", "SOLUTION 0\n Ca 1\n Cl 2\nSOLUTION 1-4\n Na 1\n Cl 1\nEXCHANGE 1-4\n X 0.001\n -equilibrate 1\nEND\nADVECTION\n -cells 4\n -shifts 3\n -punch_cells 4\n -punch_frequency 1\n -print_cells 1 4\n -print_frequency 2\n -time_step 1 day\n -initial_time 0\n -warnings true\nEND\n"),
    ("inverse", "SOLUTION 1\n pH 7\n Ca 1\n C(4) 2.2\n Na 0.2\n Cl 0.2\nSOLUTION 2\n pH 7.5\n Ca 1.5\n C(4) 3.2\n Na 0.2\n Cl 0.2\nINVERSE_MODELING 1\n -solutions 1 2\n -uncertainty 0.05 0.1\n -balances\n  pH 0.1\n  Cl 0.2\n -phases\n  Calcite dis\n  CO2(g)\n  Halite pre\n -range 100\n -minimal\n -tolerance 1e-10\n -mineral_water true\nEND\n"),
    ("inverse_opts", "SOLUTION 1\n pH 7\n Ca 1\n C(4) 2.2\n S(6) 0.1\nSOLUTION 2\n pH 7.5\n Ca 1.5\n C(4) 3.2\n S(6) 0.2\nSOLUTION 3\n pH 7.2\n Ca 1.2\n C(4) 2.5\n S(6) 0.3\nINVERSE_MODELING 2\n -solutions 1 2 3\n -uncertainties 0.1\n -phases\n  Calcite\n  Gypsum force\n  CO2(g)\n  CaX2\n  NaX\n -multiple_precision false\n -force_solutions true false\n -lon_netpath np1\n -pat_netpath np2\nEND\n"),
    ("user_print", SOL + "USER_PRINT\n -start\n 10 PRINT \"pH\", -LA(\"H+\"), TOT(\"Ca\"), MOL(\"CaCO3\"), SI(\"Calcite\")\n 20 PRINT STR$(MU), TRIM(\" x \"), PAD(\"a\", 5)\n 30 a$ = \"Ca\" + \"+2\"\n 40 PRINT ACT(a$), GAMMA(a$), LG(a$), LM(a$)\n -end\nEND\n"),
    ("user_punch", SOL + "SELECTED_OUTPUT 1\n -reset false\n -high_precision true\n -totals Ca Fe(2)\n -molalities CaX2 Hfo_wOH2+\n -activities H+\n -si Calcite CO2(g)\n -equilibrium_phases Calcite\n -gases CO2(g)\n -kinetic_reactants Calcite\n -solid_solutions Siderite\n -inverse_modeling false\nUSER_PUNCH 1\n -headings a b c\n -start\n 10 PUNCH MU, CHARGE_BALANCE, ALK\n 20 PUNCH \"text\"\n -end\nEND\n"),
    ("selected_output_n", SOL + "SELECTED_OUTPUT 5\n -file so5.sel\n -simulation true\n -state true\n -solution true\n -distance true\n -time true\n -step true\n -pH\n -pe\n -reaction\n -temperature\n -alkalinity\n -ionic_strength\n -water\n -charge_balance\n -percent_error\n -active false\nSELECTED_OUTPUT 5\n -active true\nEND\n"),
    ("print", SOL + "PRINT\n -reset false\n -species true\n -saturation_indices true\n -totals true\n -eh false\n -equilibrium_phases\n -exchange\n -surface\n -gas_phase\n -kinetics\n -solid_solutions\n -inverse\n -dump false\n -headings\n -user_print\n -selected_output true\n -status false\n -warnings 10\n -censor_species 1e-8\n -echo_input false\n -alkalinity true\n -initial_isotopes false\n -isotope_ratios false\n -isotope_alphas false\n -user_graph false\nEND\n"),
    ("knobs", "KNOBS\n -iterations 150\n -convergence_tolerance 1e-10\n -tolerance 1e-14\n -step_size 50\n -pe_step_size 5\n -diagonal_scale true\n -debug_model false\n -debug_prep false\n -debug_set false\n -debug_inverse false\n -logfile true\n -numerical_derivatives false\n -debug_diffuse_layer false\n -delay_mass_water false\n -debug_mass_action\n -debug_mass_balance\n" + SOL + "END\n"),
    ("calculate_values", "CALCULATE_VALUES\n cv1\n -start\n 10 x = TOT(\"Ca\") / TOT(\"Na\")\n 20 SAVE x\n -end\n" + SOL + "USER_PRINT\n 10 PRINT CALC_VALUE(\"cv1\")\nEND\n"),
    ("named_expressions", "NAMED_EXPRESSIONS\n Log_alpha_x\n -ln_alpha1000 0.5 0 100 0 0\n Log_K_y\n log_k 1.5\n -delta_h 2 kcal\n -analytical_expression 1 0 0 0 0\n" + SOL + "END\n"),
    ("isotopes", "ISOTOPES\n C\n -isotope 13C permil 0.0111802\n -total_is_major\n H\n -isotope D permil 155.76e-6\nISOTOPE_RATIOS\n R(13C) 13C\nISOTOPE_ALPHAS\n Alpha_x Log_alpha_x\nNAMED_EXPRESSIONS\n Log_alpha_x\n -ln_alpha1000 0.5\nCALCULATE_VALUES\n R(13C)\n -start\n 10 SAVE 0.011\n -end\n" + SOL + "END\n"),
    ("species_add", "SOLUTION_MASTER_SPECIES\n K K+ 0 K 39.102\n N NO3- 0 N 14.0067\n N(5) NO3- 0 N\n N(-3) NH4+ 0 N\nSOLUTION_SPECIES\n K+ = K+\n -gamma 3.5 0.015\n -Vm 9.06 -1.56 3.22 -2.76 0.51 0\n -viscosity 0.1 0.02\n NO3- = NO3-\n -gamma 3 0\n NO3- + 10 H+ + 8 e- = NH4+ + 3 H2O\n -log_k 119.077\n -delta_h -187.055 kcal\n -mole_balance NH4\n K+ + SO4-2 = KSO4-\n -log_k 0.85\n -no_check\n -add_logk Log_K_y 1\n -activity_water\n -erm_ddl 1.2\n -millero 1 2 3 4 5 6\nNAMED_EXPRESSIONS\n Log_K_y\n log_k 0\nSOLUTION 1\n K 1\n N(5) 1\n Cl 2\nEND\n"),
    ("phases_add", "PHASES\n Aragonite\n CaCO3 = CO3-2 + Ca+2\n -log_k -8.336\n -delta_h -2.589 kcal\n -analytic -171.9773 -0.077993 2903.293 71.595\n -Vm 34.04\n Fix_pH\n H+ = H+\n log_k 0\n NewGas(g)\n H2S = H2S\n -log_k -0.9\n -T_c 373.2\n -P_c 88.2\n -Omega 0.1\n" + SOL + "EQUILIBRIUM_PHASES 1\n Aragonite\n Fix_pH -5 HCl 10\nEND\n"),
    ("exchange_surface_species_add", "EXCHANGE_MASTER_SPECIES\n Y Y-\nEXCHANGE_SPECIES\n Y- = Y-\n log_k 0\n Na+ + Y- = NaY\n log_k 0.5\n -davies\n Ca+2 + 2 Y- = CaY2\n log_k 1\n -gamma 5 0.1\nSURFACE_MASTER_SPECIES\n Sfa SfaOH\nSURFACE_SPECIES\n SfaOH = SfaOH\n log_k 0\n SfaOH + H+ = SfaOH2+\n log_k 5\n -cd_music 0 0 0 0 0\n" + SOL + "EXCHANGE 1\n Y 0.01\n -equilibrate 1\nSURFACE 1\n Sfa 0.001 10 1\n -equilibrate 1\nEND\n"),
    ("pitzer", "PITZER\n -B0\n Na+ Cl- 0.0765 -777.03 -4.4706 0.008946 -3.3158E-6\n -B1\n Na+ Cl- 0.2664 0 0 6.1608E-5 1.0715E-6\n -C0\n Na+ Cl- 0.00127 33.317 0.09421 -4.655E-5\n -THETA\n Ca+2 Na+ 0.07\n -PSI\n Ca+2 Na+ Cl- -0.007\n -LAMDA\n Na+ CO2 0.1\n -ZETA\n Na+ Cl- CO2 -0.005\n -MacInnes false\n -use_etheta true\n -redox false\nSOLUTION 1\n Na 1000\n Cl 1000\n Ca 10\n C(4) 1\n pH 7\nEND\n"),
    ("sit", "SIT\n -epsilon\n Na+ Cl- 0.03\n Ca+2 Cl- 0.14\n Na+ SO4-2 -0.12\nSOLUTION 1\n Na 500\n Cl 500\n Ca 10\n S(6) 5\nEND\n"),
    ("llnl", "LLNL_AQUEOUS_MODEL_PARAMETERS\n -temperatures\n 0.01 25 60 100 150 200 250 300\n -dh_a\n 0.4939 0.5114 0.5465 0.5995 0.6855 0.7994 0.9593 1.218\n -dh_b\n 0.3253 0.3288 0.3346 0.3421 0.3525 0.3639 0.3766 0.3925\n -bdot\n 0.0374 0.041 0.0438 0.046 0.047 0.047 0.034 0\n -co2_coefs\n -1.0312 0.0012806 255.9 0.4445 -0.001606\n" + SOL + "END\n"),
    ("raw_solution", "SOLUTION_RAW 1\n -temp 25\n -pressure 1\n -total_h 111.01529525379\n -total_o 55.515091916385\n -cb -7.2566674791779e-12\n -density 0.998\n -totals\n  C(4) 0.003\n  Ca 0.002\n  Cl 0.013168629675684\n  Fe(2) 2.79e-06\n  Fe(3) 1.72e-05\n  Na 0.012\n -pH 7.5\n -pe 4\n -mu 0.0179\n -ah2o 0.9995\n -mass_water 1\n -soln_vol 1.003\n -total_alkalinity 0.00285\n -activities\n  C(4) -5.44\n  Ca -2.92\n  Cl -1.94\n  E -4\n  Fe(2) -5.8\n  Fe(3) -14.8\n  H(0) -26.15\n  Na -1.98\n  O(0) -40.08\n -gammas\nRUN_CELLS\n -cells 1\nEND\n"),
    ("raw_pp_exchange", SOL + "END\nEQUILIBRIUM_PHASES_RAW 1\n -new_def 0\n -component Calcite\n  -si 0\n  -moles 0.01\n  -force_equality 0\n  -dissolve_only 0\n  -precipitate_only 0\n  -si_org 0\n  -delta 0\n  -initial_moles 0\n  -totals\n -eltList\n  C 1\n  Ca 1\n  O 3\n -assemblage_totals\nEXCHANGE_RAW 1 Exchange\n -exchange_gammas 1\n -component X\n  -totals\n   Ca 0.00898\n   Na 0.00203\n   X 0.02\n  -charge_balance 0\n  -la 0.928\n  -phase_proportion 0\n  -formula_z 0\n -new_def 0\n -solution_equilibria 0\n -n_solution -999\n -totals\nRUN_CELLS\n -cells 1\nEND\n"),
    ("raw_surface", SOL + "END\nSURFACE_RAW 1\n -type 2\n -dl_type 0\n -only_counter_ions 0\n -thickness 1e-08\n -debye_lengths 0\n -DDL_viscosity 1\n -DDL_limit 0.8\n -component Hfo_w\n  -formula_z 0\n  -moles 0\n  -la -0.331\n  -charge_balance 1.087e-05\n  -phase_proportion 0\n  -Dw 0\n  -charge_name Hfo\n  -master_element Hfo_w\n  -totals\n   H 0.00185\n   Hfo_w 0.002\n   O 0.00297\n -charge_component Hfo\n  -specific_area 600\n  -grams 1\n  -charge_balance 1.087e-05\n  -mass_water 0\n  -la_psi 0.0482\n  -capacitance0 1\n  -capacitance1 5\n  -diffuse_layer_totals\n -new_def 0\n -tidied 1\n -sites_units 0\n -solution_equilibria 0\n -n_solution -999\n -transport 0\n -totals\nRUN_CELLS\n -cells 1\nEND\n"),
    ("raw_gas_ss_kin", SOL + "END\nGAS_PHASE_RAW 1\n -type 0\n -total_p 1\n -volume 1\n -component CO2(g)\n  -moles 0.000409\n  -p_read 0.01\n -component O2(g)\n  -moles 0.00818\n  -p_read 0.2\n -new_def 0\n -solution_equilibria 0\n -n_solution -999\n -temperature 298.15\n -total_moles 0.00859\n -v_m 116.48\n -pr_in 1\n -totals\nSOLID_SOLUTIONS_RAW 1\n -solid_solution CaFeCO3\n  -component Calcite\n   -moles 0.1\n   -fraction_x 0.99\n  -component Siderite\n   -moles 0.001\n   -fraction_x 0.0099\n  -tk 298.15\n  -input_case -1\n  -p 0 0 0 0\n  -a0 0\n  -a1 0\n  -miscibility 0\n  -ss_in 0\n  -total_moles 0\n  -totals\n -new_def 0\n -SSassemblage_totals\nKINETICS_RAW 1\n -step_divide 1\n -rk 3\n -bad_step_max 500\n -use_cvode 0\n -cvode_steps 100\n -cvode_order 5\n -component Calcite\n  -tol 1e-08\n  -m 0.01\n  -m0 0.01\n  -namecoef\n   Calcite 1\n  -d_params\n   10 0.67\n  -moles 0\n  -initial_moles 0\n -equal_increments 1\n -count 2\n -steps\n  100\n -totals\nRUN_CELLS\n -cells 1\n -time_step 10\nEND\n"),
    ("raw_reaction_mix", SOL + "END\nMIX_RAW 1\n 1 0.5\nREACTION_RAW 1\n -reactant_list\n  CO2 1\n -steps\n  0.001\n -count_steps 2\n -equal_increments 1\n -units Mol\n -element_list\nREACTION_TEMPERATURE_RAW 1\n -count_temps 2\n -equal_increments 0\n -temps\n  20 30\nREACTION_PRESSURE_RAW 1\n -count 0\n -equal_increments 0\n -pressures\n  1 2\nUSE solution 1\nUSE reaction 1\nUSE reaction_temperature 1\nEND\n"),
    ("modify", SOL + "EQUILIBRIUM_PHASES 1\n Calcite 0 0.01\nEXCHANGE 1\n X 0.01\n -equilibrate 1\nKINETICS 1\n Calcite\n -m0 0.01\n -parms 1 1\n -steps 1\nEND\nSOLUTION_MODIFY 1\n -cb 0.001\n -total_h 111.1\n -totals\n  Ca 0.005\n  Na 0.001\n -pH 6\nEQUILIBRIUM_PHASES_MODIFY 1\n -component Calcite\n  -moles 0.5\n  -si 0.2\nEXCHANGE_MODIFY 1\n -component X\n  -totals\n   Na 0.01\n   X 0.01\nKINETICS_MODIFY 1\n -component Calcite\n  -m 0.02\n -steps\n  5\nRUN_CELLS\n -cells 1\n -time_step 5\nEND\n"),
    ("modify2", SOL + "SURFACE 1\n Hfo_w 0.001 600 1\n -equilibrate 1\nGAS_PHASE 1\n CO2(g) 0.01\nSOLID_SOLUTIONS 1\n s\n -comp Calcite 0.1\n -comp Siderite 0.01\nREACTION 1\n NaCl 1\n 0.1\nEND\nSURFACE_MODIFY 1\n -component Hfo_w\n  -totals\n   Hfo_w 0.002\n   H 0.002\n   O 0.002\n -charge_component Hfo\n  -grams 2\nGAS_PHASE_MODIFY 1\n -total_p 2\n -component CO2(g)\n  -moles 0.1\nSOLID_SOLUTIONS_MODIFY 1\n -solid_solution s\n  -component Calcite\n   -moles 0.3\nREACTION_MODIFY 1\n -steps\n  0.2\n -count_steps 1\nRUN_CELLS\n -cells 1\nEND\n"),
    ("include", SOL + "INCLUDE$ ok.pqi\nEND\n"),
    ("include_missing", SOL + "INCLUDE$ no_such_file.pqi\nEND\n"),
    ("database_kw", "DATABASE whatever.dat\n" + SOL + "END\n"),
    ("semicolons", "SOLUTION 1; pH 7; Na 1; Cl 1 charge # comment\nREACTION 1; NaCl 1; 0.1 \\\n 0.2\nEND\n"),
    ("basic_heavy", SOL + "USER_PRINT\n -start\n 10 DIM a(5)\n 20 FOR i = 1 TO 5\n 30 a(i) = i ^ 2 MOD 3\n 40 NEXT i\n 50 DATA 1, 2, 3\n 60 READ x, y, z\n 70 RESTORE 50\n 80 IF (x > 0 AND y < 5) OR NOT (z = 3) THEN GOTO 100 ELSE PRINT \"no\"\n 90 GOSUB 200\n 100 WHILE x < 3\n 110 x = x + 1\n 120 WEND\n 130 PRINT SQRT(ABS(-4)), EXP(LOG(2)), LOG10(100), SIN(0), COS(0), TAN(0), ARCTAN(1), SGN(-2), FLOOR(1.5), CEIL(1.5), ROUND(1.5)\n 140 PRINT CHR$(65), ASC(\"A\"), LEN(\"abc\"), MID$(\"abcdef\", 2, 3), LTRIM(\" a\"), RTRIM(\"a \"), INSTR(\"abc\", \"b\"), VAL(\"1.5\"), EOL$\n 150 PUT(1.5, 1, 2)\n 160 PRINT GET(1, 2), EXISTS(1, 2)\n 170 ON x GOTO 180, 180, 180\n 180 END\n 200 RETURN\n -end\nEND\n"),
    ("basic_chem", SOL + "EQUILIBRIUM_PHASES 1\n Calcite 0 0.1\nEXCHANGE 1\n X 0.01\n -equilibrate 1\nSURFACE 1\n Hfo_w 0.001 600 1\n -equilibrate 1\nUSER_PRINT\n -start\n 10 PRINT TOTMOLE(\"Ca\"), TOTMOL(\"Na\"), EQUI(\"Calcite\"), EQUI_DELTA(\"Calcite\"), SURF(\"Fe\", \"Hfo\"), EDL(\"Ca\", \"Hfo\"), SYS(\"Ca\")\n 20 n = SYS(\"Ca\", count, n$, t$, c)\n 30 FOR i = 1 TO count\n 40 PRINT n$(i), t$(i), c(i)\n 50 NEXT i\n 60 PRINT SPECIES_FORMULA$(\"CaX2\", cnt, e$, cf), PHASE_FORMULA$(\"Calcite\", cnt2, e2$, cf2), LIST_S_S(\"x\", c3, n3$, m3)\n 70 PRINT GFW(\"CaCO3\"), LK_SPECIES(\"CaCO3\"), LK_PHASE(\"Calcite\"), LK_NAMED(\"x\"), SUM_SPECIES(\"{Ca,Na}*\", \"Ca\"), SUM_GAS(\"{C,[O]}*\", \"C\"), SUM_S_S(\"s\", \"Ca\")\n 80 PRINT RHO, RHO_0, SC, VM(\"Na+\"), DH_A, DH_B, DH_AV, EPS_R, KAPPA, QBRN, PRESSURE, PR_P(\"CO2(g)\"), PR_PHI(\"CO2(g)\"), GAS_P, GAS_VM, SOLN_VOL, OSMOTIC, PERCENT_ERROR, CELL_NO, SIM_NO, SIM_TIME, TOTAL_TIME, STEP_NO, DIST, TK, TC, CHARGE_BALANCE, DESCRIPTION\n 90 PRINT DIFF_C(\"Na+\"), SETDIFF_C(\"Na+\", 1e-9), VISCOS, VISCOS_0, APHI, CURRENT_A, POT_V, T_SC(\"Na+\"), KIN(\"Calcite\"), KIN_DELTA(\"Calcite\"), KIN_TIME, S_S(\"Siderite\"), GAS(\"CO2(g)\"), ISO(\"13C\"), ISO_UNIT(\"13C\"), CALLBACK(1, 2, \"x\"), GET_POR(1), CHANGE_POR(0.3, 1), CHANGE_SURF(\"Hfo\", 0.5, \"Sorbed\", 0, 1)\n -end\nEND\n"),
    ("empty", "\n"),
    ("end_only", "END\nEND\n"),
    ("garbage", "this is not a keyword\n 1 2 3\nSOLUTION\n"),
    ("bad_option", "SOLUTION 1\n -no_such_option 3\n pH 7 charge\n pe 4 charge\n Na 1 Calcite\n Xx 1\nEND\n"),
    ("undefined_refs", "USE solution 99\nUSE exchange 7\nREACTION 1\n Unobtainium 1\n 1\nEQUILIBRIUM_PHASES 1\n NoSuchPhase 0 1\nEND\nMIX 1\n 55 1\nEND\nRUN_CELLS\n -cells 77\nEND\nCOPY solution 88 1\nEND\n"),
]

# inputs used by the file-name modes; the targets create ok.pqi / bad.pqi / small.dat / adir in their scratch directory
NAME_SEEDS = ["ok.pqi", "bad.pqi", "small.dat", "adir", "no_such_file", "", ".", "adir/x", "ok.pqi/x", "ok.pqi\n", " ok.pqi", "a" * 300]

EXAMPLES = ["ex1", "ex2", "ex3", "ex4", "ex5", "ex6", "ex7", "ex8", "ex9", "ex10", "ex11", "ex12", "ex13a", "ex14", "ex15",
            "ex16", "ex17", "ex18", "ex19", "ex20a", "ex21", "ex22"]
GTEST_INPUTS = ["conv_fail.in", "multi_punch", "multi_punch_no_set", "dump", "kinn20140218"]
MAX_SEED_LEN = 6000

DB_MUT_BLOCKS = [
    "SOLUTION_MASTER_SPECIES\n H H+ -1 H 1.008\n H(0) H2 0 H\n H(1) H+ -1 H\n E e- 0 0 0\n O H2O 0 O 16\n O(0) O2 0 O\n O(-2) H2O 0 0\nSOLUTION_SPECIES\n H+ = H+\n e- = e-\n H2O = H2O\n H2O = OH- + H+\n log_k -14\n 2 H2O = O2 + 4 H+ + 4 e-\n log_k -86.08\n 2 H+ + 2 e- = H2\n log_k -3.15\nEND\n",
    "SOLUTION_MASTER_SPECIES\n H H+ -1 H 1.008\n H(0) H2 0 H\n H(1) H+ -1 H\n E e- 0 0 0\n O H2O 0 O 16\n O(0) O2 0 O\n O(-2) H2O 0 0\n Na Na+ 0 Na 23\n Cl Cl- 0 Cl 35.45\n Ca Ca+2 0 Ca 40\n C CO3-2 2 HCO3 12\n S SO4-2 0 SO4 32\nSOLUTION_SPECIES\n H+ = H+\n e- = e-\n H2O = H2O\n Na+ = Na+\n Cl- = Cl-\n Ca+2 = Ca+2\n CO3-2 = CO3-2\n SO4-2 = SO4-2\n H2O = OH- + H+\n log_k -14\n 2 H2O = O2 + 4 H+ + 4 e-\n log_k -86.08\n 2 H+ + 2 e- = H2\n log_k -3.15\n CO3-2 + H+ = HCO3-\n log_k 10.3\n CO3-2 + 2 H+ = CO2 + H2O\n log_k 16.681\nPHASES\n Calcite\n CaCO3 = Ca+2 + CO3-2\n log_k -8.48\nEND\n",
]


def _cut_simulations(text):
    """split an input file into single simulations (at END lines); DATABASE lines are dropped"""
    sims, cur = [], []
    for line in text.splitlines():
        if re.match(r"\s*DATABASE\b", line, re.I):
            continue
        cur.append(line.rstrip())
        if re.match(r"\s*END\s*(#.*)?$", line, re.I):
            sims.append("\n".join(cur) + "\n")
            cur = []
    if any(l.strip() for l in cur):
        sims.append("\n".join(cur) + "\n")
    return sims


def example_seeds(repo):
    out = []
    for ex in EXAMPLES:
        p = os.path.join(repo, "phreeqc3-examples", ex)
        if not os.path.isfile(p):
            continue
        txt = open(p, "rb").read().decode("latin-1")
        for i, s in enumerate(_cut_simulations(txt)):
            if len(s) <= MAX_SEED_LEN and len(s.strip()) > 10:
                out.append(("%s_%d" % (ex, i), s))
    for g in GTEST_INPUTS:
        p = os.path.join(repo, "gtest", g)
        if os.path.isfile(p):
            txt = open(p, "rb").read().decode("latin-1")
            for i, s in enumerate(_cut_simulations(txt)):
                if len(s) <= MAX_SEED_LEN and len(s.strip()) > 10:
                    out.append(("gtest_%s_%d" % (g, i), s))
    return out


def write_run_corpus(dirpath, repo, slow=()):
    """seed files for fuzz_run: text + switches byte + selector byte"""
    os.makedirs(dirpath, exist_ok=True)
    n = 0
    items = list(BLOCKS) + example_seeds(repo)
    for k, (name, text) in enumerate(items):
        if name in slow:
            continue
        sel = 0
        if k % 7 == 3:
            sel = 4
        elif k % 7 == 5:
            sel = 5
        sw = [0x00, 0x0f, 0x09, 0x7f, 0x08, 0x01][k % 6]
        with open(os.path.join(dirpath, "s_%s" % name), "wb") as f:
            f.write(text.encode("latin-1") + bytes([sw, sel]))
        n += 1
    for k, nm in enumerate(NAME_SEEDS):
        for sel in (6, 7):
            with open(os.path.join(dirpath, "n_%d_%d" % (k, sel)), "wb") as f:
                f.write(nm.encode("latin-1") + bytes([0x00, sel]))
            n += 1
    return n


def write_db_corpus(dirpath, small_db):
    """seed files for fuzz_db: database text + switches byte"""
    os.makedirs(dirpath, exist_ok=True)
    db = open(small_db, "rb").read().decode("latin-1")
    # the whole database, and each keyword block of it on top of a minimal core (water + master species)
    seeds = [("small", db)]
    parts = re.split(r"(?m)^(?=[A-Z_]+\s*$)", db)
    head = "".join(p for p in parts if p.startswith("SOLUTION_MASTER_SPECIES") or p.startswith("SOLUTION_SPECIES"))
    by_kw = {p.split("\n", 1)[0].strip(): p for p in parts if p.strip()}
    groups = [["PHASES"], ["RATES"], ["EXCHANGE_MASTER_SPECIES", "EXCHANGE_SPECIES"], ["SURFACE_MASTER_SPECIES", "SURFACE_SPECIES"]]
    for g in groups:
        body = "".join(by_kw.get(k, "") for k in g)
        if body:
            seeds.append(("core_" + g[0].lower(), head + body + ("" if body.rstrip().endswith("END") else "END\n")))
    for i, b in enumerate(DB_MUT_BLOCKS):
        seeds.append(("mini_%d" % i, b))
    for name, text in BLOCKS:
        if name in ("species_add", "phases_add", "exchange_surface_species_add", "pitzer", "sit", "llnl", "isotopes", "named_expressions", "calculate_values", "rates"):
            seeds.append(("add_" + name, DB_MUT_BLOCKS[1].replace("END\n", "") + text))
    seeds.append(("empty", "\n"))
    seeds.append(("garbage", "not a database\n"))
    for k, (name, text) in enumerate(seeds):
        with open(os.path.join(dirpath, "d_%s" % name), "wb") as f:
            f.write(text.encode("latin-1") + bytes([[0, 1, 4, 7][k % 4]]))
    return len(seeds)


# ------------------------------------------------------------------------------------------ dictionary
NUMBERS = ["0", "-1", "1e308", "1e-308", "nan", "inf", "-inf", "1e999", "2147483647", "2147483648", "-2147483649",
           "4294967296", "99999999999999999999", "0.0", "1e-320", "-0", "1e5", "100000", "1-5", "5-1", "-5"]
UNITS = ["mol/kgw", "mmol/kgw", "umol/kgw", "mg/L", "ppm", "ppb", "g/kgs", "mol/L", "eq/kgw", "meq/L", "kcal", "kJ", "kjoules", "day", "year",
         "as", "gfw", "charge", "equilibrium_phase", "kinetic_reactant", "dissolve_only", "precipitate_only", "true", "false",
         "none", "flux", "constant", "closed", "forward", "back", "diffusion_only", "density", "absolute", "pre", "dis", "force",
         "in", "steps", "moles", "permil", "cell", "cells"]


def source_tokens(repo):
    """keywords, option names and BASIC tokens read from the source text (generator input only, never an oracle)"""
    src = os.path.join(repo, "src", "phreeqcpp")
    kws, opts, basic = set(), set(), set()
    try:
        t = open(os.path.join(src, "PhreeqcKeywords", "Keywords.cpp"), errors="replace").read()
        kws.update(m.upper() for m in re.findall(r'value_type\("(\w+)"', t))
    except OSError:
        pass
    for f in sorted(glob.glob(os.path.join(src, "*.cpp")) + glob.glob(os.path.join(src, "*.cxx"))):
        try:
            t = open(f, errors="replace").read()
        except OSError:
            continue
        for blk in re.findall(r'(?:opt_list\s*\[\]|temp_vopts\s*\[\])\s*=\s*\{(.*?)\};', t, re.S):
            blk = re.sub(r"/\*.*?\*/", "", blk, flags=re.S)
            blk = re.sub(r"//[^\n]*", "", blk)
            opts.update(re.findall(r'"([A-Za-z_][\w$]*)"', blk))
        if os.path.basename(f) == "PBasic.cpp":
            basic.update(m.upper() for m in re.findall(r'value_type\("([\w$]+)",\s*PBasic::tok', t))
    return sorted(kws), sorted(opts), sorted(basic)


def db_names(small_db):
    db = open(small_db, errors="replace").read()
    names = set(re.findall(r"[A-Z][A-Za-z_]*(?:\([^)\s]*\))?(?:[+-]\d*)?", db))
    return sorted(n for n in names if 1 < len(n) < 14)


def write_dict(path, repo, small_db):
    kws, opts, basic = source_tokens(repo)
    toks = []
    toks += kws
    toks += ["-" + o for o in opts]
    toks += [b for b in basic if len(b) > 1]
    toks += db_names(small_db)
    toks += NUMBERS + UNITS
    toks += ["\n", "\nEND\n", ";", "\\\n", "#", "\t", " -", "\n -", "\n 10 ", "INCLUDE$ ", "ok.pqi", "bad.pqi", "small.dat", "adir",
             "-start", "-end", " 1-3", "\"", "(", ")", "$", "{", "}", "[", "]", "=", " = ", " + ", "e-", "H2O", "\r\n"]
    seen, out = set(), []
    for t in toks:
        if t and t not in seen and len(t) <= 40:
            seen.add(t)
            out.append(t)
    with open(path, "w") as f:
        for t in out:
            f.write('"' + "".join(c if (32 <= ord(c) < 127 and c not in '"\\') else "\\x%02x" % ord(c) for c in t) + '"\n')
    return len(out)


def selfcheck():
    """development helper: every base block must run without error on small.dat (release build)"""
    from . import lib
    db = open(os.path.join(lib.VERIF, "corpus", "small.dat")).read()
    bad = 0
    for name, text in BLOCKS:
        I = lib.fresh("phreeqc.dat")
        assert I.load_db_string(db) == 0
        rc = I.run_string(text.replace("INCLUDE$ ok.pqi\n", ""))
        if rc != 0:
            print("%-28s rc=%d %s" % (name, rc, I.errors().strip().replace("\n", " | ")[:300]))
            bad += 1
        I.close()
    print("%d blocks, %d with errors" % (len(BLOCKS), bad))


if __name__ == "__main__":
    selfcheck()
