"""Chemical formula parser for PHREEQC species / phase formulas (independent of /repo).

Written from the formula conventions of the PHREEQC input format:

  * an element name is a capital letter followed by lower-case letters or underscores (`Ca`, `Hfo_s`, `X`),
    or a bracketed name followed by lower-case letters/underscores (`[13C]`, `[18O]`, `[N5]a`);
  * an element or a parenthesised group may be followed by a subscript, an unsigned integer or decimal
    number (`Ca0.5(CO3)0.5`, `(UO2)3(OH)5+`);
  * `:` starts a new section whose optional leading number multiplies everything up to the next `:` or the end
    of the formula (`CaSO4:2H2O`, `Na2CO3:10H2O`);
  * the charge is written at the end: `+`, `-`, `+2`, `-0.5`, or repeated signs `+++`;
  * `e-` is the electron (element `e`, charge -1).

API
---
    parse(text)            -> (elements: dict name -> float, charge: float)         raises FormulaError
    elements(text)         -> dict only
    charge(text)           -> float only (cheap; does not validate the element part)
    split_charge(text)     -> (formula_without_charge, charge)
    weight(text, gfw)      -> gram formula weight with gfw: dict element -> g/mol   (KeyError for unknown elements)
    canonical(text)        -> species name with the charge in canonical spelling: 'Cu+1' -> 'Cu+', 'Al+++' -> 'Al+3'
                              (PHREEQC identifies species by this spelling)
    add(acc, els, coef=1)  -> accumulates coef*els into dict acc (returns acc)
    clean(d, eps=1e-12)    -> copy of d without (near-)zero entries
"""
import re

__all__ = ["FormulaError", "parse", "elements", "charge", "split_charge", "canonical", "weight", "add", "clean"]


class FormulaError(ValueError):
    pass


_NUM = re.compile(r"(\d+\.?\d*|\.\d+)")
_ELT = re.compile(r"([A-Z][a-z_]*|\[[^\[\]]*\][a-z_]*)")


def split_charge(text):
    """'Fe(OH)2+' -> ('Fe(OH)2', 1.0);  'CO3-2' -> ('CO3', -2.0);  'H2O' -> ('H2O', 0.0)

    The charge is the trailing `sign[number]` or run of equal signs.  Signs inside brackets `[...]` belong to a name."""
    t = text.strip()
    if t == "e-":
        return "e", -1.0
    # protect bracketed names
    depth = 0
    first = None
    for i, c in enumerate(t):
        if c == "[":
            depth += 1
        elif c == "]":
            depth -= 1
        elif c in "+-" and depth == 0:
            first = i
            break
    if first is None:
        return t, 0.0
    head, tail = t[:first], t[first:]
    m = re.match(r"^([+-])(\d+\.?\d*|\.\d+)$", tail)
    if m:
        z = float(m.group(2))
        return head, z if m.group(1) == "+" else -z
    if re.match(r"^\++$", tail):
        return head, float(len(tail))
    if re.match(r"^-+$", tail):
        return head, -float(len(tail))
    raise FormulaError("cannot read the charge %r of %r" % (tail, text))


def charge(text):
    return split_charge(text)[1]


def canonical(text):
    t = text.strip()
    if t == "e-":
        return t
    body, z = split_charge(t)
    if z == 0:
        return body
    sign = "+" if z > 0 else "-"
    a = abs(z)
    if a == 1:
        return body + sign
    return body + sign + ("%d" % a if a == int(a) else "%g" % a)


def add(acc, els, coef=1.0):
    for k, v in els.items():
        acc[k] = acc.get(k, 0.0) + coef * v
    return acc


def clean(d, eps=1e-12):
    return {k: v for k, v in d.items() if abs(v) > eps}


def _group(t, i, closing):
    """parse a sequence of items starting at t[i] up to `closing` (')' or None for end / ':'); -> (dict, next index)"""
    out = {}
    n = len(t)
    while i < n:
        c = t[i]
        if c == ")":
            if closing == ")":
                return out, i
            raise FormulaError("unbalanced ')' in %r" % t)
        if c == ":":
            if closing is None:
                return out, i
            raise FormulaError("':' inside parentheses in %r" % t)
        if c == "(":
            sub, j = _group(t, i + 1, ")")
            if j >= n or t[j] != ")":
                raise FormulaError("unbalanced '(' in %r" % t)
            j += 1
            m = _NUM.match(t, j)
            k = 1.0
            if m:
                k = float(m.group(1))
                j = m.end()
            add(out, sub, k)
            i = j
            continue
        m = _ELT.match(t, i)
        if not m:
            raise FormulaError("unexpected %r at position %d of %r" % (c, i, t))
        name = m.group(1)
        j = m.end()
        k = 1.0
        m2 = _NUM.match(t, j)
        if m2:
            k = float(m2.group(1))
            j = m2.end()
        out[name] = out.get(name, 0.0) + k
        i = j
    if closing == ")":
        raise FormulaError("unbalanced '(' in %r" % t)
    return out, i


def parse(text):
    """-> (elements dict, charge)"""
    body, z = split_charge(text)
    if body == "e" and z == -1.0 and text.strip() == "e-":
        return {"e": 1.0}, -1.0
    if not body:
        raise FormulaError("empty formula %r" % text)
    total = {}
    i, n = 0, len(body)
    mult = 1.0
    first = True
    while i < n:
        if not first:
            if body[i] != ":":
                raise FormulaError("unexpected %r in %r" % (body[i], text))
            i += 1
            m = _NUM.match(body, i)
            mult = 1.0
            if m:
                mult = float(m.group(1))
                i = m.end()
        sub, i = _group(body, i, None)
        if not sub:
            raise FormulaError("empty section in %r" % text)
        add(total, sub, mult)
        first = False
    return total, z


def elements(text):
    return parse(text)[0]


def weight(text, gfw):
    """gram formula weight of `text`; gfw maps element name -> g/mol"""
    els, _ = parse(text)
    return sum(v * gfw[k] for k, v in els.items())
