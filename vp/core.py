"""Driver shared by all property checks: sharded Hypothesis runs, journaling, evidence, replay and the
violation / known-finding protocol (DESIGN.md section 2).

  python3-vt -m vp.core <ID> <quick|thorough>          run the check (parent; spawns shard workers)
  python3-vt -m vp.core <ID> --replay FILE             run the oracle on one saved case, no Hypothesis
  python3-vt -m vp.core <ID> --worker TIER K N SEED    internal
"""
import sys, os, json, hashlib, time, importlib, subprocess, threading, traceback, collections, glob, signal

VERIF = os.path.dirname(os.path.dirname(os.path.abspath(__file__)))
BUILD = os.environ.get("VERIF_BUILD") or os.path.join(VERIF, "build")
OUT = os.environ.get("VERIF_OUT") or VERIF  # evidence/ and replays/<ID>/found/ are written below OUT
RUN = os.path.join(BUILD, "run")
CASE_TIMEOUT = float(os.environ.get("VERIF_CASE_TIMEOUT", "600"))


class Violation(Exception):
    """The oracle found the property violated on this case."""

    def __init__(self, oracle, msg, detail=None):
        Exception.__init__(self, "%s: %s" % (oracle, msg))
        self.oracle, self.msg, self.detail = oracle, msg, detail


class Discard(Exception):
    """The case lies outside the property's domain (e.g. the calculation did not complete)."""

    def __init__(self, why="discard"):
        Exception.__init__(self, why)
        self.why = why


def canon(case):
    return json.dumps(case, sort_keys=True, separators=(",", ":"), default=str)


def sha(case):
    return hashlib.sha256(canon(case).encode("utf-8", "replace")).hexdigest()[:20]


def load_prop(pid):
    return importlib.import_module("vp.props." + pid.lower())


class Ctx:
    def __init__(self, pid, tier, shard, nshards, seed):
        self.pid, self.tier, self.shard, self.nshards, self.seed = pid, tier, shard, nshards, seed
        self.hseed = (seed * 1000003 + shard) & 0x7FFFFFFFFFFF
        self.evaluations = 0
        self.nt = set()
        self.classes = collections.Counter()
        self.discards = collections.Counter()
        self.samples = []
        self.failures = []
        self.notes = []
        self.extra = {}
        self._last_fail = None
        self._beat = time.time()
        self._case_path = os.path.join(RUN, "%s.%s.%d.case" % (pid, tier, shard))
        self._journal = os.environ.get("VERIF_NO_JOURNAL") is None
        os.makedirs(RUN, exist_ok=True)
        self.scratch = os.path.join(BUILD, "scratch", "%s.%d.%d" % (pid, shard, os.getpid()))

    # -- per case bookkeeping
    def begin(self, case):
        self._beat = time.time()
        if self._journal:
            with open(self._case_path, "w") as f:
                f.write(canon(case))

    def record(self, case, nontrivial=False, classes=()):
        self.evaluations += 1
        for c in classes:
            self.classes[c] += 1
        if nontrivial:
            h = sha(case)
            if h not in self.nt:
                self.nt.add(h)
                if len(self.samples) < 3:
                    self.samples.append(case)
        elif not self.samples and self.evaluations == 1:
            pass

    def event(self, name, n=1):
        self.classes[name] += n

    def discard(self, why):
        self.discards[why] += 1

    def scratch_dir(self):
        os.makedirs(self.scratch, exist_ok=True)
        return self.scratch

    # -- Hypothesis driver
    def hyp(self, strategy, fn, max_examples, name="main", max_shrinks_s=120):
        """Run fn(case) over `strategy`.  fn returns None or dict(nontrivial=bool, classes=[...]);
        raises Violation (failure) or Discard (outside the domain)."""
        from hypothesis import given, settings, seed, HealthCheck, Phase
        ctx = self

        @settings(max_examples=max_examples, database=None, deadline=None, report_multiple_bugs=False,
                  derandomize=False, print_blob=False,
                  phases=(Phase.generate, Phase.shrink),
                  suppress_health_check=[HealthCheck.too_slow, HealthCheck.data_too_large, HealthCheck.large_base_example])
        @seed(self.hseed ^ (int(hashlib.sha256(name.encode()).hexdigest()[:8], 16)))
        @given(strategy)
        def t(case):
            ctx.begin(case)
            try:
                info = fn(case)
            except Discard as d:
                ctx.discards[d.why] += 1
                return
            except Violation as v:
                ctx._last_fail = (case, v)
                raise
            info = info or {}
            ctx.record(case, info.get("nontrivial", False), info.get("classes", ()))

        try:
            t()
        except Violation:
            case, v = self._last_fail
            self.failures.append({"case": case, "oracle": v.oracle, "message": v.msg[:4000], "test": name})
        except Exception as e:  # generator / harness error: a broken check, never a violation
            from hypothesis.errors import Unsatisfiable, FailedHealthCheck
            self.notes.append("harness-error in %s: %s" % (name, traceback.format_exc()[-3000:]))
            self.extra["harness_error"] = True

    def result(self):
        return {"evaluations": self.evaluations, "nt": sorted(self.nt), "classes": dict(self.classes),
                "discards": dict(self.discards), "samples": self.samples, "failures": self.failures,
                "notes": self.notes, "extra": self.extra}


def _watchdog(ctx):
    while True:
        time.sleep(5)
        if time.time() - ctx._beat > CASE_TIMEOUT:
            try:
                with open(ctx._case_path + ".hang", "w") as f:
                    f.write("hang")
            finally:
                os._exit(97)


def worker_main(pid, tier, k, n, seed):
    prop = load_prop(pid)
    ctx = Ctx(pid, tier, k, n, seed)
    th = threading.Thread(target=_watchdog, args=(ctx,), daemon=True)
    th.start()
    out = os.path.join(RUN, "%s.%s.%d.json" % (pid, tier, k))
    try:
        prop.run(ctx)
    except Exception:
        ctx.notes.append("worker exception: " + traceback.format_exc()[-3000:])
        ctx.extra["harness_error"] = True
    with open(out + ".tmp", "w") as f:
        json.dump(ctx.result(), f, default=str)
    os.replace(out + ".tmp", out)
    try:
        import shutil
        shutil.rmtree(ctx.scratch, ignore_errors=True)
    except Exception:
        pass
    sys.stdout.flush()
    os._exit(0)


def _rm_scratch(ctx):
    try:
        import shutil
        shutil.rmtree(ctx.scratch, ignore_errors=True)
    except Exception:
        pass


def replay_main(pid, path):
    prop = load_prop(pid)
    d = json.load(open(path))
    case = d["case"] if "case" in d else d
    ctx = Ctx(pid, "replay", 0, 1, 0)
    ctx._journal = False
    if hasattr(prop, "prepare"):
        prop.prepare("replay")
    try:
        prop.check_case(case, ctx)
    except Violation as v:
        print("REPLAY-FAIL property=%s oracle=%s %s" % (pid, v.oracle, v.msg[:1500]))
        sys.stdout.flush()
        _rm_scratch(ctx)
        os._exit(1)
    except Discard as dd:
        print("REPLAY-DISCARD %s" % dd.why)
        sys.stdout.flush()
        _rm_scratch(ctx)
        os._exit(0)
    print("REPLAY-PASS")
    sys.stdout.flush()
    _rm_scratch(ctx)
    os._exit(0)


def run_replay(pid, path, times=1, timeout=900):
    """-> list of (failed: bool, text) from fresh processes"""
    res = []
    for _ in range(times):
        try:
            p = subprocess.run([sys.executable, "-m", "vp.core", pid, "--replay", path], cwd=VERIF,
                               capture_output=True, text=True, timeout=timeout)
            failed = p.returncode != 0
            txt = (p.stdout + p.stderr)[-3000:]
            if p.returncode < 0:
                txt = "died with signal %d\n" % (-p.returncode) + txt
        except subprocess.TimeoutExpired:
            failed, txt = False, "replay timeout (inconclusive)"
        res.append((failed, txt))
    return res


def save_replay(pid, fail, subdir=""):
    d = os.path.join(OUT, "replays", pid, subdir)
    os.makedirs(d, exist_ok=True)
    path = os.path.join(d, sha(fail["case"]) + ".json")
    with open(path, "w") as f:
        json.dump(fail, f, indent=1, default=str)
    return path


def known_findings(pid):
    p = os.path.join(VERIF, "known_findings.json")
    if not os.path.exists(p):
        return []
    return [e for e in json.load(open(p))["findings"] if e.get("property") == pid]


def parent_main(pid, tier):
    t0 = time.time()
    seed = int(os.environ.get("VERIF_SEED", "1") or "1")
    prop = load_prop(pid)
    os.makedirs(RUN, exist_ok=True)
    for f in glob.glob(os.path.join(RUN, "%s.%s.*" % (pid, tier))):
        os.unlink(f)
    # 1. build from /repo's working tree
    try:
        prop.prepare(tier)
    except Exception as e:
        print("BUILD-ERROR property=%s: %s" % (pid, str(e)[-3000:]))
        # a tree that does not compile is not a property verdict; signal a broken run
        sys.exit(2)
    violations = []
    known_lines = []
    replays_run = 0
    # 2. replay tier: known findings, then regression replays
    kf = [e for e in known_findings(pid) if e.get("status") == "known"]
    known_paths = {os.path.realpath(os.path.join(VERIF, e["replay"])) for e in kf}
    reg = [rp for rp in sorted(glob.glob(os.path.join(VERIF, "replays", pid, "*.json"))) if os.path.realpath(rp) not in known_paths]
    # the replay tier runs every saved case in its own fresh process; the processes are independent, so up to 8 run at once
    from concurrent.futures import ThreadPoolExecutor
    with ThreadPoolExecutor(max_workers=int(os.environ.get("VERIF_REPLAY_JOBS", "8"))) as ex:
        kres = list(ex.map(lambda e: run_replay(pid, os.path.join(VERIF, e["replay"]), 1), kf))
        rres = list(ex.map(lambda rp: run_replay(pid, rp, 1), reg))
    for e, r in zip(kf, kres):
        replays_run += 1
        if r[0][0]:
            known_lines.append("KNOWN-FINDING: property=%s %s" % (pid, e["what"]))
    for rp, r in zip(reg, rres):
        replays_run += 1
        if r[0][0]:
            r2 = run_replay(pid, rp, 2)
            if all(x[0] for x in r2):
                violations.append((rp, r[0][1]))
    # 3. generated search
    nsh = prop.SHARDS.get(tier, 8) if hasattr(prop, "SHARDS") else (8 if tier == "quick" else 16)
    procs = []
    for k in range(nsh):
        lg = open(os.path.join(RUN, "%s.%s.%d.log" % (pid, tier, k)), "w")
        procs.append((k, subprocess.Popen([sys.executable, "-m", "vp.core", pid, "--worker", tier, str(k), str(nsh), str(seed)],
                                          cwd=VERIF, stdout=lg, stderr=subprocess.STDOUT), lg))
    merged = {"evaluations": 0, "nt": set(), "classes": collections.Counter(), "discards": collections.Counter(),
              "samples": [], "failures": [], "notes": [], "extra": {}}
    crashed, hung = [], []
    for k, p, lg in procs:
        rc = p.wait()
        lg.close()
        out = os.path.join(RUN, "%s.%s.%d.json" % (pid, tier, k))
        casef = os.path.join(RUN, "%s.%s.%d.case" % (pid, tier, k))
        if os.path.exists(out):
            r = json.load(open(out))
            merged["evaluations"] += r["evaluations"]
            merged["nt"].update(r["nt"])
            merged["classes"].update(r["classes"])
            merged["discards"].update(r["discards"])
            merged["samples"].extend(r["samples"][:1] if merged["samples"] else r["samples"][:2])
            merged["failures"].extend(r["failures"])
            merged["notes"].extend(r["notes"])
            for kk, vv in r["extra"].items():
                if isinstance(vv, (int, float)) and not isinstance(vv, bool) and isinstance(merged["extra"].get(kk, 0), (int, float)):
                    merged["extra"][kk] = merged["extra"].get(kk, 0) + vv
                elif isinstance(vv, list):
                    merged["extra"].setdefault(kk, []).extend(vv)
                else:
                    merged["extra"][kk] = vv
        elif rc == 97:
            hung.append(k)
        else:
            crashed.append((k, rc, casef))
    # crashes: replay the journalled case
    flaky = []
    for k, rc, casef in crashed:
        tail = open(os.path.join(RUN, "%s.%s.%d.log" % (pid, tier, k))).read()[-2000:]
        if os.path.exists(casef):
            case = json.load(open(casef))
            fail = {"case": case, "oracle": "process-death", "message": "worker %d exited with %s\n%s" % (k, rc, tail), "test": "crash"}
            merged["failures"].append(fail)
        else:
            merged["notes"].append("worker %d died (%s) before its first case: %s" % (k, rc, tail))
            merged["extra"]["harness_error"] = True
    seen_fail = set()
    for fail in merged["failures"]:
        if sha(fail["case"]) in seen_fail:
            continue
        seen_fail.add(sha(fail["case"]))
        path = save_replay(pid, fail, "found")
        r = run_replay(pid, path, 3)
        if all(x[0] for x in r):
            violations.append((path, fail["oracle"] + ": " + fail["message"][:600]))
        else:
            flaky.append({"path": path, "results": [x[0] for x in r]})
            # not reproducible: a defect of the check; keep the file out of the replay tier
            os.replace(path, path + ".flaky")
    wall = time.time() - t0
    floor = getattr(prop, "FLOORS", {}).get(tier, 2)
    nnt = len(merged["nt"])
    inconclusive = bool(hung) or nnt < floor or bool(merged["extra"].get("harness_error"))
    samples = merged["samples"][:4]
    if not samples:
        samples = ["(no non-trivial sample recorded)"]
    cov = {"evaluations": max(merged["evaluations"], 0), "distinct_nontrivial": nnt, "rule": prop.RULE,
           "samples": _clip(samples), "classes": dict(merged["classes"].most_common(80)),
           "discarded": dict(merged["discards"]), "replays_run": replays_run, "shards": nsh,
           "floor_distinct_nontrivial": floor, "inconclusive": inconclusive,
           "hung_shards": hung, "flaky_discarded": flaky,
           "known_findings_reported": known_lines, "notes": merged["notes"][:20]}
    for kk, vv in merged["extra"].items():
        cov.setdefault(kk, vv)
    ev = {"property_id": pid, "tier": tier, "seed": seed, "level": prop.LEVEL, "coverage": cov,
          "assumptions": list(prop.ASSUMPTIONS), "wall_s": round(wall, 2), "violations": len(violations)}
    os.makedirs(os.path.join(OUT, "evidence"), exist_ok=True)
    with open(os.path.join(OUT, "evidence", pid + ".json"), "w") as f:
        json.dump(ev, f, indent=1, default=str)
    for l in known_lines:
        print(l)
    print("%s %s: evaluations=%d distinct_nontrivial=%d (floor %d) discarded=%d replays=%d wall=%.1fs%s" % (
        pid, tier, merged["evaluations"], nnt, floor, sum(merged["discards"].values()), replays_run, wall,
        " INCONCLUSIVE" if inconclusive else ""))
    for n in merged["notes"][:5]:
        sys.stderr.write("note: " + n[:1500] + "\n")
    if flaky:
        sys.stderr.write("note: %d failure(s) did not replay (flaky_discarded)\n" % len(flaky))
    if violations:
        for path, msg in violations:
            sys.stderr.write("violation detail: %s\n" % msg[:1500])
            print("VIOLATION property=%s replay=%s" % (pid, path))
        sys.exit(1)
    sys.exit(0)


def _clip(samples, lim=6000):
    out = []
    for s in samples:
        t = canon(s) if not isinstance(s, str) else s
        if len(t) > lim:
            out.append({"truncated": True, "head": t[:lim]})
        else:
            out.append(s)
    return out


def main(a):
    pid = a[0].upper()
    if a[1] == "--replay":
        replay_main(pid, a[2])
    elif a[1] == "--worker":
        worker_main(pid, a[2], int(a[3]), int(a[4]), int(a[5]))
    else:
        parent_main(pid, a[1])


if __name__ == "__main__":
    # run through the canonical module object so that props and driver share one Violation class
    from vp import core as _core
    _core.main(sys.argv[1:])
