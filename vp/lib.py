"""ctypes binding of the IPhreeqc C API, the *F glue functions and the /verif C++ shim."""
import ctypes as C
import os, sys, subprocess

VERIF = os.path.dirname(os.path.dirname(os.path.abspath(__file__)))
REPO = os.environ.get("VERIF_REPO", "/repo")
DBDIR = os.path.join(REPO, "database")
BUILD = os.environ.get("VERIF_BUILD") or os.path.join(VERIF, "build")

TT_EMPTY, TT_ERROR, TT_LONG, TT_DOUBLE, TT_STRING = 0, 1, 2, 3, 4
VR_OK, VR_OUTOFMEMORY, VR_BADVARTYPE, VR_INVALIDARG, VR_INVALIDROW, VR_INVALIDCOL = 0, -1, -2, -3, -4, -5
IPQ_OK, IPQ_OUTOFMEMORY, IPQ_BADVARTYPE, IPQ_INVALIDARG, IPQ_INVALIDROW, IPQ_INVALIDCOL, IPQ_BADINSTANCE = 0, -1, -2, -3, -4, -5, -6


class _U(C.Union):
    _fields_ = [("lVal", C.c_long), ("dVal", C.c_double), ("sVal", C.c_char_p), ("vresult", C.c_int)]


class VAR(C.Structure):
    _anonymous_ = ("u",)
    _fields_ = [("type", C.c_int), ("u", _U)]


def build(variant="rel", targets=None):
    cmd = [sys.executable if False else "python3", os.path.join(VERIF, "tools", "build.py"), variant] + list(targets or [])
    p = subprocess.run(cmd, capture_output=True, text=True)
    if p.returncode != 0:
        raise RuntimeError("build failed:\n" + p.stderr[-4000:])


_lib = None

INT_GETTERS = """GetComponentCount GetCurrentSelectedOutputUserNumber GetDumpFileOn GetDumpStringLineCount
GetDumpStringOn GetErrorFileOn GetErrorOn GetErrorStringLineCount GetErrorStringOn GetLogFileOn
GetLogStringLineCount GetLogStringOn GetOutputFileOn GetOutputStringLineCount GetOutputStringOn
GetSelectedOutputColumnCount GetSelectedOutputCount GetSelectedOutputFileOn GetSelectedOutputRowCount
GetSelectedOutputStringLineCount GetSelectedOutputStringOn GetWarningStringLineCount""".split()
INTN_GETTERS = ["GetNthSelectedOutputUserNumber"]
STR_GETTERS = """GetDumpFileName GetDumpString GetErrorFileName GetErrorString GetLogFileName GetLogString
GetOutputFileName GetOutputString GetSelectedOutputFileName GetSelectedOutputString GetWarningString""".split()
STRN_GETTERS = """GetComponent GetDumpStringLine GetErrorStringLine GetLogStringLine GetOutputStringLine
GetSelectedOutputStringLine GetWarningStringLine""".split()
INT_SETTERS = """SetCurrentSelectedOutputUserNumber SetDumpFileOn SetDumpStringOn SetErrorFileOn SetErrorOn
SetErrorStringOn SetLogFileOn SetLogStringOn SetOutputFileOn SetOutputStringOn SetSelectedOutputFileOn
SetSelectedOutputStringOn""".split()
STR_SETTERS = "SetDumpFileName SetErrorFileName SetLogFileName SetOutputFileName SetSelectedOutputFileName".split()
STR_CALLS = "AccumulateLine AddError AddWarning LoadDatabase LoadDatabaseString RunFile RunString".split()


def lib(variant="rel"):
    global _lib
    if _lib is not None:
        return _lib
    path = os.path.join(BUILD, variant, "libiphreeqc_%s.so" % variant)
    L = C.CDLL(path)
    I, S, V = C.c_int, C.c_char_p, C.c_void_p
    L.CreateIPhreeqc.restype = I
    L.CreateIPhreeqc.argtypes = []
    L.DestroyIPhreeqc.argtypes = [I]
    L.DestroyIPhreeqc.restype = I
    for n in INT_GETTERS:
        f = getattr(L, n); f.argtypes = [I]; f.restype = I
    for n in INTN_GETTERS:
        f = getattr(L, n); f.argtypes = [I, I]; f.restype = I
    for n in STR_GETTERS:
        f = getattr(L, n); f.argtypes = [I]; f.restype = S
    for n in STRN_GETTERS:
        f = getattr(L, n); f.argtypes = [I, I]; f.restype = S
    for n in INT_SETTERS:
        f = getattr(L, n); f.argtypes = [I, I]; f.restype = I
    for n in STR_SETTERS + STR_CALLS:
        f = getattr(L, n); f.argtypes = [I, S]; f.restype = I
    for n in ("RunAccumulated", "ClearAccumulatedLines"):
        f = getattr(L, n); f.argtypes = [I]; f.restype = I
    for n in ("OutputAccumulatedLines", "OutputErrorString", "OutputWarningString"):
        f = getattr(L, n); f.argtypes = [I]; f.restype = None
    L.GetVersionString.restype = S
    L.GetSelectedOutputValue.argtypes = [I, I, I, C.POINTER(VAR)]
    L.GetSelectedOutputValue.restype = I
    L.GetSelectedOutputValue2.argtypes = [I, I, I, C.POINTER(I), C.POINTER(C.c_double), C.c_char_p, C.c_uint]
    L.GetSelectedOutputValue2.restype = I
    L.VarInit.argtypes = [C.POINTER(VAR)]
    L.VarClear.argtypes = [C.POINTER(VAR)]
    # shim
    L.shim_new.restype = V
    L.shim_delete.argtypes = [V]
    L.shim_id.argtypes = [V]; L.shim_id.restype = I
    L.shimcpp_geti.argtypes = [V, S, I]; L.shimcpp_geti.restype = I
    L.shimcpp_gets.argtypes = [V, S, I]; L.shimcpp_gets.restype = S
    L.shimcpp_seti.argtypes = [V, S, I]; L.shimcpp_seti.restype = I
    L.shimcpp_sets.argtypes = [V, S, S]; L.shimcpp_sets.restype = I
    L.shimcpp_accumulated.argtypes = [V]; L.shimcpp_accumulated.restype = S
    L.shimcpp_value.argtypes = [V, I, I, C.POINTER(VAR)]; L.shimcpp_value.restype = I
    L.shim_table.argtypes = [I, C.POINTER(I), C.POINTER(I), C.POINTER(C.POINTER(C.c_byte)),
                             C.POINTER(C.POINTER(C.c_double)), C.POINTER(C.POINTER(C.c_longlong)),
                             C.POINTER(C.c_void_p), C.POINTER(C.c_longlong)]
    L.shim_table.restype = I
    for n in ("shim_dump_raw", "shim_roundtrip_storagebin", "shim_copy_dump"):
        f = getattr(L, n); f.argtypes = [V]; f.restype = C.c_void_p
    L.shim_serialize_into.argtypes = [V, V, I, I]; L.shim_serialize_into.restype = C.c_void_p
    L.shim_free.argtypes = [C.c_void_p]
    L.shim_cmp_bindings.argtypes = [V, C.c_char_p, I]; L.shim_cmp_bindings.restype = I
    # F glue (pointers)
    _lib = L
    return L


def b(s):
    if s is None:
        return None
    return s if isinstance(s, bytes) else s.encode("latin-1", "replace")


def u(x):
    return None if x is None else x.decode("latin-1")


class Table:
    """One selected-output table: cells[r][c] is None (empty), int, float, str, or ('ERR', code)."""
    __slots__ = ("rows", "cols", "cells", "types")

    def __init__(self, rows, cols, cells, types):
        self.rows, self.cols, self.cells, self.types = rows, cols, cells, types

    def headings(self):
        return list(self.cells[0]) if self.rows > 0 else []

    def dicts(self):
        h = self.headings()
        return [dict(zip(h, r)) for r in self.cells[1:]]

    def col(self, name):
        h = self.headings()
        j = h.index(name)
        return [r[j] for r in self.cells[1:]]


class Inst:
    """An IPhreeqc instance driven through the C API."""

    def __init__(self, variant="rel", via_shim=False):
        self.L = lib(variant)
        self.ptr = None
        if via_shim:
            self.ptr = self.L.shim_new()
            self.id = self.L.shim_id(self.ptr)
        else:
            self.id = self.L.CreateIPhreeqc()
        if self.id < 0:
            raise RuntimeError("CreateIPhreeqc failed")
        self.alive = True

    def close(self):
        if self.alive:
            if self.ptr:
                self.L.shim_delete(self.ptr)
            else:
                self.L.DestroyIPhreeqc(self.id)
            self.alive = False

    def __enter__(self):
        return self

    def __exit__(self, *a):
        self.close()

    def __del__(self):
        try:
            self.close()
        except Exception:
            pass

    # -- calls
    def load_db(self, name):
        path = name if os.path.isabs(name) else os.path.join(DBDIR, name)
        return self.L.LoadDatabase(self.id, b(path))

    def load_db_string(self, text):
        return self.L.LoadDatabaseString(self.id, b(text))

    def run_string(self, text):
        return self.L.RunString(self.id, b(text))

    def run_file(self, path):
        return self.L.RunFile(self.id, b(path))

    def accumulate(self, line):
        return self.L.AccumulateLine(self.id, b(line))

    def run_accumulated(self):
        return self.L.RunAccumulated(self.id)

    def geti(self, name, *a):
        return getattr(self.L, name)(self.id, *a)

    def gets(self, name, *a):
        return u(getattr(self.L, name)(self.id, *a))

    def seti(self, name, v):
        return getattr(self.L, name)(self.id, int(v))

    def sets(self, name, s):
        return getattr(self.L, name)(self.id, b(s))

    def errors(self):
        return u(self.L.GetErrorString(self.id))

    def warnings(self):
        return u(self.L.GetWarningString(self.id))

    def output(self):
        return u(self.L.GetOutputString(self.id))

    def dump(self):
        return u(self.L.GetDumpString(self.id))

    def log(self):
        return u(self.L.GetLogString(self.id))

    def components(self):
        return [self.gets("GetComponent", i) for i in range(self.geti("GetComponentCount"))]

    def user_numbers(self):
        return [self.L.GetNthSelectedOutputUserNumber(self.id, i) for i in range(self.L.GetSelectedOutputCount(self.id))]

    def set_current(self, n):
        return self.L.SetCurrentSelectedOutputUserNumber(self.id, n)

    def table(self, n=None):
        if n is not None:
            self.set_current(n)
        rows, cols = C.c_int(), C.c_int()
        tp = C.POINTER(C.c_byte)(); dp = C.POINTER(C.c_double)(); lp = C.POINTER(C.c_longlong)()
        bp = C.c_void_p(); bl = C.c_longlong()
        rc = self.L.shim_table(self.id, C.byref(rows), C.byref(cols), C.byref(tp), C.byref(dp), C.byref(lp), C.byref(bp), C.byref(bl))
        r, c = rows.value, cols.value
        if rc != 0 or r <= 0 or c <= 0:
            return Table(max(r, 0), max(c, 0), [], [])
        n_ = r * c
        types = tp[0:n_]
        blob = C.string_at(bp.value, bl.value)
        strs = blob.split(b"\0")
        cells, trows = [], []
        k = 0
        for i in range(r):
            row = []
            for j in range(c):
                t = types[k]
                if t == TT_DOUBLE:
                    row.append(dp[k])
                elif t == TT_LONG:
                    row.append(int(lp[k]))
                elif t == TT_STRING:
                    row.append(strs[k].decode("latin-1"))
                elif t == TT_EMPTY:
                    row.append(None)
                elif t == TT_ERROR:
                    row.append(("ERR", int(lp[k])))
                else:
                    row.append(("RC", t + 10))
                k += 1
            cells.append(row)
            trows.append(list(types[i * c:(i + 1) * c]))
        return Table(r, c, cells, trows)

    def value(self, row, col):
        """(rc, type, value) through the C function"""
        v = VAR()
        self.L.VarInit(C.byref(v))
        rc = self.L.GetSelectedOutputValue(self.id, row, col, C.byref(v))
        out = _var_py(v)
        self.L.VarClear(C.byref(v))
        return (rc,) + out

    # shim (C++ object) access; only valid when created via_shim
    def cpp_geti(self, name, n=0):
        return self.L.shimcpp_geti(self.ptr, b(name), n)

    def cpp_gets(self, name, n=0):
        return u(self.L.shimcpp_gets(self.ptr, b(name), n))

    def cpp_seti(self, name, v):
        return self.L.shimcpp_seti(self.ptr, b(name), int(v))

    def cpp_sets(self, name, s):
        return self.L.shimcpp_sets(self.ptr, b(name), b(s))

    def cpp_value(self, row, col):
        v = VAR()
        self.L.VarInit(C.byref(v))
        rc = self.L.shimcpp_value(self.ptr, row, col, C.byref(v))
        out = _var_py(v)
        self.L.VarClear(C.byref(v))
        return (rc,) + out

    def _take(self, p):
        if not p:
            return None
        s = C.string_at(p).decode("latin-1")
        self.L.shim_free(p)
        return s

    def raw_dump(self):
        return self._take(self.L.shim_dump_raw(self.ptr))

    def roundtrip_storagebin(self):
        return self._take(self.L.shim_roundtrip_storagebin(self.ptr))

    def copy_dump(self):
        return self._take(self.L.shim_copy_dump(self.ptr))

    def serialize_into(self, other, start, end):
        return self._take(self.L.shim_serialize_into(self.ptr, other.ptr, start, end))


def _var_py(v):
    t = v.type
    if t == TT_DOUBLE:
        return (t, v.dVal)
    if t == TT_LONG:
        return (t, int(v.lVal))
    if t == TT_STRING:
        return (t, u(v.sVal))
    if t == TT_ERROR:
        return (t, int(v.vresult))
    return (t, None)


def fresh(db="phreeqc.dat", variant="rel", via_shim=False, error_string=True):
    i = Inst(variant, via_shim)
    rc = i.load_db(db)
    if rc != 0:
        err = i.errors()
        i.close()
        raise RuntimeError("LoadDatabase(%s) failed: %s" % (db, err[:500]))
    return i
