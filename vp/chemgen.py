"""PHREEQC input grammar as Hypothesis strategies (construction, not rejection).

Every strategy returns JSON-able structures (dicts / lists / str) so that a whole case can be
journalled, hashed and replayed; `render_*` functions turn them into input text.
"""
from hypothesis import strategies as st
import math

# ---- numbers ---------------------------------------------------------------------------


def logu(lo, hi, digits=4):
    """log-uniform float in [lo,hi], rounded to `digits` significant digits (keeps text short and
    makes shrinking meaningful)"""
    a, b = math.log10(lo), math.log10(hi)
    return st.floats(a, b, allow_nan=False).map(lambda x: float("%.*g" % (digits, 10 ** x)))


def uni(lo, hi, digits=4):
    return st.floats(lo, hi, allow_nan=False).map(lambda x: float("%.*g" % (digits, x)) if x != 0 else 0.0)


def fmt(x):
    """shortest text that round-trips the double"""
    if isinstance(x, int):
        return str(x)
    return repr(float(x))


# ---- simple solutions on phreeqc.dat-like databases ----------------------------------------

# element -> (name used in SOLUTION, typical max molality)
SIMPLE_ELEMENTS = {
    "Na": 1.0, "K": 0.5, "Ca": 0.05, "Mg": 0.1, "Cl": 1.0, "S(6)": 0.05, "C(4)": 0.05,
    "Si": 0.001, "Br": 0.01, "Li": 0.01, "Sr": 0.001, "Ba": 1e-5, "F": 1e-4, "B": 1e-3,
    "N(5)": 0.01, "Al": 1e-6, "Mn": 1e-5, "Zn": 1e-5, "P": 1e-5,
}
REDOX_ELEMENTS = {"Fe": 1e-4, "Fe(2)": 1e-4, "Fe(3)": 1e-6, "N(-3)": 1e-3, "S(-2)": 1e-5, "Mn(2)": 1e-5}


@st.composite
def simple_solution(draw, number=1, elements=None, max_el=6, min_el=1, temp=True, ph=True, water=False,
                    charge=True, conc_hi=None):
    """-> dict(number, temp, pH, pe, units, water, comps=[(el, conc, extra)])"""
    pool = sorted((elements or SIMPLE_ELEMENTS).keys())
    els = draw(st.lists(st.sampled_from(pool), min_size=min_el, max_size=max_el, unique=True))
    comps = []
    for e in els:
        hi = (elements or SIMPLE_ELEMENTS)[e]
        if conc_hi:
            hi = min(hi, conc_hi)
        comps.append([e, draw(logu(hi * 1e-5, hi)), ""])
    sol = {"number": number, "comps": comps, "units": "mol/kgw"}
    sol["temp"] = draw(st.one_of(st.just(25.0), uni(0.0, 100.0, 3))) if temp else 25.0
    sol["pH"] = draw(uni(4.0, 10.0, 3)) if ph else 7.0
    sol["pe"] = 4.0
    sol["water"] = draw(logu(0.1, 10.0, 3)) if water else 1.0
    # charge balance: only on an element whose amount has to be *raised* to balance the others
    # (a negative requirement does not converge and would only produce discards)
    if charge and comps and draw(st.booleans()):
        z = {"Na": 1, "K": 1, "Li": 1, "Ca": 2, "Mg": 2, "Sr": 2, "Ba": 2, "Cl": -1, "Br": -1, "S(6)": -2,
             "C(4)": -1, "N(5)": -1, "F": -1}
        for k, c in enumerate(comps):
            if c[0] in ("Na", "K", "Cl"):
                others = sum(z.get(o[0], 0) * o[1] for o in comps if o is not c)
                if others * z[c[0]] < 0 and abs(others) > 1e-7:
                    c[2] = "charge"
                    break
    return sol


def render_solution(s, keyword="SOLUTION"):
    L = ["%s %d" % (keyword, s["number"])]
    if s.get("temp", 25.0) != 25.0:
        L.append(" temp %s" % fmt(s["temp"]))
    ph = " pH %s" % fmt(s.get("pH", 7.0))
    if s.get("pH_opt"):
        ph += " " + s["pH_opt"]
    L.append(ph)
    if "pe" in s:
        L.append(" pe %s" % fmt(s["pe"]))
    if s.get("redox"):
        L.append(" redox %s" % s["redox"])
    L.append(" units %s" % s.get("units", "mol/kgw"))
    if s.get("density"):
        L.append(" density %s" % fmt(s["density"]))
    for c in s["comps"]:
        L.append(" %s %s %s" % (c[0], fmt(c[1]), c[2]))
    if s.get("water", 1.0) != 1.0:
        L.append(" -water %s" % fmt(s["water"]))
    for x in s.get("extra_lines", []):
        L.append(" " + x)
    return "\n".join(L)


def elements_of(sol):
    """base element names (without valence) present in a solution dict"""
    return sorted({c[0].split("(")[0] for c in sol["comps"]})


KNOBS_TIGHT = "KNOBS\n -convergence_tolerance 1e-12\n -iterations 300"
