"""Generator of reaction states + follow-up calculations for C10 (dump / restore round trips).

Self-contained (pools copied from cellgen.py so that this module does not depend on an evolving interface).

A *case* is a JSON-able dict of texts, so that check_case is a pure function of the case:

    {"db": "phreeqc.dat",
     "adds": text,            # database additions every instance gets (RATES, PHASES, CD-MUSIC surface species) + PRINT
     "sims": [text, ...],     # the history run on instance 1 (each element is one or more complete simulations)
     "follow": text,          # follow-up simulation (KNOBS, INCREMENTAL_REACTIONS, SELECTED_OUTPUT/USER_PUNCH, USE.../RUN_CELLS)
     "cols": [[heading, kind], ...],   # kind: mol | log | lin | pe | visc   (tolerance class of the column)
     "redox": "inert" | "o2" | "unpoised",
     "labels": [...]}         # generator-side class labels (profile, follow-up type, history shape)

Numbering: initial solutions 1..ns; the reaction cell is 10 (+1 per batch step that saves to a new number, +5 for a
COPY cell); the follow-up uses the final cell.
"""
from hypothesis import strategies as st
from . import chemgen as cg

fmt = cg.fmt

KNOBS = "KNOBS\n -convergence_tolerance 1e-12\n -iterations 400"

RATES_TEXT = """RATES
 r_first
 -start
 10 rate = parm(1) * m
 20 save rate * time
 -end
 r_const
 -start
 10 if (m <= 0) then goto 30
 20 rate = parm(1)
 30 save rate * time
 -end
 r_ratio
 -start
 5 rate = 0
 10 if (m > 0) then rate = parm(1) * (m / m0) ^ 0.67
 20 if (parm(2) > 0) then rate = rate * parm(2)
 30 save rate * time
 -end
 r_sum
 -start
 5 rate = 0
 10 if (m > 0) then rate = (parm(1) + parm(2) * 0.5 + parm(3) * 0.25) * m / (m + 1e-3)
 20 save rate * time
 -end
"""

# CD-MUSIC surface (goethite-like, after the manual's SURFACE example); only simple monovalent/divalent binding
CDMUSIC_TEXT = """SURFACE_MASTER_SPECIES
 Goe_uni Goe_uniOH-0.5
 Goe_tri Goe_triO-0.5
SURFACE_SPECIES
 Goe_triO-0.5 = Goe_triO-0.5
  -cd_music 0 0 0 0 0
  log_k 0
 Goe_triO-0.5 + H+ = Goe_triOH+0.5
  -cd_music 1 0 0 0 0
  log_k 9.20
 Goe_triO-0.5 + Na+ = Goe_triONa+0.5
  -cd_music 0 1 0 0 0
  log_k -0.60
 Goe_triO-0.5 + H+ + Cl- = Goe_triOHCl-0.5
  -cd_music 1 -1 0 0 0
  log_k 8.75
 Goe_uniOH-0.5 = Goe_uniOH-0.5
  -cd_music 0 0 0 0 0
  log_k 0
 Goe_uniOH-0.5 + H+ = Goe_uniOH2+0.5
  -cd_music 1 0 0 0 0
  log_k 9.20
 Goe_uniOH-0.5 + Na+ = Goe_uniOHNa+0.5
  -cd_music 0 1 0 0 0
  log_k -0.60
 Goe_uniOH-0.5 + H+ + Cl- = Goe_uniOH2Cl-0.5
  -cd_music 1 -1 0 0 0
  log_k 8.75
 Goe_uniOH-0.5 + Ca+2 = Goe_uniOHCa+1.5
  -cd_music 0.2 1.8 0 0 0
  log_k 3.0
"""

PROFILES = {
    "phreeqc": {
        "db": "phreeqc.dat",
        "cations": {"Na": (1, 0.5), "K": (1, 0.2), "Ca": (2, 0.05), "Mg": (2, 0.05), "Sr": (2, 0.002), "Ba": (2, 1e-5)},
        "anions": {"S(6)": (2, 0.03)},
        "anions_redox": {"N(5)": (1, 0.01)},
        "neutral": {"Si": 5e-4},
        "react": ["NaCl", "KCl", "CaCl2", "MgCl2", "Na2SO4", "K2SO4", "NaHCO3", "CO2", "HCl", "NaOH", "H2O", "CaSO4",
                  "SrCl2", "Na2CO3", "Ca(OH)2", "Calcite", "Gypsum", "Halite", "Dolomite", "Sylvite"],
        "minerals": ["Calcite", "Aragonite", "Dolomite", "Gypsum", "Anhydrite", "Celestite", "Strontianite", "Barite",
                     "Witherite", "Halite", "Sylvite", "Quartz", "Chalcedony", "SiO2(a)"],
        "minerals_fe": ["Goethite", "Fe(OH)3(a)", "Siderite"],
        "gas": ["CO2(g)", "H2O(g)", "Ntg(g)", "Mtg(g)"],
        "gas_redox": ["O2(g)", "N2(g)"],
        "ss_sets": [["Calcite", "Strontianite"], ["Anhydrite", "Celestite", "Barite"], ["Barite", "Celestite"],
                    ["Calcite", "Strontianite", "Witherite"], ["Aragonite", "Strontianite"], ["Gypsum", "Celestite"]],
        "exch": {"NaX": 1, "KX": 1, "CaX2": 2, "MgX2": 2, "SrX2": 2},
        "surf": ["hfo", "cdmusic"],
        "elements": ["Na", "K", "Ca", "Mg", "Sr", "Ba", "Cl", "S", "C", "Si", "N", "Fe", "Ntg", "Mtg"],
        "species": ["Na+", "Cl-", "Ca+2", "HCO3-", "CO3-2", "SO4-2", "CaSO4", "NaSO4-", "CaHCO3+", "MgSO4"],
    },
    "pitzer": {
        "db": "pitzer.dat",
        "cations": {"Na": (1, 3.0), "K": (1, 0.5), "Ca": (2, 0.1), "Mg": (2, 0.5), "Sr": (2, 0.002), "Ba": (2, 1e-5)},
        "anions": {"S(6)": (2, 0.1), "Br": (1, 0.01), "B": (1, 0.005)},
        "anions_redox": {},
        "neutral": {"Si": 5e-4},
        "react": ["NaCl", "KCl", "CaCl2", "MgCl2", "Na2SO4", "K2SO4", "NaHCO3", "CO2", "HCl", "NaOH", "H2O", "CaSO4",
                  "SrCl2", "Na2CO3", "MgSO4", "Calcite", "Gypsum", "Halite", "Sylvite"],
        "minerals": ["Calcite", "Aragonite", "Dolomite", "Gypsum", "Anhydrite", "Celestite", "Barite", "Halite", "Sylvite",
                     "Magnesite", "Quartz", "Chalcedony", "Mirabilite", "Thenardite", "Epsomite", "Arcanite",
                     "Glauberite", "Nahcolite", "Hexahydrite", "Syngenite", "Bloedite"],
        "minerals_fe": [],
        "gas": ["CO2(g)", "H2O(g)", "Ntg(g)", "Mtg(g)", "Oxg(g)"],
        "gas_redox": [],
        "ss_sets": [["Anhydrite", "Celestite", "Barite"], ["Barite", "Celestite"], ["Halite", "Sylvite"],
                    ["Calcite", "Magnesite"], ["Epsomite", "Hexahydrite"]],
        "exch": {"NaX": 1, "KX": 1, "CaX2": 2, "MgX2": 2, "SrX2": 2},
        "surf": ["hfo"],
        "elements": ["Na", "K", "Ca", "Mg", "Sr", "Ba", "Cl", "S", "C", "Si", "Br", "B", "Ntg", "Mtg", "Oxg"],
        "species": ["Na+", "Cl-", "Ca+2", "HCO3-", "CO3-2", "SO4-2", "MgCO3", "Mg+2", "K+"],
    },
    "iso": {
        "db": "iso.dat",
        "cations": {"Na": (1, 0.1), "K": (1, 0.05), "Ca": (2, 0.01), "Mg": (2, 0.01)},
        "anions": {"S(6)": (2, 0.005)},
        "anions_redox": {},
        "neutral": {"Si": 5e-4},
        "react": ["NaCl", "KCl", "CaCl2", "NaHCO3", "CO2", "HCl", "NaOH", "H2O", "Calcite", "Gypsum"],
        "minerals": ["Calcite", "Gypsum", "Anhydrite", "Dolomite", "Quartz", "Chalcedony"],
        "minerals_fe": [],
        "gas": ["CO2(g)", "H2O(g)"],
        "gas_redox": [],
        "ss_sets": [],
        "exch": {"NaX": 1, "KX": 1, "CaX2": 2},
        "surf": [],
        "elements": ["Na", "K", "Ca", "Mg", "Cl", "S", "C", "Si", "D", "[18O]", "[13C]", "T"],
        "species": ["Na+", "Cl-", "Ca+2", "HCO3-", "CO3-2", "HDO", "H2[18O]", "H[13C]O3-"],
    },
}
PROFILES["wateq4f"] = dict(PROFILES["phreeqc"], db="wateq4f.dat",
                           react=["NaCl", "KCl", "CaCl2", "MgCl2", "Na2SO4", "K2SO4", "NaHCO3", "CO2", "HCl", "NaOH", "H2O",
                                  "CaSO4", "SrCl2", "Na2CO3", "Ca(OH)2", "Calcite", "Gypsum", "Halite", "Dolomite", "Magnesite"],
                           minerals=["Calcite", "Aragonite", "Dolomite", "Gypsum", "Anhydrite", "Celestite", "Strontianite",
                                     "Barite", "Witherite", "Halite", "Magnesite", "Brucite", "Quartz", "Chalcedony", "SiO2(a)",
                                     "Fluorite", "Nahcolite"],
                           gas=["CO2(g)", "H2O(g)"], gas_redox=["O2(g)", "N2(g)"],
                           ss_sets=[["Calcite", "Strontianite"], ["Anhydrite", "Celestite", "Barite"], ["Barite", "Celestite"],
                                    ["Calcite", "Magnesite"]],
                           elements=["Na", "K", "Ca", "Mg", "Sr", "Ba", "Cl", "S", "C", "Si", "N", "Fe"])

KINDS = ["reaction", "pp", "exch", "surf", "gas", "ss", "kin"]
KEYWORD = {"pp": "equilibrium_phases", "exch": "exchange", "surf": "surface", "gas": "gas_phase",
           "ss": "solid_solutions", "kin": "kinetics", "reaction": "reaction"}
KIN_FORMULAS = ["NaCl", "KCl", "CaCl2", "Na2SO4", "NaHCO3", "CaSO4", "MgCl2", "Calcite", "Gypsum", "H2O", "CO2"]
KIN_FORMULAS_ISO = ["NaCl", "KCl", "CaCl2", "NaHCO3", "H2O", "CO2"]


def adds_text(prof, X=None):
    t = "PRINT\n -reset false\n" + RATES_TEXT
    if X:
        # names of drawn length (see long_names): a rate, a phase and an exchanger element
        t += " %s\n -start\n 10 rate = parm(1) * m\n 20 save rate * time\n -end\n" % X["rate"]
        t += "PHASES\n %s\n NaCl = Na+ + Cl-\n log_k 1.57\n" % X["phase"]
        q = X["exch"]
        t += ("EXCHANGE_MASTER_SPECIES\n %s %s-\nEXCHANGE_SPECIES\n %s- = %s-\n log_k 0\n Na+ + %s- = Na%s\n log_k 0\n"
              " K+ + %s- = K%s\n log_k 0.7\n" % (q, q, q, q, q, q, q, q))
    if "cdmusic" in PROFILES[prof]["surf"]:
        t += CDMUSIC_TEXT
    return t + "END\n"


# Name lengths.  The RAW writers put names into fixed-width columns (cxxNameDouble::dump_raw pads to column 29 minus the
# indentation: 21 characters for a KINETICS -formula token, 23 for exchange/surface component totals, 25 for REACTION
# reactants and solution lists, 27/29 for outer lists); every length 1..40 is drawn; a third of the draws fall in 17..33, a third on the column widths themselves.
def name_length(lo=1, hi=40):
    return st.one_of(st.integers(lo, hi), st.integers(max(lo, 17), min(hi, 33)),
                     st.sampled_from([n for n in (21, 23, 25, 27, 29) if lo <= n <= hi]))


_FORMULA_SHORT = {3: ["KCl", "H2O", "CO2"], 4: ["NaCl"], 5: ["CaCl2", "K2SO4"], 6: ["Na2SO4", "NaHCO3"]}
_FORMULA_BASES = ["NaCl1", "KCl1", "CaCl2", "Na2SO4", "H2O1", "CO2"]


# (long lists multiply the number of reaction steps of every history step and of the follow-up on ~12 instances: next to
# kinetic reactants only the kinetics' own list may be long, and only in cells without surface / solid solution / gas / phases)
def list_length(hi=20):
    """number of entries of an explicit step list: 1-3, or (one draw in three) 6..hi - the RAW writers put 5 numbers on the
    first line and 6 on every continuation line, so only lists of >= 6 entries exercise the continuation-line readers"""
    return st.one_of(st.integers(1, 3), st.integers(1, 3), st.integers(6, hi))


@st.composite
def long_formula(draw):
    """a valid neutral formula of a drawn length 3..40: short salts, or <salt>.<zeros> (e.g. CaCl2.000000 = CaCl2)"""
    L = draw(name_length(3, 40))
    bases = [b for b in _FORMULA_BASES if len(b) + 2 <= L]
    if not bases:
        return draw(st.sampled_from(_FORMULA_SHORT[max(3, min(L, 6))]))
    b = draw(st.sampled_from(bases))
    return b + "." + "0" * (L - len(b) - 1)


@st.composite
def long_names(draw):
    pad = "abcdefghijklmnopqrstuvwxyzabcdefghijklmnopqrstuvwxyz"
    lr, lp, lq = draw(name_length(3, 40)), draw(name_length(3, 40)), draw(name_length(2, 30))
    return {"rate": ("rl_" + pad)[:lr], "phase": ("Lp_" + pad)[:lp], "exch": ("Q" + pad)[:lq]}


def _some(draw, pool, lo, hi):
    pool = list(pool)
    hi = min(hi, len(pool))
    lo = min(lo, hi)
    return draw(st.lists(st.sampled_from(pool), min_size=lo, max_size=hi, unique=True))


# ---------------------------------------------------------------------------------------------- solutions
@st.composite
def solution(draw, prof, n, redox):
    P = PROFILES[prof]
    cats = _some(draw, sorted(P["cations"]), 1, 4)
    anpool = dict(P["anions"])
    if redox != "inert":
        anpool.update(P["anions_redox"])
    ans = _some(draw, sorted(anpool), 0, 2)
    comps, ceq = [], 0.0
    for e in cats:
        z, hi = P["cations"][e]
        c = draw(cg.logu(hi * 1e-3, hi, 3))
        comps.append([e, c, ""])
        ceq += z * c
    # pH buffer by construction: every solution carries >= 1e-4 mol/kgw inorganic carbon (see module c10.py, conditioning)
    cname = "C" if prof == "iso" else "C(4)"
    cbuf = draw(cg.logu(1e-4, 5e-3, 3))
    acomps = [[cname, cbuf, 1.5]]
    for e in ans:
        z, hi = anpool[e]
        acomps.append([e, draw(cg.logu(hi * 1e-3, hi, 3)), z])
    aeq = sum(a[1] * a[2] for a in acomps)
    if aeq > 0.8 * ceq:
        # raise the first cation instead of lowering the buffer
        comps[0][1] = float("%.3g" % (comps[0][1] + (aeq / 0.8 - ceq) / P["cations"][comps[0][0]][0]))
        ceq = sum(P["cations"][c[0]][0] * c[1] for c in comps)
    for a in acomps:
        comps.append([a[0], a[1], ""])
    balance = draw(st.sampled_from(["Cl", "Cl", "none", "pH"]))
    cl = max(ceq - aeq, 1e-6)
    if balance == "none":
        cl = float("%.4g" % (cl * draw(cg.uni(0.97, 1.03, 3))))
    else:
        cl = float("%.4g" % cl)
    comps.append(["Cl", cl, "charge" if balance == "Cl" else ""])
    for e in _some(draw, sorted(P["neutral"]), 0, 1):
        comps.append([e, draw(cg.logu(P["neutral"][e] * 1e-2, P["neutral"][e], 3)), ""])
    s = {"n": n, "comps": comps, "pH": draw(cg.uni(5.5, 9.0, 3)), "pH_charge": balance == "pH", "balance": balance,
         "temp": 25.0, "water": draw(st.one_of(st.just(1.0), cg.logu(0.2, 5.0, 3))), "extra": []}
    if draw(st.integers(0, 4)) == 0:
        s["temp"] = draw(cg.uni(5.0, 60.0, 3))
    if draw(st.integers(0, 7)) == 0:
        s["pressure"] = draw(cg.uni(1.0, 20.0, 3))
    if redox == "o2":
        s["extra"].append("O(0) 1 O2(g) -0.7")
        if draw(st.integers(0, 2)) == 0:
            comps.append(["Fe", draw(cg.logu(1e-7, 1e-5, 3)), ""])
    elif redox == "unpoised":
        if draw(st.integers(0, 1)) == 0 or not any(c[0] == "N(5)" for c in comps):
            comps.append(["Fe", draw(cg.logu(1e-6, 1e-4, 3)), ""])
    if prof == "iso":
        for iso, lo, hi in (("D", -100.0, 0.0), ("[18O]", -15.0, 0.0), ("[13C]", -25.0, 0.0)):
            if draw(st.integers(0, 2)) > 0:
                s["extra"].append("%s %s" % (iso, fmt(draw(cg.uni(lo, hi, 3)))))
        if draw(st.integers(0, 3)) == 0:
            s["extra"].append("T %s" % fmt(draw(cg.uni(1.0, 20.0, 2))))
    return s


def render_solution(s):
    L = [("SOLUTION %d %s" % (s["n"], s.get("desc", ""))).rstrip(), " units mol/kgw", " temp %s" % fmt(s["temp"]),
         " pH %s%s" % (fmt(s["pH"]), " charge" if s["pH_charge"] else ""), " pe 4"]
    if "pressure" in s:
        L.append(" pressure %s" % fmt(s["pressure"]))
    for e, c, x in s["comps"]:
        L.append(" %s %s %s" % (e, fmt(c), x))
    for x in s["extra"]:
        L.append(" " + x)
    L.append(" -water %s" % fmt(s["water"]))
    for x in s.get("isotopes", []):       # only in the registered known-finding replay
        L.append(" -isotope " + x)
    return "\n".join(L)


# ---------------------------------------------------------------------------------------------- reactants
@st.composite
def reaction(draw, prof, n, X=None, long_ok=True):
    P = PROFILES[prof]
    names = _some(draw, P["react"], 1, 3)
    if draw(st.booleans()):
        # a reactant whose name has a drawn length: a long formula or the long-named user phase
        names.append(X["phase"] if X and draw(st.integers(0, 3)) == 0 else draw(long_formula()))
    L = ["REACTION %d" % n]
    for nm in names:
        L.append(" %s %s" % (nm, fmt(draw(st.sampled_from([1.0, 1.0, 0.5, 2.0, 0.25])))))
    units = draw(st.sampled_from(["moles", "moles", "mmol", "umol"]))
    scale = {"moles": 1.0, "mmol": 1e3, "umol": 1e6}[units]
    top = draw(cg.logu(1e-6, 0.05, 3))
    if draw(st.booleans()):
        k = draw(list_length() if long_ok else st.integers(1, 3))
        fr = sorted(draw(st.lists(cg.uni(0.05, 1.0, 2), min_size=k, max_size=k)))
        L.append(" " + " ".join(fmt(float("%.4g" % (top * f * scale))) for f in fr) + " " + units)
        nst = k
    else:
        nst = draw(st.integers(1, 3))
        L.append(" %s %s in %d steps" % (fmt(float("%.4g" % (top * scale))), units, nst))
    return "\n".join(L), nst, ["reaction_steps=%d" % nst] + ["reactant_name_len=%d" % len(nm) for nm in names if len(nm) >= 17]


@st.composite
def pp(draw, prof, n, redox, need=(), exclude=()):
    P = PROFILES[prof]
    # a phase that is also an end-member of a solid solution of the cell would make the split between the two
    # reservoirs indeterminate (phase rule) -> never both
    pool = [m for m in P["minerals"] if m not in exclude]
    # (Fluorite next to iron is generated on purpose: merge_redox once cut 'Fe(2)' to 'F' and erased the fluoride total
    # of a solution read from SOLUTION_RAW / SOLUTION_MODIFY - fixed e622e202, replays/C10/fixed-solution-read-drops-F-*)
    fe_note = []
    if redox != "inert":
        pool += P["minerals_fe"][:2] if redox == "o2" else P["minerals_fe"]
    names = _some(draw, pool, 1, 4)
    if need:
        # the phase an exchanger / surface is tied to must not be consumed (e.g. Calcite -> undersaturated Aragonite):
        # with the phase exhausted a Donnan surface keeps 0 kg of water and its dump holds '-nan' entries that cannot be
        # read back (known finding) -> the assemblage then consists of the tied phase(s) only
        names = list(dict.fromkeys(need))
        labels_need = ["excluded_other_phases_next_to_tied_phase"]
    else:
        labels_need = []
    L = ["EQUILIBRIUM_PHASES %d" % n]
    labels = list(labels_need) + fe_note
    for nm in names:
        si = draw(st.sampled_from([0.0, 0.0, 0.0, None]))
        if si is None:
            si = draw(cg.uni(-2.0, 1.0, 3))
        moles = draw(st.one_of(st.just(0.0), st.just(10.0), cg.logu(1e-5, 1.0, 3)))
        if nm in need:
            moles = 10.0
        opt = draw(st.sampled_from(["", "", "", "", "dissolve_only", "precipitate_only", "force_equality"]))
        if opt == "force_equality" and moles == 0.0:
            opt = ""
        if nm in need:
            # a phase that an exchanger / surface is tied to: plain equilibrium with plenty of solid.  With
            # precipitate_only / dissolve_only the engine scales the tied surface to ~0 during the step but saves the phase
            # with its full amount; the next input (any *_RAW read) re-scales the surface -> excluded by construction
            opt, si = "", 0.0
        alt = ""
        if not opt and nm not in need and draw(st.integers(0, 9)) == 0 and nm in ("Gypsum", "Calcite"):
            alt = {"Gypsum": "CaSO4", "Calcite": "CaCO3"}[nm]
            moles = max(moles, 0.01)
        if alt:
            L.append(" %s %s %s %s" % (nm, fmt(si), alt, fmt(moles)))
            labels.append("pp_add_formula")
        elif opt == "force_equality":
            L.append(" %s %s %s" % (nm, fmt(si), fmt(moles)))
            L.append(" -force_equality true")
            labels.append("pp_force_equality")
        else:
            L.append(" %s %s %s %s" % (nm, fmt(si), fmt(moles), opt))
            if opt:
                labels.append("pp_" + opt)
    if draw(st.integers(0, 3)) == 0:
        L.append(" CO2(g) %s %s" % (fmt(draw(cg.uni(-3.5, -1.0, 3))), fmt(draw(st.sampled_from([10.0, 1.0, 0.01])))))
    if redox == "o2" and draw(st.integers(0, 2)) == 0:
        L.append(" O2(g) %s 1" % fmt(draw(cg.uni(-2.0, -0.7, 3))))
    return "\n".join(L), names, labels


@st.composite
def exch(draw, prof, n, eq_sol, pp_names, kin_rates, X=None):
    P = PROFILES[prof]
    L = ["EXCHANGE %d" % n]
    labels = []
    mode = draw(st.sampled_from(["equil", "equil", "explicit", "explicit", "phase", "kin"]))
    if X and draw(st.integers(0, 2)) == 0:
        # a second exchanger whose element name has a drawn length (key of the component's -totals list)
        L.append(" Na%s %s" % (X["exch"], fmt(draw(cg.logu(1e-4, 0.1, 3)))))
        labels.append("exch_long_element")
    need_pp = None
    if mode == "kin" and not kin_rates:
        mode = "explicit"
    if mode == "equil":
        L.append(" X %s" % fmt(draw(cg.logu(1e-4, 0.5, 3))))
        L.append(" -equilibrate %d" % eq_sol)
        labels.append("exch_equilibrate")
    elif mode == "explicit":
        for nm in _some(draw, sorted(P["exch"]), 1, 3):
            L.append(" %s %s" % (nm, fmt(draw(cg.logu(1e-4, 0.3, 3)))))
        labels.append("exch_explicit")
    elif mode == "phase":
        need_pp = draw(st.sampled_from(pp_names)) if pp_names else draw(st.sampled_from(P["minerals"][:4]))
        L.append(" X %s equilibrium_phase %s" % (need_pp, fmt(draw(cg.logu(1e-3, 0.5, 2)))))
        L.append(" -equilibrate %d" % eq_sol)
        labels.append("exch_related_phase")
    else:
        L.append(" X %s kinetic_reactant %s" % (draw(st.sampled_from(kin_rates)), fmt(draw(cg.logu(1e-3, 0.5, 2)))))
        L.append(" -equilibrate %d" % eq_sol)
        labels.append("exch_related_kinetics")
    if prof == "pitzer" and draw(st.integers(0, 2)) == 0:
        L.append(" -pitzer_exchange_gammas %s" % draw(st.sampled_from(["true", "false"])))
        labels.append("exch_pitzer_gammas_option")
    return "\n".join([x for x in L if x]), need_pp, labels


@st.composite
def surf(draw, prof, n, eq_sol, pp_names, kin_rates, balanced):
    P = PROFILES[prof]
    fam = draw(st.sampled_from(P["surf"]))
    labels = []
    L = ["SURFACE %d" % n]
    equil = draw(st.integers(0, 3)) > 0
    need_pp = None
    if fam == "cdmusic":
        dens = draw(st.booleans())
        area, grams = draw(st.sampled_from([96.4, 50.0, 20.0])), draw(cg.logu(0.1, 5.0, 3))
        if dens:
            L.append(" -sites_units density")
            a, b = draw(cg.uni(1.0, 4.0, 3)), draw(cg.uni(1.0, 3.0, 3))
            labels.append("surf_sites_density")
        else:
            a, b = draw(cg.logu(1e-5, 1e-3, 3)), draw(cg.logu(1e-5, 1e-3, 3))
        both = draw(st.booleans())
        L.append(" Goe_uniOH-0.5 %s %s %s" % (fmt(a), fmt(area), fmt(grams)))
        if both:
            L.append(" Goe_triO-0.5 %s" % fmt(b))
        L.append(" -capacitances %s %s" % (fmt(draw(cg.uni(0.6, 1.5, 3))), fmt(draw(cg.uni(2.0, 6.0, 3)))))
        L.append(" -cd_music")
        labels.append("surf_cd_music")
        dl = draw(st.sampled_from(["none", "none", "donnan"]))
        equil = True if dl != "none" else equil
    else:
        model = draw(st.sampled_from(["no_edl", "ddl", "ddl", "ccm", "donnan", "donnan"]))
        if balanced and draw(st.integers(0, 11)) == 0:
            model = "diffuse"          # explicit integration of the diffuse layer: slow, kept rare
        rel = draw(st.sampled_from(["", "", "", "phase", "kin"]))
        if rel == "kin" and not kin_rates:
            rel = ""
        # (surfaces tied to a kinetic reactant are generated on purpose: update_kin_surface once zeroed their charge
        # balance at every SURFACE*/KINETICS* read - fixed c81b595d, replays/C10/fixed-surface-related-to-kinetics-*)
        if model == "diffuse":
            equil, rel = True, ""
        w = draw(cg.logu(1e-5, 5e-3, 3))
        sw = draw(st.one_of(st.just(0.0), cg.logu(1e-6, 1e-4, 3)))
        area, grams = draw(st.sampled_from([600.0, 600.0, 100.0, 50.0])), draw(cg.logu(0.1, 10.0, 3))
        mob = ""
        if model == "donnan" and draw(st.integers(0, 3)) == 0 and not rel:
            mob = " Dw %s" % fmt(draw(cg.logu(1e-11, 1e-9, 2)))
            labels.append("surf_mobile_Dw")
        if rel == "phase":
            need_pp = draw(st.sampled_from(pp_names)) if pp_names else draw(st.sampled_from(P["minerals"][:4]))
            L.append(" Hfo_w %s equilibrium_phase %s %s" % (need_pp, fmt(draw(cg.logu(1e-3, 0.2, 2))), fmt(draw(cg.logu(1e2, 1e4, 2)))))
            equil = True
            labels.append("surf_related_phase")
        elif rel == "kin":
            L.append(" Hfo_w %s kinetic_reactant %s %s" % (draw(st.sampled_from(kin_rates)), fmt(draw(cg.logu(1e-3, 0.2, 2))),
                                                          fmt(draw(cg.logu(1e2, 1e4, 2)))))
            equil = True
            labels.append("surf_related_kinetics")
        elif equil:
            L.append(" Hfo_w %s %s %s%s" % (fmt(w), fmt(area), fmt(grams), mob))
            if sw > 0:
                L.append(" Hfo_s %s" % fmt(sw))
        else:
            L.append(" Hfo_wOH %s %s %s%s" % (fmt(w), fmt(area), fmt(grams), mob))
            if sw > 0:
                L.append(" Hfo_sOH %s" % fmt(sw))
        dl = "none"
        if model == "no_edl":
            L.append(" -no_edl")
            labels.append("surf_no_edl")
        elif model == "ccm":
            L.append(" -ccm %s" % fmt(draw(cg.uni(0.5, 3.0, 3))))
            labels.append("surf_ccm")
        elif model == "ddl":
            labels.append("surf_ddl")
        elif model == "donnan":
            dl = "donnan"
            labels.append("surf_ddl")
        else:
            dl = "diffuse"
            labels.append("surf_ddl")
    if dl == "donnan":
        t = " -donnan"
        k = draw(st.integers(0, 3)) if fam != "cdmusic" else draw(st.integers(0, 1))
        if k == 1:
            t += " %s" % fmt(draw(st.sampled_from([1e-8, 1e-9, 1e-7])))
        elif k == 2:
            t += " debye_lengths %s" % fmt(draw(st.sampled_from([1.0, 1.5, 2.0])))
            labels.append("surf_debye_lengths")
        if draw(st.integers(0, 2)) == 0:
            v = draw(st.sampled_from(["0.5", "2", "calc"]))
            if v == "calc":
                # known finding: 'viscosity calc' (calc_DDL_viscosity) is not part of the dump -> excluded by construction
                v = "3"
                labels.append("excluded_ddl_viscosity_calc")
            if k == 0:
                t += " 1e-8"
            t += " viscosity %s" % v
            labels.append("surf_ddl_viscosity_" + ("calc" if v == "calc" else "value"))
        if k == 2 and draw(st.booleans()):
            t += " limit %s" % fmt(draw(st.sampled_from([0.7, 0.9])))
        L.append(t)
        labels.append("surf_donnan")
        if draw(st.integers(0, 4)) == 0:
            L.append(" -only_counter_ions true")
            labels.append("surf_only_counter_ions")
    elif dl == "diffuse":
        L.append(" -diffuse_layer" + (" 1e-8" if draw(st.booleans()) else ""))
        labels.append("surf_diffuse_layer")
        if draw(st.integers(0, 4)) == 0:
            L.append(" -only_counter_ions true")
            labels.append("surf_only_counter_ions")
    if equil:
        L.insert(1, " -equilibrate %d" % eq_sol)
        labels.append("surf_equilibrate")
    else:
        labels.append("surf_explicit")
    return "\n".join(L), need_pp, labels


@st.composite
def gas(draw, prof, n, eq_sol, redox, temp):
    P = PROFILES[prof]
    pool = list(P["gas"]) + (P["gas_redox"] if redox != "inert" else [])
    names = _some(draw, pool, 1, 4)
    L = ["GAS_PHASE %d" % n]
    labels = []
    fixed = draw(st.sampled_from(["pressure", "volume"]))
    eq = False
    if fixed == "pressure":
        L += [" -fixed_pressure", " -pressure %s" % fmt(draw(cg.logu(0.5, 5.0, 3)))]
        labels.append("gas_fixed_pressure")
    else:
        L += [" -fixed_volume"]
        labels.append("gas_fixed_volume")
        if draw(st.integers(0, 3)) == 0:
            L.append(" -equilibrate %d" % eq_sol)
            eq = True
            labels.append("gas_equilibrate")
    L.append(" -volume %s" % fmt(draw(cg.logu(0.1, 10.0, 3))))
    L.append(" -temperature %s" % fmt(temp))
    got = False
    for g in names:
        p = draw(st.one_of(st.just(0.0), cg.logu(1e-4, 1.0, 3)))
        got = got or p > 0
        L.append(" %s %s" % (g, fmt(p)))
    if not got:
        L[-1] = " %s 0.1" % names[-1]
    labels.append("gas_comps=%d" % len(names))
    return "\n".join(L), names, labels


@st.composite
def ss(draw, prof, n, robust=False):
    """robust: every end-member present in a substantial amount and |a0| + |a1| <= 1.4 (no miscibility gap): the setting
    in which the follow-up of a restored solid solution is compared with the original"""
    P = PROFILES[prof]
    k = draw(st.integers(1, 2))
    sets = draw(st.lists(st.sampled_from(list(range(len(P["ss_sets"])))), min_size=k, max_size=k, unique=True))
    L = ["SOLID_SOLUTIONS %d" % n]
    labels, comps_all, used = [], [], set()
    for j, si in enumerate(sets):
        comps = [c for c in P["ss_sets"][si] if c not in used]
        if len(comps) < 2:
            continue
        nonideal = draw(st.integers(0, 2)) > 0
        if nonideal:
            comps = comps[:2]
        used.update(comps)
        L.append(" SS%d" % j)
        # two thirds of the solid solutions have every end-member present in a substantial amount (no in/out switching of
        # the solid solution, a well-defined composition); the rest may start from zero or trace amounts
        solid = robust or draw(st.integers(0, 2)) > 0
        for c in comps:
            amt = cg.logu(1e-3, 0.1, 3) if solid else st.one_of(st.just(0.0), cg.logu(1e-5, 0.1, 3))
            L.append("  -comp %s %s" % (c, fmt(draw(amt))))
        comps_all += comps
        if nonideal:
            form = draw(st.sampled_from(["Gugg_nondim", "Gugg_kJ", "Gugg_nondim", "tempk"]))
            a0 = draw(cg.uni(-1.0, 1.0, 3)) if robust else draw(cg.uni(-1.0, 1.9, 3))
            a1 = draw(st.one_of(st.just(0.0), cg.uni(-0.4, -0.05, 2), cg.uni(0.05, 0.4, 2), cg.uni(0.05, 0.4, 2)))
            if form == "Gugg_kJ":
                L.append("  -Gugg_kJ %s %s" % (fmt(float("%.4g" % (a0 * 2.479))), fmt(float("%.4g" % (a1 * 2.479)))))
            else:
                L.append("  -Gugg_nondim %s %s" % (fmt(a0), fmt(a1)))
            if form == "tempk":
                L.append("  -tempk %s" % fmt(draw(cg.uni(280.0, 330.0, 4))))
            labels.append("ss_nonideal")
            if a1 != 0.0:
                labels.append("ss_a1_nonzero")
        else:
            labels.append("ss_ideal_%d" % len(comps))
    if not comps_all:
        c = P["ss_sets"][sets[0]][:2]
        L += [" SS0", "  -comp %s 0.01" % c[0], "  -comp %s 0" % c[1]]
        comps_all = c
        labels.append("ss_ideal_2")
    return "\n".join(L), comps_all, labels


@st.composite
def kin(draw, prof, n, X=None, long_ok=True):
    nr = draw(st.sampled_from([1, 2, 2, 3]))
    rates = draw(st.lists(st.sampled_from(["r_first", "r_const", "r_ratio", "r_sum"] + ([X["rate"]] if X else [])),
                          min_size=nr, max_size=nr, unique=True))
    L = ["KINETICS %d" % n]
    labels = ["kin_comps=%d" % len(rates)]
    pool = KIN_FORMULAS_ISO if prof == "iso" else KIN_FORMULAS
    for r in rates:
        k = draw(st.integers(1, 2))
        f = [[nm, draw(st.sampled_from([1.0, 1.0, 0.5, 2.0]))] for nm in _some(draw, pool, k, k)]
        if draw(st.booleans()):
            # a -formula token of a drawn length (key of the component's -namecoef list)
            f[0][0] = X["phase"] if X and draw(st.integers(0, 3)) == 0 else draw(long_formula())
            labels.append("kin_formula_token_len=%d" % len(f[0][0]))
        m0 = draw(cg.logu(1e-4, 0.5, 3))
        m = m0 if draw(st.booleans()) else float("%.3g" % (m0 * draw(cg.uni(0.1, 1.0, 2))))
        if r == "r_first" or r.startswith("rl_"):
            parms = [draw(cg.logu(1e-9, 1e-6, 2))]
        else:
            # zero-order-like laws: the reactant must outlast the history and the follow-up (<= 4 steps of <= 1e4 s), an
            # exhausted reactant made (m/m0)^0.67 NaN and the integrators loop for > 10 min -> rate <= 2.5e-6 * m per second
            cap = float("%.2g" % (m * 2.5e-6))
            lo = cap * 1e-3
            if r == "r_const":
                parms = [draw(cg.logu(lo, cap, 2))]
            elif r == "r_ratio":
                parms = [draw(cg.logu(lo, cap / 2.0, 2)), draw(st.sampled_from([0.0, 0.5, 2.0]))]
            else:
                parms = [draw(cg.logu(lo, cap / 2.0, 2)) for _ in range(3)]
        L.append(" %s" % r)
        L.append("  -formula " + " ".join("%s %s" % (nm, fmt(c)) for nm, c in f))
        L.append("  -m0 %s" % fmt(m0))
        L.append("  -m %s" % fmt(m))
        L.append("  -parms " + " ".join(fmt(p) for p in parms))
        L.append("  -tol %s" % draw(st.sampled_from(["1e-8", "1e-7", "1e-6"])))
        if len(parms) > 1:
            labels.append("kin_parms>1")
        if len(f) > 1:
            labels.append("kin_formula>1")
    top = draw(cg.logu(1.0, 1e4, 3))
    if draw(st.booleans()):
        k = draw(list_length(12) if long_ok else st.integers(1, 3))
        L.append(" -steps " + " ".join(fmt(float("%.3g" % (top * (i + 1) / k))) for i in range(k)))
        nst = k
    else:
        nst = draw(st.integers(1, 3))
        L.append(" -steps %s in %d steps" % (fmt(top), nst))
    cv = draw(st.integers(0, 2)) == 0
    L.append(" -cvode %s" % ("true" if cv else "false"))
    labels.append("kin_cvode" if cv else "kin_rk")
    if not cv and draw(st.integers(0, 2)) == 0:
        L.append(" -runge_kutta %d" % draw(st.sampled_from([1, 2, 3, 6])))
        L.append(" -step_divide %s" % draw(st.sampled_from(["1", "10", "0.5"])))
        L.append(" -bad_step_max %d" % draw(st.sampled_from([200, 700])))
        labels.append("kin_rk_options")
    if cv and draw(st.integers(0, 2)) == 0:
        L.append(" -cvode_steps %d" % draw(st.sampled_from([50, 200])))
        L.append(" -cvode_order %d" % draw(st.sampled_from([2, 4, 5])))
        labels.append("kin_cvode_options")
    return "\n".join(L), rates, nst, labels


# ---------------------------------------------------------------------------------------------- whole cases
PROFILE_POOL = {"quick": ["phreeqc"] * 11 + ["pitzer"] * 4 + ["iso"] * 3 + ["wateq4f"] * 2,
                "thorough": ["phreeqc"] * 10 + ["pitzer"] * 4 + ["iso"] * 3 + ["wateq4f"] * 3}


@st.composite
def case_strategy(draw, tier="quick"):
    prof = draw(st.sampled_from(PROFILE_POOL.get(tier, PROFILE_POOL["quick"])))
    P = PROFILES[prof]
    if prof in ("phreeqc", "wateq4f"):
        redox = draw(st.sampled_from(["inert"] * 6 + ["o2"] * 3 + ["unpoised"] * 2))
    else:
        redox = "inert"
    labels = ["profile=" + prof, "redox=" + redox]
    ns = draw(st.integers(1, 3))
    sols = [draw(solution(prof, i + 1, redox)) for i in range(ns)]
    X = draw(long_names())
    for sl in sols:
        if draw(st.integers(0, 2)) == 0:
            # a description of drawn length 1..40 (kept in the header of the RAW block)
            sl["desc"] = draw(st.text(alphabet="abcXYZ019 _-.,()+", min_size=1, max_size=40)).strip()
    balanced = all(s["balance"] != "none" for s in sols)
    sim0 = [KNOBS] + [render_solution(s) for s in sols] + ["END"]
    sims = ["\n".join(sim0) + "\n"]
    # the cell number: mostly 10, sometimes a user number with many digits
    c = draw(st.sampled_from([10] * 8 + [4321, 987654, 1234567]))
    if c != 10:
        labels.append("cell_number_digits=%d" % len(str(c)))
    src = draw(st.integers(1, ns))
    temp0 = sols[src - 1]["temp"]
    # ---- which reactant kinds
    nk = draw(st.sampled_from([0, 1, 2, 2, 3, 3, 4, 5, 7]))
    pool = [k for k in KINDS if (k != "ss" or P["ss_sets"]) and (k != "surf" or P["surf"])]
    want = set(_some(draw, pool, nk, nk))
    defs, cols = [], []
    nsteps = 1
    kin_rates, pp_names, gas_names, ss_comps = [], [], [], []
    ss_t = None
    if "ss" in want:
        # half of the cells with a solid solution hold no pure phases, gas phase or kinetic reactants next to it and a
        # well-behaved solid solution: only there is the engine's answer independent of its starting point (see c10.py)
        ss_robust = draw(st.booleans())
        if ss_robust:
            want -= {"pp", "gas", "kin"}
        ss_t, ss_comps, ss_lb = draw(ss(prof, c, ss_robust))
    # phases an exchanger / surface may be tied to: sparingly soluble (never exhausted at 10 mol), not in a solid solution
    relp = [m for m in ("Calcite", "Gypsum", "Dolomite", "Quartz", "Barite", "Celestite") if m in P["minerals"] and m not in ss_comps]
    if "kin" in want:
        t, kin_rates, nst, lb = draw(kin(prof, c, X, not (want & {"surf", "ss", "gas", "pp"})))
        defs.append(t); labels += lb; nsteps = max(nsteps, nst)
    ex_t = su_t = None
    need = []
    if "exch" in want:
        ex_t, np_, lb = draw(exch(prof, c, src, relp, kin_rates, X))
        labels += lb
        if np_:
            need.append(np_); want.add("pp")
    if "surf" in want:
        su_t, np_, lb = draw(surf(prof, c, src, relp, kin_rates, balanced))
        labels += lb
        if np_:
            need.append(np_); want.add("pp")
    if "pp" in want:
        t, pp_names, lb = draw(pp(prof, c, redox, need, ss_comps))
        defs.append(t); labels += lb
    if ex_t:
        defs.append(ex_t)
    if su_t:
        defs.append(su_t)
    if "gas" in want:
        t, gas_names, lb = draw(gas(prof, c, src, redox, temp0))
        defs.append(t); labels += lb
    if ss_t:
        defs.append(ss_t); labels += ss_lb
    if "reaction" in want:
        t, nst, lb = draw(reaction(prof, c, X, "kin" not in want))
        defs.append(t); labels += lb; nsteps = max(nsteps, nst)
    if draw(st.integers(0, 4)) == 0:
        if draw(st.booleans()):
            k = draw(list_length() if "kin" not in want else st.integers(1, 3))
            defs.append("REACTION_TEMPERATURE %d\n %s" % (c, " ".join(fmt(draw(cg.uni(10.0, 60.0, 3))) for _ in range(k))))
        else:
            k = draw(st.integers(2, 3))
            defs.append("REACTION_TEMPERATURE %d\n %s %s in %d steps" % (c, fmt(draw(cg.uni(10.0, 30.0, 3))), fmt(draw(cg.uni(30.0, 60.0, 3))), k))
        labels.append("temperature_steps=%d" % k)
        want.add("temperature")
    if draw(st.integers(0, 4)) == 0:
        if draw(st.booleans()):
            k = draw(list_length() if "kin" not in want else st.integers(1, 3))
            defs.append("REACTION_PRESSURE %d\n %s" % (c, " ".join(fmt(draw(cg.uni(1.0, 50.0, 3))) for _ in range(k))))
        else:
            k = draw(st.integers(2, 3))
            defs.append("REACTION_PRESSURE %d\n %s %s in %d steps" % (c, fmt(draw(cg.uni(1.0, 5.0, 3))), fmt(draw(cg.uni(5.0, 50.0, 3))), k))
        labels.append("pressure_steps=%d" % k)
        want.add("pressure")
    # ---- the cell's solution: a copy or a MIX
    use_mix = ns >= 2 and draw(st.integers(0, 2)) == 0
    if use_mix:
        others = [i for i in range(1, ns + 1) if i != src]
        parts = [[src, draw(cg.uni(0.2, 1.2, 2))]] + [[o, draw(cg.uni(0.05, 1.0, 2))] for o in _some(draw, others, 1, 2)]
        defs.append("MIX %d\n" % c + "\n".join(" %d %s" % (a, fmt(f)) for a, f in parts))
        labels.append("mix_parts=%d" % len(parts))
    else:
        defs.append("COPY solution %d %d" % (src, c))
    defs += ["USE solution none", "USE mix none", "END"]
    sims.append("\n".join(defs) + "\n")
    # ---- history
    present = [k for k in KINDS if k in want]
    nh = draw(st.sampled_from([0, 1, 1, 1, 2, 2, 3]))
    hist = []
    mix_alive = use_mix
    for h in range(nh):
        mode = draw(st.sampled_from(["batch_same", "batch_new", "cells", "cells"]))
        incr = draw(st.booleans())
        L = ["INCREMENTAL_REACTIONS %s" % ("true" if incr else "false")]
        if mode == "cells":
            L.append("RUN_CELLS\n -cells %d\n -start_time 0" % c)
            if "kin" in want and draw(st.booleans()):
                L.append(" -time_step %s" % fmt(draw(cg.logu(1.0, 1e4, 2))))
            d = c
        else:
            d = c if mode == "batch_same" else c + 1
            L.append("USE %s %d" % ("mix" if mix_alive else "solution", c))
            for k in present:
                L.append("USE %s %d" % (KEYWORD[k], c))
            if "temperature" in want:
                L.append("USE reaction_temperature %d" % c)
            if "pressure" in want:
                L.append("USE reaction_pressure %d" % c)
            L.append("SAVE solution %d" % d)
            for k in present:
                if k not in ("reaction", "kin"):
                    L.append("SAVE %s %d" % (KEYWORD[k], d))
            if d != c:
                L.append("END")
                for k in ("reaction", "kin"):
                    if k in want:
                        L.append("COPY %s %d %d" % (KEYWORD[k], c, d))
                if "temperature" in want:
                    L.append("COPY reaction_temperature %d %d" % (c, d))
                if "pressure" in want:
                    L.append("COPY reaction_pressure %d %d" % (c, d))
                if mix_alive:
                    mix_alive = False       # the product solution d replaces the mixture
        L.append("END")
        if mode == "cells" and mix_alive:
            pass                            # RUN_CELLS keeps MIX c and writes solution c
        hist.append(mode + ("_incr" if incr else ""))
        sims.append("\n".join(L) + "\n")
        c = d
    labels.append("history=%d" % nh)
    for m in sorted(set(x.replace("_incr", "") for x in hist)):
        labels.append("hist_" + m)
    if draw(st.integers(0, 5)) == 0 and nh > 0:
        sims.append("COPY cell %d %d\nEND\n" % (c, c + 5))
        c += 5
        labels.append("hist_copy_cell")
    # a cell that was never reacted has no solution c when it is fed by a MIX
    has_solution = (not use_mix) or nh > 0
    # ---- follow-up
    ftype = draw(st.sampled_from(["cells", "cells", "use", "use"]))
    fincr = draw(st.booleans())
    F = [KNOBS, "INCREMENTAL_REACTIONS %s" % ("true" if fincr else "false")]
    elements = list(P["elements"])
    punch = []

    def col(h, kind, expr):
        cols.append([h, kind])
        punch.append(expr)
    col("pH", "log", '-LA("H+")')
    col("pe", "pe", '-LA("e-")')
    col("mu", "mol", "MU")
    col("tc", "lin", "TC")
    col("pressure", "gasp", "PRESSURE")
    col("water", "mol", 'TOT("water")')
    col("cb", "diff", "CHARGE_BALANCE")
    col("alk", "diff", "ALK")
    col("rho", "lin", "RHO")
    col("sc", "lin", "SC")
    col("visc", "lin", "VISCOS")
    for e in elements:
        col("t_" + e, "mol", 'TOTMOLE("%s")' % e)
    col("t_H", "mol", 'TOTMOLE("H")')
    col("t_O", "mol", 'TOTMOLE("O")')
    for sp in P["species"]:
        col("m_" + sp, "mol", 'MOL("%s")' % sp)
    for p in pp_names:
        col("eq_" + p, "mol", 'EQUI("%s")' % p)
        col("si_" + p, "log", 'SI("%s")' % p)
    for g in gas_names:
        col("g_" + g, "mol", 'GAS("%s")' % g)
    if gas_names:
        col("gas_p", "gasp", "GAS_P")
    for r in kin_rates:
        col("k_" + r, "mol", 'KIN("%s")' % r)
    for s in ss_comps:
        col("ss_" + s, "mol", 'S_S("%s")' % s)
    if "exch" in want:
        if "exch_long_element" in labels:
            col("x_long", "mol", 'MOL("Na%s")' % X["exch"])
        for sp in sorted(P["exch"]):
            col("x_" + sp, "mol", 'MOL("%s")' % sp)
    if "surf" in want:
        if "surf_cd_music" in labels:
            for sp in ("Goe_uniOH-0.5", "Goe_uniOH2+0.5", "Goe_uniOHNa+0.5", "Goe_triOH+0.5", "Goe_uniOHCa+1.5"):
                col("s_" + sp, "mol", 'MOL("%s")' % sp)
            for q in ("charge", "charge1", "charge2", "psi", "psi1", "psi2", "water", "Na", "Cl", "viscos_DDL"):
                col("edl_" + q, "visc" if q == "viscos_DDL" else "lin", 'EDL("%s", "Goe")' % q)
        else:
            for sp in ("Hfo_wOH", "Hfo_wOH2+", "Hfo_wO-", "Hfo_wOCa+", "Hfo_sOH", "Hfo_wSO4-"):
                col("s_" + sp, "mol", 'MOL("%s")' % sp)
            for q in ("charge", "sigma", "psi", "water", "Na", "Cl", "Ca", "viscos_DDL"):
                col("edl_" + q, "visc" if q == "viscos_DDL" else "lin", 'EDL("%s", "Hfo")' % q)
    F.append("SELECTED_OUTPUT 1\n -reset false\n -high_precision true")
    F.append("USER_PUNCH 1\n -headings " + " ".join(h.replace(" ", "_") for h, _ in cols) + "\n -start")
    for i in range(0, len(punch), 6):
        F.append(" %d PUNCH %s" % (10 * (i // 6 + 1), ", ".join(punch[i:i + 6])))
    F.append(" -end")
    # the same follow-up with the solution amounts scaled by 1 +- 3e-13 through a MIX written in the input language
    # (not through the dump): used by the oracle to measure the conditioning of the follow-up on the *original* state
    if mix_alive:
        pmix = "\n".join(" %d %s" % (a, fmt(f * (1.0 + (3e-13 if i % 2 == 0 else -3e-13)))) for i, (a, f) in enumerate(parts))
    else:
        pmix = " %d %s" % (c, fmt(1.0 + 3e-13))
    FP = None
    if ftype == "cells" and (has_solution or mix_alive):
        FP = ["MIX %d\n%s" % (c, pmix), "USE mix none", "USE solution none", "END"] + list(F)
        F.append("RUN_CELLS\n -cells %d\n -start_time 0\n -time_step %s" % (c, fmt(draw(cg.logu(10.0, 1e4, 2)))))
        FP.append(F[-1])
        labels.append("follow=run_cells")
    else:
        FP = list(F) + ["MIX 98\n%s" % pmix, "USE mix 98"]
        F.append("USE %s %d" % ("mix" if mix_alive else "solution", c))
        n0 = len(F)
        for k in present:
            F.append("USE %s %d" % (KEYWORD[k], c))
        if "temperature" in want:
            F.append("USE reaction_temperature %d" % c)
        if "pressure" in want:
            F.append("USE reaction_pressure %d" % c)
        if draw(st.integers(0, 2)) > 0:
            t, nst, lb = draw(reaction(prof, 99, X))
            F.append(t)
            labels.append("follow=use+new_reaction")
        else:
            labels.append("follow=use")
        FP += F[n0:]
    F.append("END")
    FP.append("END")
    return {"db": P["db"], "adds": adds_text(prof, X), "sims": sims, "follow": "\n".join(F) + "\n",
            "follow_p": "\n".join(FP) + "\n", "cols": cols, "redox": redox, "labels": labels}
