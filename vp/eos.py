"""Independent Peng-Robinson (1976) equation of state for gas mixtures - reference model of property C19.

Written from the textbook equations only (Peng & Robinson 1976, Ind. Eng. Chem. Fundam. 15, 59; the same
equations are quoted in the PHREEQC-3 documentation and in the header comment of phreeqc.dat):

    P = R T / (V - b) - a alpha(T) / (V^2 + 2 b V - b^2)
    a_i      = 0.457235 R^2 Tc_i^2 / Pc_i
    b_i      = 0.077796 R Tc_i / Pc_i
    alpha_i  = [1 + (0.37464 + 1.54226 w_i - 0.26992 w_i^2) (1 - sqrt(T / Tc_i))]^2
    a_ij     = sqrt(a_i alpha_i a_j alpha_j) (1 - k_ij)              (van der Waals one-fluid mixing)
    a_m      = sum_i sum_j x_i x_j a_ij ,    b_m = sum_i x_i b_i
    A = a_m P / (R T)^2 ,  B = b_m P / (R T) ,  Z = P V / (R T)
    Z^3 - (1 - B) Z^2 + (A - 3 B^2 - 2 B) Z - (A B - B^2 - B^3) = 0
    ln phi_i = (b_i / b_m)(Z - 1) - ln(Z - B)
               - A / (2 sqrt2 B) * (2 sum_j x_j a_ij / a_m - b_i / b_m) * ln[(Z + (1 + sqrt2) B) / (Z + (1 - sqrt2) B)]

Model constants (DESIGN.md section 4 rule 6): R = 0.0820597 L atm / (mol K) is the value the PHREEQC model is
defined with; sqrt(2) is exact here (the code under test uses rounded values, the difference is < 1e-7 in ln phi).

Nothing in this module is taken from the code under test: critical constants and binary interaction coefficients
are parsed from the *text* of the database (PHASES: -T_c/-P_c/-Omega, GAS_BINARY_PARAMETERS) and from the input.
"""
import math, re

R_LATM = 0.0820597          # L atm / (mol K), documented model constant
SQRT2 = math.sqrt(2.0)
OMEGA_A = 0.457235
OMEGA_B = 0.077796

# Water-gas interaction coefficients that are documented as built in (RELEASE.TXT, 11 Nov 2024, and the
# comment block at the end of phreeqc.dat, "kij CH4 CO2 H2S N2 / H2O 0.49 0.19 0.19 0.49").  They apply when the
# database / input has no GAS_BINARY_PARAMETERS entry for the pair.  Any other pair: k_ij = 0.
DOCUMENTED_KIJ = {
    ("H2O(g)", "CO2(g)"): 0.19, ("H2O(g)", "H2S(g)"): 0.19, ("H2O(g)", "H2Sg(g)"): 0.19,
    ("H2O(g)", "CH4(g)"): 0.49, ("H2O(g)", "Mtg(g)"): 0.49, ("H2O(g)", "Methane(g)"): 0.49,
    ("H2O(g)", "N2(g)"): 0.49, ("H2O(g)", "Ntg(g)"): 0.49, ("H2O(g)", "Ethane(g)"): 0.49,
    ("H2O(g)", "Propane(g)"): 0.55,
}


class Gas:
    __slots__ = ("name", "tc", "pc", "omega")

    def __init__(self, name, tc, pc, omega):
        self.name, self.tc, self.pc, self.omega = name, float(tc), float(pc), float(omega)

    @property
    def has_crit(self):
        return self.tc > 0 and self.pc > 0

    def a(self):
        return OMEGA_A * R_LATM ** 2 * self.tc ** 2 / self.pc

    def b(self):
        return OMEGA_B * R_LATM * self.tc / self.pc

    def alpha(self, T):
        kappa = 0.37464 + 1.54226 * self.omega - 0.26992 * self.omega ** 2
        return (1.0 + kappa * (1.0 - math.sqrt(T / self.tc))) ** 2


# ----------------------------------------------------------------------------- database text
_ALL_KEYWORDS = set("""SOLUTION_MASTER_SPECIES SOLUTION_SPECIES PHASES EXCHANGE_MASTER_SPECIES EXCHANGE_SPECIES
SURFACE_MASTER_SPECIES SURFACE_SPECIES RATES END PITZER SIT GAS_BINARY_PARAMETERS NAMED_EXPRESSIONS ISOTOPES
CALCULATE_VALUES ISOTOPE_RATIOS ISOTOPE_ALPHAS LLNL_AQUEOUS_MODEL_PARAMETERS SOLUTION GAS_PHASE EQUILIBRIUM_PHASES
SELECTED_OUTPUT USER_PUNCH KNOBS REACTION REACTION_TEMPERATURE REACTION_PRESSURE USE SAVE TITLE PRINT USER_PRINT
MEAN_GAMMAS RATE_PARAMETERS_PK RATE_PARAMETERS_SVD RATE_PARAMETERS_HERMANSKA DATABASE KINETICS MIX EXCHANGE SURFACE
SOLID_SOLUTIONS INCREMENTAL_REACTIONS USER_GRAPH TRANSPORT ADVECTION INVERSE_MODELING SOLUTION_SPREAD""".split())
_PHASE_OPTS = re.compile(r"^-?(log_k|logk|delta_h|deltah|analytic|analytical|analytical_expression|a_e|ae|vm|t_c|p_c|omega|"
                         r"no_check|check|add_logk|add_log_k|add_constant)$")


def parse_database(text):
    """-> (gases: {name: Gas}, kij: {(n1, n2): k}) from database (or input) text.
    Only what the PHASES blocks and GAS_BINARY_PARAMETERS blocks say; lines are split at ';', '#' starts a comment.
    A later definition of a phase replaces the earlier one completely (documented behaviour of PHASES)."""
    gases, kij = {}, {}
    block = None
    cur = None
    for raw in text.split("\n"):
        raw = raw.split("#", 1)[0]
        for line in raw.split(";"):
            t = line.split()
            if not t:
                continue
            if t[0].upper() in _ALL_KEYWORDS:
                block = t[0].upper()
                cur = None
                continue
            if block == "PHASES":
                w = t[0].lower()
                if _PHASE_OPTS.match(w) or w.startswith("-"):
                    key = w.lstrip("-")
                    if key in ("t_c", "p_c", "omega") and cur is not None and len(t) > 1:
                        try:
                            v = float(t[1])
                        except ValueError:
                            continue
                        setattr(gases[cur], {"t_c": "tc", "p_c": "pc", "omega": "omega"}[key], v)
                    continue
                if "=" in line:
                    continue
                cur = t[0]
                gases[cur] = Gas(cur, 0.0, 0.0, 0.0)
            elif block == "GAS_BINARY_PARAMETERS":
                if len(t) >= 3:
                    try:
                        k = float(t[2])
                    except ValueError:
                        continue
                    kij[(t[0], t[1])] = k
                    kij[(t[1], t[0])] = k
    return gases, kij


def kij_lookup(n1, n2, kij):
    """k_ij for a pair: database/input text first, documented built-in water-gas values otherwise, else 0."""
    if n1 == n2:
        return kij.get((n1, n2), 0.0)
    if (n1, n2) in kij:
        return kij[(n1, n2)]
    if (n1, n2) in DOCUMENTED_KIJ:
        return DOCUMENTED_KIJ[(n1, n2)]
    if (n2, n1) in DOCUMENTED_KIJ:
        return DOCUMENTED_KIJ[(n2, n1)]
    return 0.0


# ----------------------------------------------------------------------------- mixture
class Mixture:
    """Peng-Robinson one-fluid mixture at temperature T (K) with mole fractions x (renormalised)."""

    def __init__(self, gases, x, T, kij=None):
        kij = kij or {}
        s = float(sum(x))
        self.x = [xi / s for xi in x]
        self.g = list(gases)
        self.T = float(T)
        n = len(self.g)
        self.bi = [g.b() for g in self.g]
        aal = [g.a() * g.alpha(self.T) for g in self.g]
        self.aij = [[math.sqrt(aal[i] * aal[j]) * (1.0 - kij_lookup(self.g[i].name, self.g[j].name, kij))
                     for j in range(n)] for i in range(n)]
        self.am = math.fsum(self.x[i] * self.x[j] * self.aij[i][j] for i in range(n) for j in range(n))
        self.bm = math.fsum(self.x[i] * self.bi[i] for i in range(n))
        self.RT = R_LATM * self.T

    # pressure-explicit form
    def pressure(self, V):
        return self.RT / (V - self.bm) - self.am / (V * V + 2.0 * self.bm * V - self.bm ** 2)

    def AB(self, P):
        return self.am * P / self.RT ** 2, self.bm * P / self.RT

    def cubic_coeffs(self, P):
        """monic cubic in Z: Z^3 + c2 Z^2 + c1 Z + c0"""
        A, B = self.AB(P)
        return -(1.0 - B), A - 3.0 * B * B - 2.0 * B, -(A * B - B * B - B ** 3)

    def discriminant(self, P):
        c2, c1, c0 = self.cubic_coeffs(P)
        return 18.0 * c2 * c1 * c0 - 4.0 * c2 ** 3 * c0 + c2 * c2 * c1 * c1 - 4.0 * c1 ** 3 - 27.0 * c0 * c0

    def disc_scale(self, P):
        c2, c1, c0 = self.cubic_coeffs(P)
        return (abs(18.0 * c2 * c1 * c0) + abs(4.0 * c2 ** 3 * c0) + abs(c2 * c2 * c1 * c1) + abs(4.0 * c1 ** 3)
                + abs(27.0 * c0 * c0))

    def real_roots_Z(self, P):
        """all real roots Z > B of the cubic (numpy companion matrix + Newton polish)"""
        import numpy as np
        c2, c1, c0 = self.cubic_coeffs(P)
        A, B = self.AB(P)
        out = []
        for r in np.roots([1.0, c2, c1, c0]):
            if abs(r.imag) > 1e-7 * max(1.0, abs(r.real)):
                continue
            z = float(r.real)
            for _ in range(60):
                f = ((z + c2) * z + c1) * z + c0
                d = (3.0 * z + 2.0 * c2) * z + c1
                if d == 0:
                    break
                dz = f / d
                z -= dz
                if abs(dz) <= 1e-16 * abs(z):
                    break
            if z > B:
                out.append(z)
        return sorted(out)

    def cubic_residual(self, P, V):
        """relative residual of the Z-cubic at the reported (P, V): |f(Z)| / sum |terms|"""
        Z = P * V / self.RT
        c2, c1, c0 = self.cubic_coeffs(P)
        f = Z ** 3 + c2 * Z * Z + c1 * Z + c0
        sc = abs(Z ** 3) + abs(c2 * Z * Z) + abs(c1 * Z) + abs(c0)
        return abs(f) / sc

    def ln_phi(self, P, V):
        """ln of the fugacity coefficient of every component at (P, V) (Z = P V / R T)"""
        A, B = self.AB(P)
        Z = P * V / self.RT
        if Z <= B:
            return None
        n = len(self.g)
        out = []
        L = math.log((Z + (1.0 + SQRT2) * B) / (Z + (1.0 - SQRT2) * B))
        for i in range(n):
            s = math.fsum(self.x[j] * self.aij[i][j] for j in range(n))
            br = self.bi[i] / self.bm
            out.append(br * (Z - 1.0) - math.log(Z - B) - A / (2.0 * SQRT2 * B) * (2.0 * s / self.am - br) * L)
        return out

    def ln_phi_fluid(self, P, Z):
        """ln of the fugacity coefficient of the one-fluid mixture as a whole (pure-fluid expression with a_m, b_m);
        at equal P the root with the lower value is the stable one (equal values = Maxwell construction)"""
        A, B = self.AB(P)
        return Z - 1.0 - math.log(Z - B) - A / (2.0 * SQRT2 * B) * math.log((Z + (1.0 + SQRT2) * B) / (Z + (1.0 - SQRT2) * B))

    def region(self, V, margin=0.02):
        """Where the state (V, T, x) lies relative to the two-phase region of this cubic.
          'single'       the cubic at P(V) has one real root (supercritical, dilute gas above the loop, dense fluid)
          'vapor'        three real roots, V is the largest one and the one-fluid fugacity of the vapour root is lower
                         than that of the liquid root by more than `margin` in ln: stable vapour, outside the binodal
          'metastable'   largest root, but not stable by that margin (between binodal and spinodal, or too close to call)
          'condensed'    three real roots and V is not the largest (liquid / middle branch)
          'loop'         P(V) <= 0 (inside the spinodal) or V <= b
          'borderline'   discriminant within rounding of zero (critical region / spinodal point)
        Only 'single' and 'vapor' are outside the two-phase region for certain."""
        if V <= self.bm * (1.0 + 1e-12):
            return "loop"
        P = self.pressure(V)
        if not (P > 0.0):
            return "loop"
        d, sc = self.discriminant(P), self.disc_scale(P)
        if d < -1e-9 * sc:
            return "single"
        if d <= 1e-9 * sc:
            return "borderline"
        A, B = self.AB(P)
        z = self.real_roots_Z(P)
        Z = P * V / self.RT
        if len(z) < 2:
            # the other real roots lie below B (non-physical): only one admissible volume at this pressure
            return "single" if z and abs(z[-1] - Z) <= 1e-6 * Z else "borderline"
        if abs(z[-1] - Z) > 1e-6 * Z:
            return "condensed"
        if self.ln_phi_fluid(P, z[0]) - self.ln_phi_fluid(P, z[-1]) > margin:
            return "vapor"
        return "metastable"

    def has_vdw_loop(self):
        """True when the isotherm P(V) is not monotonic (some pressures have three volume roots)"""
        # dP/dV = -RT/(V-b)^2 + 2 a (V+b) / (V^2+2bV-b^2)^2 ; scan V on a log grid above b
        b = self.bm
        v = b * 1.0005
        while v < 400.0 * b:
            q = v * v + 2 * b * v - b * b
            if -self.RT / (v - b) ** 2 + 2.0 * self.am * (v + b) / (q * q) > 0:
                return True
            v *= 1.01
        return False
