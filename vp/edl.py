"""Electrostatic double-layer relations of surface-complexation models, written from the textbook equations
(Dzombak & Morel 1990; Stumm & Morgan; Hiemstra & Van Riemsdijk 1996; the PHREEQC manuals' statement of them).
No code, constant or number is taken from /repo at run time: the model constants are pinned to the documented model values
(DESIGN.md section 4 rule 6).

Units: potentials in V, charge densities in C/m2, capacitances in F/m2, temperatures in K, concentrations in mol/kgw
(taken as mol/L, the convention of the documented model), amounts in mol, areas in m2.
"""
import math

F = 96493.5             # C/mol       (documented model value)
R = 8.31470             # J/(mol K)
EPS0 = 8.854e-12        # C^2/(J m)
LN10 = math.log(10.0)
N_A = 6.02252e23        # 1/mol: the Avogadro number the documented model converts sites/nm2 with


# ------------------------------------------------------------------------------- mass-action terms (log10 units)
def potential_term(dz, psi, TK):
    """log10 of the coulombic factor exp(-dz F psi / R T) of a reaction that changes the surface charge by dz
    (two-layer / constant-capacitance model: the whole charge sits in the surface plane)"""
    return -dz * F * psi / (R * TK * LN10)


def cd_music_term(dz, psi, TK):
    """log10 of exp(-(dz0 psi0 + dz1 psi1 + dz2 psi2) F / R T): three-plane charge distribution"""
    return -(dz[0] * psi[0] + dz[1] * psi[1] + dz[2] * psi[2]) * F / (R * TK * LN10)


def cd_music_dz(numbers):
    """the five numbers of `-cd_music` -> (dz0, dz1, dz2).
    n1, n2, n3: change of charge of planes 0, 1, 2 by H and O; n4: fraction of the central-ion charge n5 given to plane 0,
    the remainder (1 - n4) n5 goes to plane 1.  With n4 = n5 = 0 the first three numbers are the plane charges themselves."""
    n = list(numbers) + [0.0] * (5 - len(numbers))
    return (n[0] + n[3] * n[4], n[1] + (1.0 - n[3]) * n[4], n[2])


# ------------------------------------------------------------------------------- charge-potential relations
def sigma_from_species(charge_eq, area_m2):
    """surface charge density from the sum of z*n of the surface species (eq) on a surface of area_m2"""
    return F * charge_eq / area_m2


def gouy_chapman_sigma(psi, ionic_strength, eps_r, TK):
    """Gouy-Chapman, symmetric (1:1) electrolyte form used by the generalized two-layer model:
    sigma = sqrt(8 eps eps0 R T * 1000 I) sinh(F psi / 2 R T);  (= 0.1174 sqrt(I) sinh(...) at 25 C, eps_r = 78.5)"""
    return math.sqrt(8000.0 * eps_r * EPS0 * R * TK * ionic_strength) * math.sinh(F * psi / (2.0 * R * TK))


def grahame_sigma(psi, ions, eps_r, TK):
    """Grahame equation for a mixed electrolyte: the charge density a flat plate at potential psi carries against the
    electrolyte `ions` = [(z, mol/L), ...]:
    sigma = sign(psi) sqrt(2 eps eps0 R T * 1000 * sum_i c_i (exp(-z_i F psi / R T) - 1))"""
    y = F * psi / (R * TK)
    s = 0.0
    for z, c in ions:
        if z != 0.0 and c > 0.0:
            s += c * math.expm1(-z * y)
    if s < 0.0:
        # (only possible for an electrolyte that is not electroneutral)
        return float("nan")
    v = math.sqrt(2000.0 * eps_r * EPS0 * R * TK * s)
    return v if psi >= 0 else -v


def grahame_rounding_floor(ions, eps_r, TK, ulps=16.0):
    """Near-zero handling for the Grahame charge: formed in double precision as sum c_i (exp(-z_i y) - 1), the sum carries an absolute
    rounding error of a few ulp of sum c_i (the terms linear in y cancel between cations and anions), i.e. the charge cannot be
    resolved below sqrt(2000 eps eps0 R T * ulps * 2.2e-16 * sum c_i)  (about 1e-9 .. 4e-9 C/m2 for 0.1 .. 1 molal)."""
    tot = sum(c for z, c in ions if z != 0.0 and c > 0.0)
    return math.sqrt(2000.0 * eps_r * EPS0 * R * TK * ulps * 2.220446049250313e-16 * tot)


def ccm_sigma(capacitance, psi):
    return capacitance * psi


def cd_music_plane_relations(sig0, sig1, sig2, psi, c1, c2):
    """three-plane (basic Stern + CD) condenser relations -> the two residuals that must vanish (C/m2):
       sigma0 = C1 (psi0 - psi1);  sigma0 + sigma1 = C2 (psi1 - psi2)
    (the third one, sigma0 + sigma1 + sigma2 = -sigma_d(psi2), closes with the diffuse layer: grahame_sigma)"""
    return (sig0 - c1 * (psi[0] - psi[1]), (sig0 + sig1) - c2 * (psi[1] - psi[2]))


def debye_length(ionic_strength, eps_r, TK):
    """1/kappa in m for a 1:1 electrolyte of ionic strength I (mol/L)"""
    return math.sqrt(eps_r * EPS0 * R * TK / (2000.0 * F * F * ionic_strength))


def sites_from_density(sites_per_nm2, area_m2):
    return sites_per_nm2 * 1e18 * area_m2 / N_A
