"""Engine-side worker of the C17 check: runs PHREEQC inputs in a process of its own, so that a crash, an abort or an
endless BASIC loop of the code under test ends this helper and not the check (the parent kills it on a time-out).

  python3-vt -m vp.c17_helper <scratch dir>
  stdin : one JSON object per line  {"input": text, "output": bool}
  stdout: one JSON object per line  {"rc", "errors", "warnings", "tables": {user number: cells}, "output"}
"""
import sys, os, json

MINI_DB = """SOLUTION_MASTER_SPECIES
H           H+      -1  H               1.008
H(0)        H2      0   H
H(1)        H+      -1  0
E           e-      0   0               0
O           H2O     0   O               16
O(0)        O2      0   O
O(-2)       H2O     0   0
Na          Na+     0   Na              22.9898
SOLUTION_SPECIES
H+ = H+
	-gamma 9 0
e- = e-
H2O = H2O
Na+ = Na+
	-gamma 4.08 0.082
H2O = OH- + H+
	-log_k -14
	-gamma 3.5 0
2 H2O = O2 + 4 H+ + 4 e-
	-log_k -86.08
2 H+ + 2 e- = H2
	-log_k -3.15
PHASES
H2O(g)
	H2O = H2O
	-log_k 1.51
END
"""


def main():
    from vp import lib
    os.chdir(sys.argv[1])
    out = sys.stdout
    for line in sys.stdin:
        line = line.strip()
        if not line:
            continue
        req = json.loads(line)
        I = lib.Inst()
        res = {}
        try:
            if I.load_db_string(MINI_DB) != 0:
                res = {"harness": "database does not load: " + I.errors()[:500]}
            else:
                if req.get("output"):
                    I.seti("SetOutputStringOn", 1)
                rc = I.run_string(req["input"])
                res = {"rc": rc, "errors": I.errors(), "warnings": I.warnings()[:2000], "tables": {}}
                for n in I.user_numbers():
                    res["tables"][str(n)] = I.table(n).cells
                if req.get("output"):
                    res["output"] = I.output()
        finally:
            I.close()
        out.write(json.dumps(res) + "\n")
        out.flush()


if __name__ == "__main__":
    main()
