"""Fixed texts of the C07 check: database pool, shipped-example pool, failing calls and the follow-up probe battery.

Every probe is written so that its results depend on one group of members that `Phreeqc::init`
(src/phreeqcpp/Phreeqc.cpp) or `IPhreeqc::UnLoadDatabase` re-initialises: the probe never sets the
option itself, so a value left over from before the load shows up as a difference against a brand-new
instance.  Probes use Na/Cl/Ca/K/Mg/C/S so that they compute on every shipped database family; where a
database lacks something the run fails identically in both instances (still compared, not counted as
"computing").
"""
import os, re
from . import lib

EXDIR = os.path.join(lib.REPO, "phreeqc3-examples")
GTEST = os.path.join(lib.REPO, "gtest")

# name -> (path, family)
DBS = {
    "phreeqc.dat": "std", "wateq4f.dat": "std", "Amm.dat": "std", "phreeqc_rates.dat": "std", "minteq.v4.dat": "std",
    "minteq.dat": "std", "Tipping_Hurley.dat": "std", "iso.dat": "iso", "pitzer.dat": "pitzer", "frezchem.dat": "pitzer",
    "ColdChem.dat": "pitzer", "sit.dat": "sit", "llnl.dat": "llnl", "core10.dat": "llnl", "Kinec_v3.dat": "llnl",
    "ex15.dat": "mini", "small.dat": "mini", "minimum.dat": "mini", "phreeqc.dat.old": "std",
}


def db_path(name):
    if name == "ex15.dat":
        return os.path.join(EXDIR, name)
    if name == "small.dat":
        return os.path.join(lib.VERIF, "corpus", name)
    if name == "phreeqc.dat.old":
        return os.path.join(GTEST, name)
    return os.path.join(lib.DBDIR, name)


_dbtext = {}


def db_text(name):
    if name not in _dbtext:
        _dbtext[name] = open(db_path(name), encoding="latin-1").read()
    return _dbtext[name]


# ---- shipped examples ------------------------------------------------------------------------------
EXAMPLES = ["ex1", "ex2", "ex2b", "ex3", "ex4", "ex5", "ex6", "ex7", "ex8", "ex9", "ex10", "ex11", "ex12", "ex12a",
            "ex12b", "ex13a", "ex13b", "ex13c", "ex13ac", "ex14", "ex15", "ex15a", "ex15b", "ex16", "ex17", "ex17b",
            "ex18", "ex19", "ex19b", "ex20a", "ex20b", "ex21", "ex22"]
_extext = {}


def example_text(name):
    """text of a shipped example; INCLUDE$ of a shipped file is expanded in place (the examples expect to
    be run inside their directory, which the check must not write to)"""
    if name in _extext:
        return _extext[name]
    t = open(os.path.join(EXDIR, name), encoding="latin-1").read()

    def inc(m):
        p = os.path.join(EXDIR, m.group(1).strip())
        return open(p, encoding="latin-1").read() if os.path.exists(p) else m.group(0)
    t = re.sub(r"(?m)^INCLUDE\$\s*(\S+)\s*$", inc, t)
    _extext[name] = t
    return t


def pool_text(src):
    """src: 'ex:<name>' | 'gtest:<file>'"""
    kind, name = src.split(":", 1)
    if kind == "ex":
        return example_text(name)
    if kind == "gtest":
        return open(os.path.join(GTEST, name), encoding="latin-1").read()
    raise KeyError(src)


# ---- failing calls (the simulation that fails; generated text may precede it) -----------------------------
# kind: input (rejected while reading / tidying), abort (error_msg(STOP) in the middle of a calculation),
#       conv (numerical method fails after all parameter sets were tried)
FAIL_SIMS = {
    "nophase": ("input", "SOLUTION 1\n Na 1\n Cl 1\nEQUILIBRIUM_PHASES 1\n Nosuchphase 0 1\nEND\n"),
    "nomix": ("input", "SOLUTION 1\n Na 1\n Cl 1\nEND\nMIX 1\n 1 1\n 77 1\nEND\n"),
    "badopt": ("input", "SOLUTION 1\n Na 1\n Cl 1\n -nosuchoption 3\nEND\n"),
    "badelt": ("input", "SOLUTION 1\n Na 1\n Cl 1\nREACTION 1\n Zzq 1\n 1 mmol\nEND\n"),
    "negconc": ("abort", "SOLUTION 1\n Na 1\n Cl 1\nREACTION 1\n NaCl 1\n -10 moles\nEND\n"),
    "nosave": ("abort", "SOLUTION 1\n Na 1\n Cl 1\nKINETICS 1\nZfoo\n -formula NaCl 1\n -steps 10 in 2\nRATES\nZfoo\n-start\n10 x = 1\n-end\nEND\n"),
    "basic_subscript": ("abort", "SOLUTION 1\n Na 1\n Cl 1\nSELECTED_OUTPUT 1\n -totals Na\nUSER_PUNCH 1\n-headings a\n10 DIM a(2)\n20 a(5) = 1\n30 PUNCH 1\nEND\n"),
    "basic_in_step": ("abort", "SOLUTION 1\n Na 1\n Cl 1\nREACTION 1\n NaCl 1\n 1 2 3 mmol\nSELECTED_OUTPUT 1\n -totals Na\nUSER_PUNCH 1\n-headings a\n10 DIM a(2)\n20 IF STEP_NO >= 2 THEN a(5) = 1\n30 PUNCH STEP_NO\nEND\n"),
    "iter1": ("conv", "SOLUTION 1\n Na 1\n Cl 1\nKNOBS\n -iterations 1\nEQUILIBRIUM_PHASES 1\n Calcite 0 1\n Gypsum 0 1\nEND\n"),
    "hugereact": ("conv", "SOLUTION 1\n Na 1\n Cl 1\nREACTION 1\n NaCl 1\n 1e5 moles\nEND\n"),
    "conv_fail": ("conv", None),  # gtest/conv_fail.in
}

# ---- the probe battery --------------------------------------------------------------------------------
SOL_BASE = " temp 25\n pH 7.2\n Na 12\n K 1.5\n Ca 2.5\n Mg 1\n Cl 15 charge\n S(6) 2\n C(4) 3\n"
SOL_ALT = " temp 25\n pH 6.1\n Na 40\n K 0.2\n Ca 0.4\n Mg 3\n Cl 44 charge\n S(6) 1\n C(4) 0.7\n"

PROBES = {
    # PRINT defaults, echo, headings, iteration counts, debug switches, leftover TITLE / USER_PRINT / entities
    "plain": "SOLUTION 1\n" + SOL_BASE + "END\n",
    # solver parameters (itmax, step sizes, tolerances, scaling, censor, numerical derivatives ...) through the
    # iteration trace that KNOBS -logfile writes to the log string, and through the last digits of the results
    "solver_trace": ("KNOBS\n -logfile true\nSOLUTION 1\n" + SOL_BASE + " Fe 0.3\n Mn 0.05\n N(5) 0.2\n pe 3\n"
                     "EQUILIBRIUM_PHASES 1\n Calcite 0 1\n Gypsum 0 0\n CO2(g) -2.0 10\nREACTION 1\n CH2O 1\n 0.2 0.5 1.5 mmol\n"
                     "SELECTED_OUTPUT 1\n -totals Na Ca C(4) S(6)\n -molalities H+ HCO3- CaSO4\n -equilibrium_phases Calcite Gypsum\n"
                     "USER_PUNCH 1\n-headings mu ah2o cb\n10 PUNCH MU, ACT(\"H2O\"), CHARGE_BALANCE\nEND\n"),
    # selected-output defaults of user numbers 1 and 2, -high_precision default, USER_PUNCH heading/value mismatch warning
    "selout_defaults": ("SOLUTION 1\n" + SOL_BASE + "REACTION 1\n NaCl 1\n 1 mmol in 2 steps\nSELECTED_OUTPUT 1\n -totals Na Cl\n"
                        "USER_PUNCH 1\n-headings one two\n10 PUNCH 1/3, TOT(\"Na\"), TOT(\"Cl\") * 3\n"
                        "SELECTED_OUTPUT 2\n -molalities Na+ Cl-\nEND\n"),
    # BASIC memory: PUT/GET store, uninitialised variables, TOTAL_TIME / SIM_TIME, counters
    "basic_memory": ("SOLUTION 1\n" + SOL_ALT + "SELECTED_OUTPUT 1\n -reset false\nUSER_PUNCH 1\n"
                     "-headings g1 g23 g5 ex1 ex5 un uns tt st sn stp cn\n"
                     "10 PUNCH GET(1), GET(2,3), GET(5), EXISTS(1), EXISTS(5), zqun, zquns$, TOTAL_TIME, SIM_TIME, SIM_NO, STEP_NO, CELL_NO\n"
                     "20 zqun = zqun + 1\n30 zquns$ = zquns$ + \"x\"\n40 PUT(GET(5) + 1, 5)\n"
                     "USER_PRINT\n10 PRINT \"probe\", GET(1), zqun2, GET(5)\n20 zqun2 = zqun2 + 2\nEND\nUSE solution 1\nREACTION 1\n KCl 1\n 1 mmol\nEND\n"),
    # definitions that only an earlier run could have made (must fail identically unless they survived)
    "leftover_rate": "SOLUTION 1\n" + SOL_ALT + "KINETICS 1\nKrxn\n -formula NaCl 1\n -m0 1\n -steps 100 in 2\nEND\n",
    "leftover_calc": ("SOLUTION 1\n" + SOL_ALT + "SELECTED_OUTPUT 1\n -reset false\nUSER_PUNCH 1\n-headings cv\n"
                      "10 PUNCH CALC_VALUE(\"cv_hist\")\nEND\n"),
    "leftover_use": ("USE solution 1\nUSE equilibrium_phases 1\nUSE exchange 1\nUSE surface 1\nUSE gas_phase 1\nUSE reaction 1\n"
                     "USE mix 1\nUSE kinetics 1\nUSE solid_solutions 1\nUSE reaction_temperature 1\nUSE reaction_pressure 1\n"
                     "SELECTED_OUTPUT 1\n -totals Na Cl Ca\nEND\n"),
    "leftover_cells": "RUN_CELLS\n -cells 0-8\nEND\n",
    "leftover_species": "SOLUTION 1\n pH 7\n Na 1\n Cl 1\n Xq 0.5\nEQUILIBRIUM_PHASES 1\n XqCl_s 0 0\nEND\n",
    # every entity that exists
    "dump_all": "SOLUTION 1\n" + SOL_ALT + "DUMP\n -all\nEND\n",
    # transport parameters: only what is unavoidable is given, everything else must come from the defaults
    "transport_min": ("SOLUTION 0\n" + SOL_ALT + "SOLUTION 1-3\n" + SOL_BASE + "SELECTED_OUTPUT 1\n -totals Na Cl K Ca\n"
                      "USER_PUNCH 1\n-headings tt cell dist\n10 PUNCH TOTAL_TIME, CELL_NO, DIST\n"
                      "TRANSPORT\n -cells 3\n -shifts 4\n -time_step 3600\nEND\n"),
    "transport_bare": ("SOLUTION 0\n" + SOL_ALT + "SOLUTION 1-2\n" + SOL_BASE + "SELECTED_OUTPUT 1\n -totals Na Cl K\n"
                       "TRANSPORT\n -shifts 2\nEND\n"),
    "transport_diff": ("SOLUTION 0\n" + SOL_ALT + "SOLUTION 1-4\n" + SOL_BASE + "EXCHANGE 1-4\n X 0.01\n -equilibrate 1\n"
                       "SELECTED_OUTPUT 1\n -totals Na Cl K\n -molalities NaX KX\n"
                       "TRANSPORT\n -cells 4\n -shifts 3\n -time_step 86400\n -flow_direction diffusion_only\n -lengths 0.01\nEND\n"),
    # the restart file that TRANSPORT -dump writes lists the transport members (and consults the PRINT -high_precision flag)
    "transport_dumpfile": ("SOLUTION 0\n" + SOL_ALT + "SOLUTION 1-2\n" + SOL_BASE +
                           "TRANSPORT\n -cells 2\n -shifts 2\n -dump c07_probe.dmp\n -dump_frequency 1\nEND\n"),
    "advection_min": ("SOLUTION 0\n" + SOL_ALT + "SOLUTION 1-2\n" + SOL_BASE + "SELECTED_OUTPUT 1\n -totals Na Cl K\n"
                      "USER_PUNCH 1\n-headings tt\n10 PUNCH TOTAL_TIME\nADVECTION\n -cells 2\n -shifts 3\nEND\n"),
    "advection_bare": ("SOLUTION 0\n" + SOL_ALT + "SOLUTION 1-2\n" + SOL_BASE + "SELECTED_OUTPUT 1\n -totals Na Cl K\n"
                       "ADVECTION\n -shifts 2\nEND\n"),
    # kinetics: integrator settings, rate_* members, TOTAL_TIME accumulation over two simulations, incremental flag
    "kinetics": ("RATES\nZq_first\n-start\n10 SAVE 1e-6 * M * TIME\n-end\nSOLUTION 1\n" + SOL_ALT +
                 "KINETICS 1\nZq_first\n -formula NaCl 1\n -m0 1\n -steps 100 200 300\n"
                 "SELECTED_OUTPUT 1\n -totals Na\n -kinetic_reactants Zq_first\nUSER_PUNCH 1\n-headings tt st m\n"
                 "10 PUNCH TOTAL_TIME, SIM_TIME, KIN(\"Zq_first\")\nSAVE solution 1\nEND\n"
                 "USE solution 1\nUSE kinetics 1\nEND\n"),
    # explicit step lists: cumulative vs incremental
    "reaction_steps": ("SOLUTION 1\n" + SOL_ALT + "REACTION 1\n NaCl 1\n 1 2 4 mmol\nREACTION_TEMPERATURE 1\n 25 35 45\n"
                       "SELECTED_OUTPUT 1\n -totals Na Cl\n -temperature true\nEND\n"),
    # exchange, surface with diffuse layer (G_TOL, g_iterations, dl_type), Donnan
    "surface_dl": ("SOLUTION 1\n" + SOL_ALT + "SURFACE 1\n Hfo_w 1e-3 600 1\n Hfo_s 2e-5\n -equilibrate 1\n -diffuse_layer 1e-8\n"
                   "EXCHANGE 1\n X 0.02\n -equilibrate 1\nSELECTED_OUTPUT 1\n -totals Na Ca\n -molalities Hfo_wOH CaX2 NaX\n"
                   "USER_PUNCH 1\n-headings psi chg\n10 PUNCH EDL(\"psi\", \"Hfo\"), EDL(\"charge\", \"Hfo\")\nEND\n"
                   "USE solution 1\nSURFACE 2\n Hfo_w 1e-3 600 1\n -equilibrate 1\n -donnan 1e-8\nEND\n"),
    # gas phases and solid solutions (gas_in, numerical fixed volume switches)
    "gas_ss": ("SOLUTION 1\n" + SOL_BASE + "GAS_PHASE 1\n -fixed_volume\n -volume 1\n CO2(g) 0.01\n H2O(g) 0.02\n"
               "SELECTED_OUTPUT 1\n -totals C(4)\n -gases CO2(g) H2O(g)\nEND\n"
               "USE solution 1\nGAS_PHASE 2\n -fixed_pressure\n -pressure 1.2\n CO2(g) 0.1\n"
               "SOLID_SOLUTIONS 1\n CaMgCO3\n -comp Calcite 0.01\n -comp Strontianite 0.001\nEND\n"),
    # inverse modelling work space
    "inverse": ("SOLUTION 1\n pH 7 charge\n Na 1\n Cl 1\nSOLUTION 2\n pH 7 charge\n Na 2\n Cl 2\nINVERSE_MODELING 1\n -solutions 1 2\n -uncertainty 0.1\n"
                " -phases\n  Halite\n -balances\n  Na 0.1\n  Cl 0.1\nPHASES\nHalite\n NaCl = Na+ + Cl-\n log_k 1.582\nEND\n"),
    # activity model switches: concentrated brine (Pitzer / SIT / LLNL b-dot / Davies depending on the database)
    "brine": ("SOLUTION 1\n temp 25\n pH 7.5\n Na 3000\n K 100\n Mg 200\n Ca 50\n Cl 3600 charge\n S(6) 100\n C(4) 2\n"
              "EQUILIBRIUM_PHASES 1\n Halite 0 0\n Gypsum 0 0\nSELECTED_OUTPUT 1\n -totals Na Cl Ca\n -activities Na+ Cl- H2O\n"
              " -saturation_indices Halite Gypsum Calcite\nUSER_PUNCH 1\n-headings mu osm rho\n10 PUNCH MU, OSMOTIC, RHO\nEND\n"),
    # temperature / pressure caches
    "temp_press": ("SOLUTION 1\n temp 60\n pressure 150\n pH 7\n Na 100\n Cl 100\n Ca 5\n C(4) 2\nEQUILIBRIUM_PHASES 1\n Calcite 0 1\n"
                   "REACTION_TEMPERATURE 1\n 60 25 in 2 steps\nREACTION_PRESSURE 1\n 150 1 in 2 steps\n"
                   "SELECTED_OUTPUT 1\n -totals Ca C(4)\n -saturation_indices Calcite CO2(g)\n -temperature true\nEND\n"
                   "SOLUTION 2\n temp 25\n pH 7\n Na 100\n Cl 100\n Ca 5\n C(4) 2\nEND\n"),
    # warnings (limit and counter)
    "warnings": ("SOLUTION 1\n pH 7\n Na 1\n Cl 1\n Zz1 1\n Zz2 1\n Zz3 1\nSOLUTION 2\n pH 7\n Na 1\n Zz4 1\nSOLUTION 3\n pH 7 charge\n Na 1\n Cl 2\n"
                 "SELECTED_OUTPUT 1\n -totals Na\nUSER_PUNCH 1\n10 PUNCH 1, 2\nEND\n"),
    # isotopes (computes on iso.dat only)
    "isotopes": ("SOLUTION 1\n pH 8.2\n Na 1\n Cl 1\n Ca 1\n C(4) 2\n [13C] -7 # permil\n [18O] -4\n D -30\n"
                 "EQUILIBRIUM_PHASES 1\n Calcite 0 0\nSELECTED_OUTPUT 1\n -totals Ca C(4)\n"
                 "USER_PUNCH 1\n-headings r13 r18\n10 PUNCH CALC_VALUE(\"R(13C)\"), CALC_VALUE(\"R(18O)\")\nEND\n"),
    "isotope_option": "SOLUTION 1\n pH 7\n Na 1\n Cl 1\n C(4) 2\n -isotope 13C -12 1\n -isotope 34S 5 1\n S(6) 1\nEND\n",
    # host callback: CALLBACK(x1, x2, "str") gives 0 unless a host function is registered with SetBasicCallback (not a survivor)
    "callback": ("SOLUTION 1\n" + SOL_ALT + "REACTION 1\n NaCl 1\n 1 2 mmol\nSELECTED_OUTPUT 1\n -reset false\nUSER_PUNCH 1\n-headings cb1 cb2\n"
                 "10 PUNCH CALLBACK(1, 2, \"abc\"), CALLBACK(STEP_NO, 0.5, \"history\")\n"
                 "USER_PRINT\n10 PRINT \"callback\", CALLBACK(3, 4, \"print\")\nEND\n"),
    # mixing, copying, saving
    "mix_copy": ("SOLUTION 1\n" + SOL_BASE + "SOLUTION 2\n" + SOL_ALT + "END\nMIX 1\n 1 0.25\n 2 0.75\nSAVE solution 3\n"
                 "SELECTED_OUTPUT 1\n -totals Na Cl\nEND\nCOPY solution 3 4-5\nEND\nRUN_CELLS\n -cells 3-5\nEND\n"),
}
PROBE_NAMES = sorted(PROBES)

# which probes look at what a history item of a given tag may leave behind (used to bias, never to restrict)
RELATED = {
    "knobs": ["solver_trace", "plain", "surface_dl", "gas_ss"], "print": ["plain", "selout_defaults", "warnings", "transport_dumpfile"],
    "selout": ["selout_defaults", "plain", "leftover_use", "basic_memory"], "basic": ["basic_memory", "leftover_calc", "leftover_rate", "kinetics"],
    "transport": ["transport_min", "transport_bare", "transport_diff", "transport_dumpfile", "transport_bare", "transport_min", "advection_min"],
    "advection": ["advection_min", "advection_bare", "transport_bare"], "incr": ["reaction_steps", "kinetics", "solver_trace"],
    "kinetics": ["kinetics", "leftover_rate", "basic_memory"], "model": ["brine", "plain", "temp_press"],
    "isotopes": ["isotopes", "isotope_option", "plain"], "entities": ["leftover_use", "leftover_cells", "dump_all", "mix_copy"],
    "species": ["leftover_species", "plain"], "surface": ["surface_dl"], "gas": ["gas_ss"], "inverse": ["inverse"],
    "callback": ["callback", "callback", "basic_memory"],
    "sinks": ["dump_all", "plain", "selout_defaults", "solver_trace"],
    "fail": ["solver_trace", "plain", "leftover_cells", "dump_all", "mix_copy"], "temp": ["temp_press", "plain"],
}
