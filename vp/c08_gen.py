"""C08 engine B: grammar-level generator (Hypothesis) of structurally plausible but wrong PHREEQC input, and
engine C: the enumerated fault sequences.  Cases are op lists for shim/apirunner.cpp:
    {"kind": "api", "ops": [[name, arg, payload], ...], "meta": {...}}
Payloads are str with code points 0..255 (latin-1 <-> bytes); "@S@" stands for the runner's scratch directory.
"""
import re
from hypothesis import strategies as st
from . import c08_seeds as S

# ------------------------------------------------------------------------------------------------ pools
ELEMENTS = ["Ca", "Na", "Cl", "C", "C(4)", "C(-4)", "S", "S(6)", "S(-2)", "Fe", "Fe(2)", "Fe(3)", "H", "O", "O(0)", "H(0)", "Alkalinity", "E"]
SPECIES = ["Ca+2", "Na+", "Cl-", "CO3-2", "HCO3-", "SO4-2", "Fe+2", "Fe+3", "H+", "OH-", "H2O", "e-", "CaCO3", "CO2", "O2", "CaX2", "NaX", "X-",
           "Hfo_wOH", "Hfo_sOH", "Hfo_wOH2+", "Hfo_w", "Hfo_s", "X", "Hfo"]
PHASES = ["Calcite", "Siderite", "Gypsum", "Goethite", "Fe(OH)3(a)", "Pyrite", "Sulfur", "Halite", "CO2(g)", "O2(g)", "H2(g)", "CH4(g)"]
UNKNOWN = ["Xx", "Nosuch", "Zz+3", "Hfo_q", "Unobtainium", "Q(9)", "Ca+3", "H3O+", "(", ")", "Ca(", "[13C]", "a" * 70, "Calcite(g)", "X-2", "e", "+", "-",
           "Fe(5)", "CaCO3:", ":2H2O", "Ca2+", "\"Ca\"", "'x'", "%", "\\", "Ca,Na", "1Ca", "_", "$"]
NORMAL_NUM = ["0", "1", "2", "3", "0.5", "7", "1e-3", "25", "100", "0.01", "1.5", "10", "-2", "1e-6", "5"]
EXTREME_NUM = ["1e308", "-1e308", "1e-308", "nan", "inf", "-inf", "1e999", "-1", "0", "-0", "1e30", "-1e30", "1e-320", "0x10", "1d5", "1e", "1.2.3", "--1",
               "1e+", ".", "1,5", "9" * 25, "0." + "0" * 40 + "1"]
EXTREME_INT = ["2147483647", "2147483648", "-2147483648", "-2147483649", "4294967296", "99999999999999999999"]
COUNT_NUM = ["0", "-1", "2.5", "1e-5", "31", "abc", "-0", "1e1", "3-1", "1-", "-3--1", "1 1 1", ""]
WORDS = S.UNITS + ["pH", "pe", "temp", "water", "redox", "units", "density", "solution", "equilibrium_phases", "exchange", "surface", "gas_phase",
                   "kinetics", "reaction", "mix", "cell", "all", "TRUE", "False", "T", "F", "yes", "no"]
COUNT_LINE = re.compile(r"cells|shift|steps?\b|count|iter|stag|punch_|print_|\bin\b|cvode|bad_step|range|time|freq|\d-\d|RUN_CELLS|COPY|DELETE|SAVE|DUMP|divide|runge|rk\b", re.I)
KEYWORDS = ["SOLUTION", "SOLUTION_SPREAD", "EQUILIBRIUM_PHASES", "EXCHANGE", "SURFACE", "GAS_PHASE", "SOLID_SOLUTIONS", "KINETICS", "RATES", "REACTION",
            "REACTION_TEMPERATURE", "REACTION_PRESSURE", "MIX", "USE", "SAVE", "COPY", "DELETE", "DUMP", "RUN_CELLS", "TRANSPORT", "ADVECTION",
            "INVERSE_MODELING", "USER_PRINT", "USER_PUNCH", "SELECTED_OUTPUT", "PRINT", "KNOBS", "TITLE", "INCREMENTAL_REACTIONS", "CALCULATE_VALUES",
            "NAMED_EXPRESSIONS", "ISOTOPES", "ISOTOPE_RATIOS", "ISOTOPE_ALPHAS", "SOLUTION_MASTER_SPECIES", "SOLUTION_SPECIES", "PHASES",
            "EXCHANGE_MASTER_SPECIES", "EXCHANGE_SPECIES", "SURFACE_MASTER_SPECIES", "SURFACE_SPECIES", "PITZER", "SIT", "LLNL_AQUEOUS_MODEL_PARAMETERS",
            "SOLUTION_RAW", "EQUILIBRIUM_PHASES_RAW", "EXCHANGE_RAW", "SURFACE_RAW", "GAS_PHASE_RAW", "SOLID_SOLUTIONS_RAW", "KINETICS_RAW", "MIX_RAW",
            "REACTION_RAW", "REACTION_TEMPERATURE_RAW", "REACTION_PRESSURE_RAW", "SOLUTION_MODIFY", "EQUILIBRIUM_PHASES_MODIFY", "EXCHANGE_MODIFY",
            "SURFACE_MODIFY", "GAS_PHASE_MODIFY", "SOLID_SOLUTIONS_MODIFY", "KINETICS_MODIFY", "REACTION_MODIFY", "USER_GRAPH", "END", "DATABASE",
            "SOLUTION_MIX", "MEAN_GAMMAS", "INCLUDE$"]
# option names seen in the base blocks plus a hand-made list (the generator does not read the source tree)
OPTIONS = sorted(set(re.findall(r"(?m)^\s*-([A-Za-z_]\w*)", "\n".join(t for _, t in S.BLOCKS))) | {
    "temp", "temperature", "pH", "pe", "redox", "units", "density", "water", "isotope", "pressure", "potential", "equilibrate", "sites_units", "donnan",
    "cd_music", "capacitances", "no_edl", "ccm", "only_counter_ions", "fixed_pressure", "fixed_volume", "volume", "comp", "comp1", "comp2", "Gugg_nondim",
    "Gugg_kJ", "activity_coefficients", "distribution_coefficients", "miscibility_gap", "spinodal_gap", "critical_point", "alyotropic_point", "Thompson",
    "Margules", "formula", "m", "m0", "parms", "tol", "steps", "step_divide", "runge_kutta", "bad_step_max", "cvode", "cvode_steps", "cvode_order", "start",
    "end", "cells", "shifts", "time_step", "lengths", "dispersivities", "diffusion_coefficient", "boundary_conditions", "flow_direction", "stagnant",
    "punch_cells", "print_cells", "punch_frequency", "print_frequency", "correct_disp", "initial_time", "warnings", "multi_d", "interlayer_d", "porosities",
    "thermal_diffusion", "implicit", "fix_current", "dump", "dump_frequency", "dump_restart", "solutions", "uncertainty", "balances", "phases", "range",
    "minimal", "tolerance", "mineral_water", "isotopes", "multiple_precision", "mp_tolerance", "censor_mp", "force_solutions", "lon_netpath", "pat_netpath",
    "file", "reset", "high_precision", "totals", "molalities", "activities", "saturation_indices", "gases", "kinetic_reactants", "solid_solutions",
    "calculate_values", "inverse_modeling", "headings", "active", "user_punch", "selected_output", "all", "append", "iterations", "convergence_tolerance",
    "step_size", "pe_step_size", "diagonal_scale", "debug_model", "log_k", "logk", "delta_h", "analytic", "analytical_expression", "gamma", "dw", "Vm",
    "viscosity", "no_check", "mole_balance", "add_logk", "add_constant", "T_c", "P_c", "Omega", "llnl_gamma", "co2_llnl_gamma", "millero", "erm_ddl",
    "activity_water", "davies", "B0", "B1", "B2", "C0", "THETA", "LAMDA", "ZETA", "PSI", "MU", "ETA", "ALPHAS", "epsilon", "MacInnes", "use_etheta",
    "new_def", "component", "si", "moles", "total_h", "total_o", "cb", "mass_water", "type", "la", "charge_balance", "rk", "count", "namecoef", "d_params",
    "reactant_list", "element_list", "count_steps", "equal_increments", "solution", "cell", "time", "start_time"})

BASIC_LINES = [
    "10 x = TOT(\"Ca\")", "20 IF x > 0 THEN PRINT x ELSE PRINT -x", "30 FOR i = 1 TO 3", "40 NEXT i", "50 PRINT MOL(\"Na+\"), ACT(\"Cl-\"), SI(\"Calcite\")",
    "60 GOSUB 100", "70 END", "100 RETURN", "15 DIM a(3)", "16 a(2) = 5", "17 a$ = STR$(1.5) + \"x\"", "18 PUNCH a(2), a$", "19 WHILE x < 3", "21 x = x + 1", "22 WEND",
    "23 SAVE x", "24 PUT(1, 1)", "25 y = GET(1)", "26 DATA 1, 2", "27 READ p, q", "28 ON x GOTO 10, 20", "29 REM a comment", "31 y = SQRT(x) / LOG10(x) ^ 2 MOD 3",
    "32 n = SYS(\"Ca\", c, n$, t$, m)", "33 PRINT n$(1), t$(c), m(0)", "34 y = KIN(\"Calcite\") * PARM(1) * TIME", "35 y = EQUI(\"Calcite\") + SURF(\"Fe\", \"Hfo\") + EDL(\"Ca\", \"Hfo\")",
    "36 PRINT PAD(a$, 10), TRIM(a$), MID$(a$, 1, 2), LEN(a$), INSTR(a$, \"x\")", "37 y = CALC_VALUE(\"cv1\") + LK_PHASE(\"Calcite\") + GFW(\"CaCO3\")",
    "38 y = SUM_SPECIES(\"{Ca,Na}*\", \"Ca\") + TOTMOLE(\"Ca\") + LA(\"H+\") + LM(\"H+\") + LG(\"H+\")", "39 ERASE a", "41 y = 1 / 0", "42 y = LOG(-1)", "43 y = EXP(1e6)",
    "44 GOTO 44", "45 GOTO 9999", "46 y = a(99)", "47 DIM b(1e9)", "48 y$ = 5", "49 y = \"s\"", "51 y = ((((((1))))))", "52 y = 1 +", "53 y = (1", "54 y = 1)", "55 NEXT", "56 WEND",
    "57 RETURN", "58 FOR i = 1 TO", "59 IF x THEN", "61 PRINT \"unterminated", "62 y = NOSUCHFN(1)", "63 y = TOT(1)", "64 y = TOT()", "65 y = TOT(\"Ca\", 2)", "66 PUNCH",
    "67 y = CHR$(300)", "68 y = MID$(\"abc\", -1, 1e9)", "69 x = 1 : y = 2 : PRINT x; y", "71 y = PR_P(\"Xx\") + PR_PHI(\"CO2(g)\") + GAS(\"Xx\")", "72 LET y = 5", "73 y = 1e999", "74 RESTORE 26",
    "75 y = CEIL(1.2) + FLOOR(-1.2) + ROUND(0.5) + SGN(0) + ABS(-1) + ARCTAN(1) + SIN(1) + COS(1) + TAN(1)", "76 y = VAL(\"x\") + ASC(\"\")", "77 INPUT z", "78 y = EOL$",
    "79 y = SPECIES_FORMULA$(\"Xx\", c, e$, f)", "81 y = ISO(\"13C\") + ISO_UNIT(\"D\")", "82 y = S_S(\"Calcite\") + LIST_S_S(\"x\", c, n$, m)", "83 y = CHANGE_POR(2, 1) + GET_POR(0) + CELL_NO + DIST",
    "-1 y = 1", "99999999999 y = 1", "y = 1", "10", "10 10 10", "10 IF IF THEN THEN", "10 a$(1) = \"x\"", "10 DIM a$(2)", "10 y = a$ + 1", "10 PRINT ,,,", "10 y = - - - 1", "10 y = NOT NOT 1", "10 y = 1 AND OR 2"]


def _tok(draw):
    k = draw(st.integers(0, 9))
    if k <= 2:
        return draw(st.sampled_from(NORMAL_NUM))
    if k == 3:
        return draw(st.sampled_from(EXTREME_NUM))
    if k == 4:
        return draw(st.sampled_from(ELEMENTS))
    if k == 5:
        return draw(st.sampled_from(SPECIES))
    if k == 6:
        return draw(st.sampled_from(PHASES))
    if k == 7:
        return draw(st.sampled_from(UNKNOWN))
    if k == 8:
        return draw(st.sampled_from(WORDS))
    return draw(st.text(alphabet=st.characters(min_codepoint=1, max_codepoint=255), min_size=0, max_size=8))


def _is_num(t):
    return re.match(r"^[-+]?(\d+\.?\d*|\.\d+)([eE][-+]?\d+)?$", t) is not None


def _split(line):
    """-> list of (start, end) of whitespace-separated tokens"""
    return [(m.start(), m.end()) for m in re.finditer(r"\S+", line)]


MUTATIONS = ["delete", "duplicate", "truncate", "number", "int", "name", "option", "insert_option", "entity_number", "swap", "keyword", "basic", "drop_start_end",
             "insert_tokens", "empty_value", "bytes"]


def _mutate(draw, lines):
    """one structural mutation of a block (list of lines); returns (lines, label)"""
    if not lines:
        return lines, "none"
    m = draw(st.sampled_from(MUTATIONS))
    if m in ("number", "int"):
        elig = [k for k, l in enumerate(lines) if any(_is_num(w) for w in l.split())]
    elif m == "name":
        elig = [k for k, l in enumerate(lines) if any(re.match(r"^[A-Z][\w()+\-.:]*$", w) for w in l.split()[1:] or l.split())]
    elif m in ("truncate", "empty_value"):
        elig = [k for k, l in enumerate(lines) if len(l.split()) > 1]
    else:
        elig = []
    i = draw(st.sampled_from(elig)) if elig else draw(st.integers(0, len(lines) - 1))
    line = lines[i]
    toks = _split(line)
    L = list(lines)
    if m == "delete" and len(L) > 1:
        del L[i]
    elif m == "duplicate":
        L.insert(draw(st.integers(0, len(L))), line)
    elif m == "truncate" and toks:
        k = draw(st.integers(0, len(toks) - 1))
        L[i] = line[:toks[k][0] + draw(st.integers(0, toks[k][1] - toks[k][0]))]
    elif m in ("number", "int"):
        nums = [t for t in toks if _is_num(line[t[0]:t[1]])]
        if nums:
            a, b = draw(st.sampled_from(nums))
            if COUNT_LINE.search(line):
                new = draw(st.sampled_from(COUNT_NUM))
            elif m == "int":
                new = draw(st.sampled_from(EXTREME_INT))
            else:
                new = draw(st.sampled_from(EXTREME_NUM))
            L[i] = line[:a] + new + line[b:]
        else:
            m = "number_none"
    elif m == "name":
        names = [t for t in toks if re.match(r"^[A-Z][\w()+\-.:]*$", line[t[0]:t[1]])]
        if names:
            a, b = draw(st.sampled_from(names))
            L[i] = line[:a] + draw(st.sampled_from(UNKNOWN + PHASES + SPECIES + ELEMENTS)) + line[b:]
        else:
            m = "name_none"
    elif m == "option":
        opts = [k for k, l in enumerate(L) if l.lstrip().startswith("-")]
        if opts:
            k = draw(st.sampled_from(opts))
            l = L[k]
            a = l.index("-")
            e = re.match(r"-\S*", l[a:]).end() + a
            L[k] = l[:a] + "-" + draw(st.sampled_from(OPTIONS)) + l[e:]
        else:
            m = "option_none"
    elif m == "insert_option":
        args = " ".join(_tok(draw) for _ in range(draw(st.integers(0, 4))))
        L.insert(i + 1 if i + 1 <= len(L) else len(L), " -%s %s" % (draw(st.sampled_from(OPTIONS)), args))
    elif m == "entity_number":
        kws = [k for k, l in enumerate(L) if re.match(r"^[A-Z_$]{3,}\b", l)]
        if kws:
            k = draw(st.sampled_from(kws))
            kw = re.match(r"^[A-Z_$]+", L[k]).group(0)
            L[k] = kw + " " + draw(st.sampled_from(["-1", "0", "2147483647", "2147483648", "5-1", "1-1000000", "1-", "-5--1", "x", "1.5", "1e3", "99999999999", "1 - 3", "", "1 2 3", "-"])) + " " + draw(st.sampled_from(["", "descr", "1"]))
        else:
            m = "entity_none"
    elif m == "swap" and len(L) > 1:
        j = draw(st.integers(0, len(L) - 1))
        L[i], L[j] = L[j], L[i]
    elif m == "keyword":
        kws = [k for k, l in enumerate(L) if re.match(r"^[A-Z_$]{3,}\b", l)]
        if kws:
            k = draw(st.sampled_from(kws))
            L[k] = re.sub(r"^[A-Z_$]+", draw(st.sampled_from(KEYWORDS)), L[k])
        else:
            m = "keyword_none"
    elif m == "basic":
        bl = [k for k, l in enumerate(L) if re.match(r"^\s*\d+\s+\S", l)]
        new = " " + draw(st.sampled_from(BASIC_LINES))
        if bl and draw(st.booleans()):
            L[draw(st.sampled_from(bl))] = new
        elif bl:
            L.insert(draw(st.sampled_from(bl)), new)
        else:
            L.insert(i, new)
    elif m == "drop_start_end":
        se = [k for k, l in enumerate(L) if re.match(r"^\s*-(start|end)\b", l)]
        if se:
            del L[draw(st.sampled_from(se))]
        else:
            m = "start_end_none"
    elif m == "insert_tokens":
        n = draw(st.integers(1, 5))
        L.insert(i, " " + " ".join(_tok(draw) for _ in range(n)))
    elif m == "empty_value" and toks:
        L[i] = line[:toks[0][1]]
    elif m == "bytes":
        pos = draw(st.integers(0, len(line)))
        L[i] = line[:pos] + draw(st.text(alphabet=st.characters(min_codepoint=1, max_codepoint=255), min_size=1, max_size=6)) + line[pos:]
    else:
        m = m + "_noop"
    return L, m


@st.composite
def grammar_block(draw):
    """a block built from the grammar KEYWORD [n[-m]] [description] NEWLINE (option-line | body-line)*"""
    kw = draw(st.sampled_from(KEYWORDS))
    num = draw(st.sampled_from(["", "1", "2", "1-3", "0", "-1", "10", "1 2"]))
    L = ["%s %s" % (kw, num)]
    for _ in range(draw(st.integers(0, 6))):
        if draw(st.booleans()):
            L.append(" -%s %s" % (draw(st.sampled_from(OPTIONS)), " ".join(_tok(draw) for _ in range(draw(st.integers(0, 4))))))
        else:
            L.append(" " + " ".join(_tok(draw) for _ in range(draw(st.integers(1, 5)))))
    return L


TAILS = ["USE solution %s", "USE exchange %s", "USE surface %s", "USE equilibrium_phases %s", "USE kinetics %s", "USE gas_phase %s", "USE solid_solutions %s",
         "USE reaction %s", "USE mix %s", "USE reaction_temperature %s", "SAVE solution %s", "SAVE exchange %s", "SAVE surface %s", "COPY solution %s %s",
         "COPY cell %s %s", "COPY surface %s %s", "MIX %s\n %s 0.5\n %s 0.5", "RUN_CELLS\n -cells %s\n -time_step %s", "DELETE\n -solution %s\n -cell %s", "DELETE\n -all",
         "DUMP\n -solution %s\n -surface %s", "DUMP\n -all\n -append %s", "TRANSPORT\n -cells %s\n -shifts 1", "ADVECTION\n -cells %s\n -shifts 1", "INVERSE_MODELING\n -solutions %s %s\n -phases\n  Calcite",
         "SOLUTION_MODIFY %s\n -pH 5", "EXCHANGE_MODIFY %s\n -component X\n  -la 1", "SURFACE_MODIFY %s\n -component Hfo_w\n  -la 1", "KINETICS_MODIFY %s\n -component Calcite\n  -m 1",
         "EQUILIBRIUM_PHASES_MODIFY %s\n -component Calcite\n  -moles 1", "GAS_PHASE_MODIFY %s\n -total_p 2", "SOLID_SOLUTIONS_MODIFY %s\n -solid_solution x", "REACTION_MODIFY %s\n -count_steps 2"]
ENTITY_NUMS = ["1", "2", "3", "9", "99", "0", "-1", "1-3", "5-7", "none", "77", "10", "3-1"]

BASE = [(n, t) for n, t in S.BLOCKS if n not in ("include", "include_missing", "empty", "end_only", "surface_dl")]


# shipped databases that load in < 20 ms (release build), drawn for about 4 cases in 10; the blocks are written for small.dat, so on these many
# species/phases/exchangers are "unknown" - which is a class the property names.  Concrete_PHR/PZ fail to load.
DATABASES = ["phreeqc.dat", "pitzer.dat", "ColdChem.dat", "frezchem.dat", "Amm.dat", "minimum.dat", "wateq4f.dat", "Tipping_Hurley.dat",
             "Kinec_v3.dat", "phreeqc_rates.dat", "core10.dat", "Concrete_PHR.dat", "Concrete_PZ.dat"]


@st.composite
def api_case(draw):
    parts, muts, names = [], [], []
    for _ in range(draw(st.integers(1, 3))):
        if draw(st.integers(0, 5)) == 0:
            L = draw(grammar_block())
            names.append("grammar")
        else:
            name, text = draw(st.sampled_from(BASE))
            names.append(name)
            L = text.split("\n")
            if L and L[-1] == "":
                L.pop()
            if draw(st.integers(0, 3)) == 0 and L and L[-1].strip().upper() == "END":
                L.pop()
        for _ in range(draw(st.integers(0, 3))):
            L, m = _mutate(draw, L)
            muts.append(m)
        parts.append("\n".join(L))
    if draw(st.integers(0, 2)) == 0:
        t = draw(st.sampled_from(TAILS))
        t = t % tuple(draw(st.sampled_from(ENTITY_NUMS)) for _ in range(t.count("%s")))
        parts.append(t + ("\nEND" if draw(st.booleans()) else ""))
        names.append("tail")
    text = "\n".join(parts) + ("\n" if draw(st.integers(0, 9)) else "")
    entry = draw(st.sampled_from(["run_string", "run_string", "run_string", "accumulate", "run_file"]))
    ops = []
    db = draw(st.sampled_from([None] * 7 + DATABASES))
    if db is not None:
        ops.append(["load_db_file", "", "@R@/database/" + db])
    ops.append(["strings", "", str(draw(st.sampled_from([0, 1, 8, 9, 15, 6])))])
    if entry == "run_string":
        ops.append(["run_string", "", text])
    elif entry == "accumulate":
        ops += [["accumulate", "", text], ["run_accumulated", "", ""]]
    else:
        ops += [["write_file", "", "@S@/g_in.pqi\n" + text], ["run_file", "", "@S@/g_in.pqi"]]
    return {"kind": "api", "ops": ops, "meta": {"engine": "B", "entry": entry, "blocks": names, "mutations": muts, "db": db or "small.dat"}}


# ------------------------------------------------------------------------------------------------ engine C
OK_INPUT = "SOLUTION 1\n pH 7\n Na 1\n Cl 1\nSELECTED_OUTPUT 1\n -reset false\n -pH\nDUMP\n -solution 1\nEND\n"
BAD_PATHS = [("through_regular_file", "@S@/regular/x.out"), ("missing_directory", "@S@/no_such_dir/sub/x.out"), ("dev_full", "/dev/full"),
             ("is_directory", "@S@/adir"), ("empty_name", ""), ("name_too_long", "@S@/" + "n" * 300)]
BAD_INPUTS = [("nonexistent", "@S@/no_such_input"), ("directory", "@S@/adir"), ("through_regular_file", "@S@/regular/in.pqi"), ("empty_name", ""),
              ("mode_000", "@S@/unreadable"), ("empty_file", "@S@/empty_file"), ("binary_file", "@S@/binary_file"), ("name_too_long", "@S@/" + "i" * 300)]
SETUP = [["write_file", "", "@S@/regular\nthis is a regular file\n"], ["mkdir", "", "@S@/adir"], ["write_file", "", "@S@/unreadable\nSOLUTION 1\nEND\n"],
         ["chmod", "", "000 @S@/unreadable"], ["write_file", "", "@S@/empty_file\n"],
         ["write_file", "", "@S@/binary_file\n" + "".join(chr((i * 37 + 11) % 256) for i in range(700))],
         ["write_file", "", "@S@/ok_in.pqi\n" + OK_INPUT]]
STREAMS = ["output", "log", "error", "dump", "selected"]


def _run_ops(entry, text):
    if entry == "run_string":
        return [["run_string", "", text]]
    if entry == "run_accumulated":
        return [["accumulate", "", text], ["run_accumulated", "", ""]]
    return [["write_file", "", "@S@/f_in.pqi\n" + text], ["run_file", "", "@S@/f_in.pqi"]]


def fault_cases():
    """the enumerated fault list: -> list of (name, case)"""
    out = []

    def add(name, ops):
        out.append((name, {"kind": "api", "ops": [list(o) for o in SETUP] + ops + [["reload_probe", "", "heavy"]], "meta": {"engine": "C", "fault": name}}))

    # 1. database / input / include files that cannot be read, per entry point
    for nm, path in BAD_INPUTS:
        add("load_db_file:" + nm, [["load_db_file", "", path]])
        add("run_file:" + nm, [["run_file", "", path]])
        for entry in ("run_string", "run_accumulated", "run_file"):
            add("include:%s:%s" % (entry, nm), _run_ops(entry, "SOLUTION 1\n Na 1\nINCLUDE$ %s\nEND\n" % path))
    # a failed load followed by a run without reload (the run must fail cleanly: no database)
    add("run_after_failed_load", [["load_db_file", "", "@S@/no_such_db"], ["reload_probe", "", "light"], ["load_db_file", "", "@S@/no_such_db"]])
    add("load_db_string:empty", [["load_db_string", "", ""]])
    add("load_db_string:garbage", [["load_db_string", "", "garbage\n\x01\x02\n"]])
    add("load_db_file:input_file_as_database", [["load_db_file", "", "@S@/ok_in.pqi"]])
    add("load_db_file:shipped_database_with_errors", [["load_db_file", "", "@R@/database/Concrete_PHR.dat"]])
    # 2. output sinks that cannot be opened, per stream and entry point (the sandbox runs as root: permission
    #    faults are emulated by ENOTDIR / ENOENT / EISDIR / ENAMETOOLONG / ENOSPC paths)
    for stream in STREAMS:
        for nm, path in BAD_PATHS:
            for entry in ("run_string", "run_accumulated", "run_file"):
                add("sink:%s:%s:%s" % (stream, nm, entry), [["set_file", stream, path], ["file_on", stream, "1"], ["strings", "", "0"]] + _run_ops(entry, OK_INPUT))
            # the same with a failing input: error text has to reach a sink that cannot be opened
        add("sink:%s:missing_directory:failing_input" % stream, [["set_file", stream, "@S@/no_such_dir/x"], ["file_on", stream, "1"]] + _run_ops("run_string", "SOLUTION 1\n pH 7 charge\n pe 4 charge\n Xx 1\nEND\n"))
        add("sink:%s:missing_directory:load_db" % stream, [["set_file", stream, "@S@/no_such_dir/x"], ["file_on", stream, "1"], ["load_db_file", "", "@S@/small.dat"], ["load_db_file", "", "@S@/no_such_db"]])
    # 3. file names given inside the input text
    for nm, path in BAD_PATHS:
        if nm == "empty_name":
            continue
        add("text:selected_output_file:" + nm, [["file_on", "selected", "1"]] + _run_ops("run_string", "SOLUTION 1\n Na 1\nSELECTED_OUTPUT 1\n -file %s\n -pH\nEND\n" % path))
        add("text:dump_file:" + nm, [["file_on", "dump", "1"]] + _run_ops("run_string", "SOLUTION 1\n Na 1\nDUMP\n -file %s\n -all\nEND\n" % path))
        add("text:transport_dump:" + nm, _run_ops("run_string", "SOLUTION 0-2\n Na 1\n Cl 1\nTRANSPORT\n -cells 2\n -shifts 2\n -dump %s\n -dump_frequency 1\nEND\n" % path))
        add("text:netpath:" + nm, _run_ops("run_string", "SOLUTION 1\n pH 7\n Ca 1\n C(4) 2\nSOLUTION 2\n pH 7.5\n Ca 1.5\n C(4) 3\nINVERSE_MODELING 1\n -solutions 1 2\n -phases\n  Calcite\n  CO2(g)\n -lon_netpath %s\n -pat_netpath %s\nEND\n" % (path, path)))
    return out


# ------------------------------------------------------------------------------------------------ engine D
# Small-scope enumeration over the seed corpus of engine A (198 inputs): every numeric token is replaced, one at a
# time, by each value of ENUM_VALUES; every BASIC line is deleted / has one token deleted / (NEXT) gets another loop
# variable.  Two exclusions by construction, both counted: the two huge values are not put on count-like lines
# (cells, shifts, steps, frequencies ...: the run would loop for hours, a resource limit) and INT_MAX is not put on
# the user number of a keyword line (recorded known findings K3a-K3e, some of which loop from INT_MIN to INT_MAX).
ENUM_VALUES = ["0", "-1", "1", "2147483647", "1e308", "-1e308", "1e-308", "nan"]
ENUM_BIG = {"2147483647", "1e308"}
ENUM_NUM = re.compile(r"(?<![\w.+\-(\"$])[-+]?(\d+\.?\d*|\.\d+)([eE][-+]?\d+)?(?![\w.)\"$])")
ENUM_COUNT_LINE = re.compile(r"cells|shift|steps?\b|count|iter|stag|\bin\b|cvode_steps|bad_step|range|RUN_CELLS|COPY|DELETE|SAVE|DUMP|divide|-\d|\d-\d|time_step|-time\b|initial_time", re.I)
BASIC_LINE = re.compile(r"^(\s*)(\d+)(\s+)([A-Za-z].*)$")


def enum_seed_texts(repo):
    items = [(n, t) for n, t in S.BLOCKS if n not in ("include", "include_missing")] + S.example_seeds(repo)
    return items


def enum_cases(repo):
    """-> (list of (label, text, meta), counters of exclusions); deterministic order"""
    out = []
    excl = {"count_like_big": 0, "known_K3_user_number": 0}
    for name, text in enum_seed_texts(repo):
        lines = text.split("\n")
        # numbers
        pos = 0
        for li, line in enumerate(lines):
            first = line.split()[0] if line.split() else ""
            is_kw = bool(re.match(r"^[A-Z_]{3,}$", first)) and not line.startswith((" ", "\t"))
            count_like = bool(ENUM_COUNT_LINE.search(line))
            is_basic = bool(BASIC_LINE.match(line))
            seen_num_on_line = 0
            for m in ENUM_NUM.finditer(line):
                if is_basic and m.start() <= len(BASIC_LINE.match(line).group(1)) + len(BASIC_LINE.match(line).group(2)):
                    continue            # the BASIC line number itself
                seen_num_on_line += 1
                for v in ENUM_VALUES:
                    if v == m.group(0):
                        continue
                    if count_like and v in ENUM_BIG:
                        excl["count_like_big"] += 1
                        continue
                    if is_kw and v == "2147483647":
                        excl["known_K3_user_number"] += 1
                        continue
                    nl = line[:m.start()] + v + line[m.end():]
                    out.append((name, "\n".join(lines[:li] + [nl] + lines[li + 1:]), {"op": "num", "value": v, "line": li}))
        # BASIC lines
        for li, line in enumerate(lines):
            bm = BASIC_LINE.match(line)
            if not bm:
                continue
            out.append((name, "\n".join(lines[:li] + lines[li + 1:]), {"op": "basic_delete_line", "line": li}))
            body = bm.group(4)
            toks = [(t.start(), t.end()) for t in re.finditer(r"\"[^\"]*\"|[A-Za-z_$][\w$]*|\d+\.?\d*(?:[eE][-+]?\d+)?|\S", body)]
            for a, b in toks:
                nb = body[:a] + body[b:]
                out.append((name, "\n".join(lines[:li] + [bm.group(1) + bm.group(2) + bm.group(3) + nb] + lines[li + 1:]), {"op": "basic_delete_token", "line": li}))
            nm = re.match(r"^(NEXT)\b\s*([A-Za-z_]\w*)?", body, re.I)
            if nm:
                for var in ("k9", ""):
                    if (nm.group(2) or "") == var:
                        continue
                    nb = "NEXT " + var + body[nm.end():]
                    out.append((name, "\n".join(lines[:li] + [bm.group(1) + bm.group(2) + bm.group(3) + nb.rstrip()] + lines[li + 1:]), {"op": "basic_next_variable", "line": li}))
    return out, excl


def enum_case(name, text, meta, idx):
    m = dict(meta, engine="D", seed=name, index=idx)
    return {"kind": "api", "ops": [["strings", "", "9"], ["run_string", "", text]], "meta": m}
