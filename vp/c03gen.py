"""Generator of reaction cells for C03 (valid heterogeneous equilibrium end state).

A *case* is a JSON-able dict (all randomness from Hypothesis):

    {"db": "phreeqc.dat",
     "sol":  {"temp", "pH", "water", "comps": [[element, molality]...], "balance": "Cl"|"pH"|"none"},
     "pp":   [{"name", "si", "moles", "opt": ""|"dissolve_only"|"precipitate_only", "fe": bool, "alt": ""|formula}...],
     "exch": {"kind": "explicit"|"equil"|"equil_multi"|"phase"|"kin", ...},
     "surf": {"kind": "plain"|"equil"|"phase"|"kin", "edl": "no_edl"|"ddl"|"donnan"|"diffuse", ...},
     "ss":   [{"name", "comps": [[phase, moles]...], "nonideal": None | [kind, a0, a1]}...],
     "reaction": {...}, "temps": [...], "kin": {...}, "incr": bool, "mode": "batch"|"cells",
     "stage2": {"reaction": {...}, "temps": [...]}}          (every key except db/sol is optional)

`plan(case)` (pure function) renders the input texts and the bookkeeping the oracle needs:

    sim0   KNOBS, extra PHASES / EXCHANGE_SPECIES / RATES, SOLUTION 1
    sims   one text per stage: stage 1 defines every reactant with number 1 and reacts it with solution 1
           (batch: USE/SAVE to number 2, cells: a definition simulation followed by RUN_CELLS -cells 1);
           stage 2 re-uses the saved reactants with a new REACTION / REACTION_TEMPERATURE
    punch  list of (heading, kind, key) describing the USER_PUNCH columns
"""
from hypothesis import strategies as st
from . import chemgen as cg
from . import dbparse
from . import formula as F

fmt = cg.fmt

# ------------------------------------------------------------------------------------------------- database pools
# cations / anions: element -> (charge used for the balance budget, max molality)
DB = {
    "phreeqc.dat": {
        "cations": {"Na": (1, 0.5), "K": (1, 0.2), "Ca": (2, 0.05), "Mg": (2, 0.05), "Sr": (2, 0.002), "Ba": (2, 1e-5)},
        "anions": {"S(6)": (2, 0.03), "C(4)": (2, 0.01), "F": (1, 1e-4), "P": (2, 1e-5)},
        "neutral": {"Si": 5e-4},
        "trace": {"Fe": 1e-4, "Al": 1e-6, "Mn": 1e-5, "Zn": 1e-5},
        "elements": ["Na", "K", "Ca", "Mg", "Sr", "Ba", "Cl", "S", "C", "F", "P", "Si", "Fe", "Al", "Mn", "Zn"],
        "react": ["NaCl", "KCl", "CaCl2", "MgCl2", "Na2SO4", "K2SO4", "NaHCO3", "CO2", "HCl", "NaOH", "H2O", "CaSO4",
                  "SrCl2", "Na2CO3", "Ca(OH)2", "MgSO4", "BaCl2", "H2SO4", "KOH", "SiO2"],
        "pp_gases": ["CO2(g)", "O2(g)"],
        "ss_sets": [["Calcite", "Strontianite"], ["Anhydrite", "Celestite", "Barite"], ["Barite", "Celestite"],
                    ["Calcite", "Strontianite", "Witherite"], ["Aragonite", "Strontianite"], ["Halite", "Sylvite"],
                    ["Gypsum", "Celestite"], ["Calcite", "Rhodochrosite", "Siderite", "Strontianite"],
                    ["Epsomite", "Hexahydrite"], ["Arcanite", "Thenardite"]],
        "exch": {"NaX": 1, "KX": 1, "CaX2": 2, "MgX2": 2, "SrX2": 2, "HX": 1},
    },
    "wateq4f.dat": {
        "cations": {"Na": (1, 0.5), "K": (1, 0.2), "Ca": (2, 0.05), "Mg": (2, 0.05), "Sr": (2, 0.002), "Ba": (2, 1e-5)},
        "anions": {"S(6)": (2, 0.03), "C(4)": (2, 0.01), "F": (1, 1e-4)},
        "neutral": {"Si": 5e-4},
        "trace": {"Fe": 1e-4, "Al": 1e-6, "Mn": 1e-5, "Zn": 1e-5},
        "elements": ["Na", "K", "Ca", "Mg", "Sr", "Ba", "Cl", "S", "C", "F", "Si", "Fe", "Al", "Mn", "Zn"],
        "react": ["NaCl", "KCl", "CaCl2", "MgCl2", "Na2SO4", "K2SO4", "NaHCO3", "CO2", "HCl", "NaOH", "H2O", "CaSO4",
                  "SrCl2", "Na2CO3", "Ca(OH)2", "MgSO4", "BaCl2", "H2SO4", "KOH", "SiO2"],
        "pp_gases": ["CO2(g)", "O2(g)"],
        "ss_sets": [["Calcite", "Strontianite"], ["Anhydrite", "Celestite", "Barite"], ["Barite", "Celestite"],
                    ["Calcite", "Magnesite"], ["Aragonite", "Strontianite", "Witherite"],
                    ["Calcite", "Rhodochrosite", "Siderite", "Strontianite"]],
        "exch": {"NaX": 1, "KX": 1, "CaX2": 2, "MgX2": 2, "SrX2": 2, "HX": 1},
    },
    "pitzer.dat": {
        "cations": {"Na": (1, 2.0), "K": (1, 0.5), "Ca": (2, 0.1), "Mg": (2, 0.5), "Sr": (2, 0.002), "Ba": (2, 1e-5)},
        "anions": {"S(6)": (2, 0.1), "C(4)": (2, 0.01), "Br": (1, 0.01), "B": (1, 0.005)},
        "neutral": {"Si": 5e-4},
        "trace": {},
        "elements": ["Na", "K", "Ca", "Mg", "Sr", "Ba", "Cl", "S", "C", "Br", "B", "Si"],
        "react": ["NaCl", "KCl", "CaCl2", "MgCl2", "Na2SO4", "K2SO4", "NaHCO3", "CO2", "HCl", "NaOH", "H2O", "CaSO4",
                  "SrCl2", "Na2CO3", "MgSO4", "BaCl2", "H2SO4", "KOH"],
        "pp_gases": ["CO2(g)"],
        "ss_sets": [["Anhydrite", "Celestite", "Barite"], ["Barite", "Celestite"], ["Halite", "Sylvite"],
                    ["Calcite", "Magnesite"], ["Epsomite", "Hexahydrite"], ["Arcanite", "Thenardite"]],
        "exch": {"NaX": 1, "KX": 1, "CaX2": 2, "MgX2": 2, "SrX2": 2, "HX": 1},
    },
}

# phases of the databases that are not drawn as minerals: sulfides / native sulfur / Mn(3,4) oxides need a redox couple the
# generated solutions do not poise (calculations mostly fail -> discards); they stay available through MINERALS_EXTRA=1 runs
SKIP_PHASES = {"Pyrite", "FeS(ppt)", "Mackinawite", "Sulfur", "Sphalerite", "Pyrolusite", "Hausmannite", "Manganite",
               "Greigite", "Bixbyite", "Birnessite", "Nsutite", "Wurtzite", "ZnS(a)", "Mn2(SO4)3", "MnS(Green)", "Fe3(OH)8",
               "Magnetite", "Maghemite", "JarositeH", "Jarosite(ss)", "Realgar", "Orpiment", "Portlandite"}

RATES_TEXT = """RATES
 r_first
 -start
 10 rate = parm(1) * m
 20 save rate * time
 -end
 r_const
 -start
 10 rate = parm(1) * m / (m + 0.01 * m0)
 20 save rate * time
 -end
 r_grow
 -start
 10 save -parm(1) * time
 -end
"""

EXTRA_PHASES = "PHASES\nFix_pH\n H+ = H+\n log_k 0"

# proton exchange: wateq4f.dat defines HX; phreeqc.dat carries the same definition commented out, pitzer.dat has none
EXTRA_EXCHANGE = {"phreeqc.dat": "EXCHANGE_SPECIES\n H+ + X- = HX\n -log_k 1.0\n -gamma 9.0 0",
                  "pitzer.dat": "EXCHANGE_SPECIES\n H+ + X- = HX\n -log_k 1.0",
                  "wateq4f.dat": ""}

KNOBS = "KNOBS\n -convergence_tolerance 1e-12\n -iterations 300"

_pool_cache = {}


def database(db):
    """parsed database + the extra definitions of every generated input"""
    key = ("db", db)
    if key not in _pool_cache:
        d = dbparse.load(db)
        text = EXTRA_PHASES + "\n" + EXTRA_EXCHANGE.get(db, "")
        x = dbparse.parse_text(text, "extra")
        _pool_cache[key] = (d, x)
    return _pool_cache[key]


def phase_of(db, name):
    d, x = database(db)
    return x.phase(name) or d.phase(name)


def mineral_pool(db):
    """names of the non-gas phases of the database whose elements lie in the element set of the generator"""
    key = ("min", db)
    if key not in _pool_cache:
        d, _ = database(db)
        ok = set(DB[db]["elements"]) | {"H", "O"}
        out = []
        for p in d.phases.values():
            if p.name.endswith("(g)") or p.name in SKIP_PHASES or p.no_check or p.formula is None:
                continue
            try:
                els = set(p.elements)
            except F.FormulaError:
                continue
            if not els <= ok or not (els - {"H", "O"}):
                continue
            if any(c != c for c in [p.logk(298.15, d)]):
                continue
            out.append(p.name)
        _pool_cache[key] = sorted(out)
    return _pool_cache[key]


def phase_elements(db, name):
    p = phase_of(db, name)
    return {} if p is None else dict(p.elements)


def exchange_species(db):
    """[(name, equivalents of X per mole)] of every exchange species known to the run (database + extra definitions)"""
    d, x = database(db)
    out = {}
    # the exchange master species itself (X-) is "not included in the mole-balance equation for the exchanger, forcing
    # its physical concentration to be zero" (manual, Exchange Species): it is not an occupied site
    masters = {m.species for m in d.exchange_master.values()}
    for tab in (d.exchange_species, x.exchange_species):
        for s in tab.values():
            k = s.elements.get("X", 0.0)
            if k > 0 and s.name not in masters:
                out[s.name] = k
    return sorted(out.items())


def surface_species(db):
    """[(name, {site type: nu})]"""
    d, _ = database(db)
    out = []
    for s in d.surface_species.values():
        nu = {e: v for e, v in s.elements.items() if e in d.surface_master}
        if nu:
            out.append((s.name, nu))
    return out


# ------------------------------------------------------------------------------------------------- strategies
def _some(draw, pool, lo, hi):
    pool = list(pool)
    hi = min(hi, len(pool))
    lo = min(lo, hi)
    return draw(st.lists(st.sampled_from(pool), min_size=lo, max_size=hi, unique=True))


@st.composite
def solution(draw, db):
    cfg = DB[db]
    cats = _some(draw, sorted(cfg["cations"]), 1, 4)
    ans = _some(draw, sorted(cfg["anions"]), 0, 3)
    comps = []
    ceq = 0.0
    for e in cats:
        z, hi = cfg["cations"][e]
        c = draw(cg.logu(hi * 1e-4, hi, 3))
        comps.append([e, c])
        ceq += z * c
    aeq = 0.0
    acomps = []
    for e in ans:
        z, hi = cfg["anions"][e]
        c = draw(cg.logu(hi * 1e-4, hi, 3))
        acomps.append([e, c, z])
        aeq += z * c
    if aeq > 0.8 * ceq:
        f = 0.8 * ceq / aeq
        for a in acomps:
            a[1] = float("%.3g" % (a[1] * f))
        aeq = sum(a[1] * a[2] for a in acomps)
    for a in acomps:
        if a[1] > 0:
            comps.append([a[0], a[1]])
    balance = draw(st.sampled_from(["Cl", "Cl", "none", "pH"]))
    cl = max(ceq - aeq, 1e-6)
    if cl < 3e-4 and balance != "none":
        # very dilute: the OH- / HCO3- of the requested pH can exceed the cation charge and the balancing ion would have
        # to become negative (initial solution fails); such solutions keep their imbalance
        balance = "none"
    if balance == "none":
        cl = float("%.4g" % (cl * draw(cg.uni(0.97, 1.03, 3))))
    else:
        cl = float("%.4g" % cl)
    comps.append(["Cl", cl])
    for e in sorted(cfg["neutral"]):
        if draw(st.booleans()):
            comps.append([e, draw(cg.logu(cfg["neutral"][e] * 1e-2, cfg["neutral"][e], 3))])
    for e in sorted(cfg["trace"]):
        if draw(st.integers(0, 7)) == 0:
            comps.append([e, draw(cg.logu(cfg["trace"][e] * 1e-2, cfg["trace"][e], 3))])
    t = 25.0
    if draw(st.booleans()):
        t = draw(cg.uni(0.0, 100.0, 3))
    return {"temp": t, "pH": draw(cg.uni(5.0, 9.5, 3)), "water": draw(st.one_of(st.just(1.0), cg.logu(0.1, 10.0, 3))),
            "comps": comps, "balance": balance}


def render_solution(s, n=1):
    L = ["SOLUTION %d" % n, " units mol/kgw", " temp %s" % fmt(s["temp"]),
         " pH %s%s" % (fmt(s["pH"]), " charge" if s["balance"] == "pH" else ""), " pe 4"]
    for e, c in s["comps"]:
        L.append(" %s %s%s" % (e, fmt(c), " charge" if (e == "Cl" and s["balance"] == "Cl") else ""))
    L.append(" -water %s" % fmt(s["water"]))
    return "\n".join(L)


def base(e):
    return e.split("(")[0]


@st.composite
def reaction(draw, db):
    cfg = DB[db]
    names = _some(draw, cfg["react"], 1, 3)
    reactants = [[nm, draw(st.sampled_from([1.0, 1.0, 0.5, 2.0, 0.25, 3.0]))] for nm in names]
    r = {"reactants": reactants}
    top = draw(cg.logu(1e-6, 1.0, 3))
    if draw(st.booleans()):
        k = draw(st.integers(1, 4))
        fr = sorted(draw(st.lists(cg.uni(0.05, 1.0, 2), min_size=k, max_size=k)))
        r["list"] = [float("%.4g" % (top * f)) for f in fr]
    else:
        r["total"] = float("%.4g" % top)
        r["n"] = draw(st.integers(1, 4))
    return r


def render_reaction(r, n):
    L = ["REACTION %d" % n]
    for nm, c in r["reactants"]:
        L.append(" %s %s" % (nm, fmt(c)))
    if "list" in r:
        L.append(" " + " ".join(fmt(x) for x in r["list"]) + " moles")
    else:
        L.append(" %s moles in %d steps" % (fmt(r["total"]), r["n"]))
    return "\n".join(L)


def reaction_steps(r):
    return len(r["list"]) if "list" in r else r["n"]


@st.composite
def pp(draw, db, sys_elements, exclude):
    """1..6 minerals of the database (mostly ones the system can form), targets -3..+1, amounts incl. 0 and small
    amounts, dissolve_only / precipitate_only / -force_equality; occasionally a gas below 1 atm and a pH-stat phase
    with an alternative formula"""
    cfg = DB[db]
    pool = [p for p in mineral_pool(db) if p not in exclude]
    sysok = set(sys_elements) | {"H", "O"}
    pool_sys = [p for p in pool if set(phase_elements(db, p)) <= sysok]
    n = draw(st.sampled_from([1, 2, 2, 3, 3, 4, 5, 6]))
    names = []
    for _ in range(n):
        src = pool_sys if (pool_sys and draw(st.integers(0, 4)) > 0) else pool
        nm = draw(st.sampled_from(src))
        if nm not in names:
            names.append(nm)
    phases = []
    for nm in names:
        si = draw(st.sampled_from([0.0, 0.0, 0.0, None, None]))
        if si is None:
            si = draw(cg.uni(-3.0, 1.0, 3))
        moles = draw(st.one_of(st.just(0.0), st.just(10.0), cg.logu(1e-6, 10.0, 3), cg.logu(1e-7, 1e-3, 3),
                               cg.logu(1e-13, 1e-9, 3)))
        if nm not in pool_sys and draw(st.integers(0, 2)) == 0:
            # trace amounts of a mineral that holds an element the solution lacks: the engine moves up to 1e-10/coef mol
            # of such a mineral into solution before it equilibrates - but never more than is there
            moles = draw(cg.logu(1e-13, 1e-9, 3))
        opt = draw(st.sampled_from(["", "", "", "", "dissolve_only", "precipitate_only"]))
        # -force_equality: "the phase must reach its target SI or the calculation fails with an error" - only drawn for
        # phases that hold enough mass to have a chance (everything else is a discard by definition)
        fe = draw(st.integers(0, 11)) == 0 and moles >= 0.01 and opt != "precipitate_only"
        phases.append({"name": nm, "si": si, "moles": moles, "opt": opt, "fe": fe, "alt": ""})
    if cfg["pp_gases"] and draw(st.integers(0, 3)) == 0:
        g = draw(st.sampled_from(cfg["pp_gases"]))
        phases.append({"name": g, "si": draw(cg.uni(-3.5, -0.3, 3)) if g == "CO2(g)" else draw(cg.uni(-3.0, -0.7, 3)),
                       "moles": draw(st.sampled_from([10.0, 1.0, 0.01, 0.0])), "opt": "", "fe": False, "alt": ""})
    if draw(st.integers(0, 11)) == 0:
        up = draw(st.booleans())
        phases.append({"name": "Fix_pH", "si": -draw(cg.uni(8.5, 10.5, 3)) if up else -draw(cg.uni(4.0, 6.0, 3)),
                       "moles": 10.0, "opt": "", "fe": draw(st.booleans()), "alt": "NaOH" if up else "HCl"})
    return phases


def render_pp(phases, n):
    L = ["EQUILIBRIUM_PHASES %d" % n]
    for p in phases:
        if p["alt"]:
            L.append(" %s %s %s %s" % (p["name"], fmt(p["si"]), p["alt"], fmt(p["moles"])))
        else:
            L.append(" %s %s %s %s" % (p["name"], fmt(p["si"]), fmt(p["moles"]), p["opt"]))
        if p["fe"]:
            L.append("  -force_equality true")
    return "\n".join(L)


EXCH_ION = {"Na": ("NaX", 1), "K": ("KX", 1), "Ca": ("CaX2", 2), "Mg": ("MgX2", 2), "Sr": ("SrX2", 2)}


def tied_phase_ok(db, name, sol_elements):
    """Excluded by construction (C03 known finding `tied-sites-not-resynchronised`): a site population tied to a mineral
    that holds an element the solution lacks.  The engine first moves 1e-10/coef mol of such a mineral into solution
    (step.cpp add_pp_assemblage); the tied sites are re-synchronised with the reduced amount only when the model is rebuilt
    (build_min_exch, first reaction step), not in later steps that re-use the model or after a second solver attempt, and
    end proportion x 1e-10/coef mol above proportion x moles of the mineral."""
    return all(e in sol_elements for e in phase_elements(db, name) if e not in ("H", "O"))


def exch_phase_candidates(db, phases, sol_elements):
    """-> ([phase name, exchange formula, equivalents, max exchange species per mole]..., number excluded)"""
    out, excluded = [], 0
    for p in phases:
        if p["alt"] or p["name"].endswith("(g)") or p["opt"] == "precipitate_only":
            # (precipitate_only: the engine ties the sites to the *reactive* part of the mineral only - the start amount is
            #  set aside as inert - which no document describes; undocumented corner, not generated)
            continue
        els = phase_elements(db, p["name"])
        for e in sorted(EXCH_ION):
            if els.get(e, 0.0) > 0:
                if tied_phase_ok(db, p["name"], sol_elements):
                    out.append([p["name"], EXCH_ION[e][0], EXCH_ION[e][1], els[e]])
                else:
                    excluded += 1
    return out, excluded


@st.composite
def exch(draw, db, phases, has_kin_na, sol_elements):
    cfg = DB[db]
    kinds = ["explicit", "explicit", "equil", "equil", "equil_multi"]
    cand, nex = exch_phase_candidates(db, phases or [], sol_elements)
    if cand:
        kinds += ["phase", "phase"]
    if has_kin_na:
        kinds += ["kin", "kin", "kin"]
    kind = draw(st.sampled_from(kinds))
    if kind == "explicit":
        names = _some(draw, sorted(cfg["exch"]), 1, 3)
        return {"kind": kind, "species": [[nm, draw(cg.logu(1e-4, 0.05 if nm == "HX" else 0.5, 3))] for nm in names], "nex": nex}
    if kind == "equil":
        return {"kind": kind, "X": draw(cg.logu(1e-4, 1.0, 3)), "nex": nex}
    if kind == "equil_multi":
        # -equilibrate with the sites of one exchanger spread over 2-3 lines (bare site and / or formulas): the lines add
        # up (manual, EXCHANGE: "Line 1 may be repeated to define the entire composition of each exchanger"; "the total
        # number of exchange sites of X is 1.5 mol" for CaX2 0.3 / MgX2 0.2 / NaX 0.5)
        k = draw(st.integers(2, 3))
        pool = ["X", "X", "X"] + [f for f in sorted(cfg["exch"]) if f != "HX"]
        return {"kind": kind, "nex": nex,
                "lines": [[draw(st.sampled_from(pool)), draw(cg.logu(1e-4, 0.5, 3))] for _ in range(k)]}
    if kind == "phase":
        ph, fm, z, mx = draw(st.sampled_from(cand))
        return {"kind": kind, "phase": ph, "formula": fm, "z": z, "per_mole": float("%.3g" % (mx * draw(cg.uni(0.01, 0.9, 2)))),
                "equil": draw(st.booleans()), "nex": nex}
    return {"kind": kind, "rate": has_kin_na, "formula": "NaX", "z": 1, "per_mole": draw(cg.uni(0.01, 0.9, 2)),
            "equil": draw(st.booleans()), "nex": nex}


def render_exch(d, n, eq_sol=1):
    L = ["EXCHANGE %d" % n]
    if d["kind"] == "explicit":
        for nm, a in d["species"]:
            L.append(" %s %s" % (nm, fmt(a)))
    elif d["kind"] == "equil":
        L.append(" X %s" % fmt(d["X"]))
        L.append(" -equilibrate %d" % eq_sol)
    elif d["kind"] == "equil_multi":
        for fm, a in d["lines"]:
            L.append(" %s %s" % (fm, fmt(a)))
        L.append(" -equilibrate %d" % eq_sol)
    elif d["kind"] == "phase":
        L.append(" %s %s equilibrium_phase %s" % (d["formula"], d["phase"], fmt(d["per_mole"])))
        if d["equil"]:
            L.append(" -equilibrate %d" % eq_sol)
    else:
        L.append(" %s %s kinetic_reactant %s" % (d["formula"], d["rate"], fmt(d["per_mole"])))
        if d["equil"]:
            L.append(" -equilibrate %d" % eq_sol)
    return "\n".join(L)


@st.composite
def surf(draw, db, phases, kin_rate, balanced, sol_elements):
    kinds = ["plain", "equil", "equil", "equil"]
    cand0 = [p["name"] for p in (phases or []) if not p["alt"] and not p["name"].endswith("(g)") and p["opt"] != "precipitate_only"]
    cand = [nm for nm in cand0 if tied_phase_ok(db, nm, sol_elements)]
    if cand:
        kinds += ["phase", "phase"]
    if kin_rate:
        kinds += ["kin", "kin"]
    kind = draw(st.sampled_from(kinds))
    edl = draw(st.sampled_from(["no_edl", "ddl", "ddl", "donnan", "diffuse"] if balanced else ["no_edl", "ddl", "ddl", "donnan"]))
    d = {"kind": kind, "edl": edl, "w": draw(cg.logu(1e-5, 1e-2, 3)), "s": draw(st.one_of(st.just(0.0), cg.logu(1e-6, 1e-3, 3))),
         "area": draw(st.sampled_from([600.0, 600.0, 100.0, 50.0])), "grams": draw(cg.logu(0.1, 10.0, 3)),
         "nex": len(cand0) - len(cand)}
    if kind in ("phase", "kin"):
        d["rel"] = draw(st.sampled_from(cand)) if kind == "phase" else kin_rate
        d["per_mole_w"] = draw(cg.logu(1e-3, 0.5, 3))
        d["per_mole_s"] = draw(st.one_of(st.just(0.0), cg.logu(1e-4, 0.01, 3)))
        d["area_per_mole"] = draw(cg.logu(1e3, 1e5, 3))
        d["equil"] = draw(st.booleans())
        if edl in ("donnan", "diffuse"):
            d["edl"] = "ddl"
    if d["edl"] == "diffuse" and kind == "plain":
        d["kind"] = "equil"
    if d["edl"] == "donnan" and kind == "plain" and db != "pitzer.dat":
        d["kind"] = "equil"
    if d["edl"] == "donnan":
        d["thick"] = draw(st.sampled_from([None, 1e-8, 1e-9]))
    return d


def render_surf(d, n, eq_sol=1):
    L = ["SURFACE %d" % n]
    k = d["kind"]
    if k == "plain":
        L.append(" Hfo_wOH %s %s %s" % (fmt(d["w"]), fmt(d["area"]), fmt(d["grams"])))
        if d["s"] > 0:
            L.append(" Hfo_sOH %s" % fmt(d["s"]))
    elif k == "equil":
        L.append(" -equilibrate %d" % eq_sol)
        L.append(" Hfo_w %s %s %s" % (fmt(d["w"]), fmt(d["area"]), fmt(d["grams"])))
        if d["s"] > 0:
            L.append(" Hfo_s %s" % fmt(d["s"]))
    else:
        word = "equilibrium_phase" if k == "phase" else "kinetic_reactant"
        if d["equil"]:
            L.append(" -equilibrate %d" % eq_sol)
        L.append(" Hfo_wOH %s %s %s %s" % (d["rel"], word, fmt(d["per_mole_w"]), fmt(d["area_per_mole"])))
        if d["per_mole_s"] > 0:
            L.append(" Hfo_sOH %s %s %s" % (d["rel"], word, fmt(d["per_mole_s"])))
    m = d["edl"]
    if m == "no_edl":
        L.append(" -no_edl")
    elif m == "donnan":
        L.append(" -donnan" + (" %s" % fmt(d["thick"]) if d.get("thick") else ""))
    elif m == "diffuse":
        L.append(" -diffuse_layer")
    return "\n".join(L)


@st.composite
def ss(draw, db):
    cfg = DB[db]
    k = draw(st.integers(1, 2))
    sets = draw(st.lists(st.sampled_from(list(range(len(cfg["ss_sets"])))), min_size=k, max_size=k, unique=True))
    out = []
    used = set()
    for j, si in enumerate(sets):
        comps = [c for c in cfg["ss_sets"][si] if c not in used and phase_of(db, c) is not None]
        if len(comps) < 2:
            continue
        nonideal = draw(st.integers(0, 2)) == 0
        if nonideal:
            comps = comps[:2]
        used.update(comps)
        amounts = [draw(st.one_of(st.just(0.0), cg.logu(1e-6, 0.1, 3))) for _ in comps]
        s = {"name": "SS%d" % j, "comps": [[c, a] for c, a in zip(comps, amounts)], "nonideal": None}
        if nonideal:
            s["nonideal"] = [draw(st.sampled_from(["Gugg_nondim", "Gugg_kJ"])), draw(cg.uni(-1.0, 2.5, 3)),
                             draw(st.one_of(st.just(0.0), cg.uni(-0.5, 0.5, 2)))]
        out.append(s)
    if not out:
        c = cfg["ss_sets"][sets[0]][:2]
        out = [{"name": "SS0", "comps": [[c[0], 0.01], [c[1], 0.0]], "nonideal": None}]
    return out


def render_ss(sss, n):
    L = ["SOLID_SOLUTIONS %d" % n]
    for s in sss:
        L.append(" %s" % s["name"])
        for c, a in s["comps"]:
            L.append("  -comp %s %s" % (c, fmt(a)))
        if s["nonideal"]:
            kind, a0, a1 = s["nonideal"]
            if kind == "Gugg_kJ":
                L.append("  -Gugg_kJ %s %s" % (fmt(float("%.4g" % (a0 * 2.479))), fmt(float("%.4g" % (a1 * 2.479)))))
            else:
                L.append("  -Gugg_nondim %s %s" % (fmt(a0), fmt(a1)))
    return "\n".join(L)


@st.composite
def kin(draw):
    """one kinetic reactant holding Na (so that an exchanger / a surface can be tied to it); rates that fade out or are
    clipped at m = 0, integrated with Runge-Kutta"""
    rate = draw(st.sampled_from(["r_first", "r_const", "r_grow"]))
    top = draw(cg.logu(1.0, 1e5, 3))
    m0 = draw(cg.logu(1e-3, 1.0, 3))
    if rate == "r_first":
        parm = draw(cg.logu(1e-8, 1e-3, 2))
    elif rate == "r_const":
        # (constant rate that fades out smoothly below 1 % of m0: with a rate that is discontinuous at m = 0 the
        #  Runge-Kutta step control of the engine does not return in reasonable time once the reactant is used up -
        #  seen: > 10 min with an exchanger tied to the reactant)
        #  Also never more than 30 % of the reactant per stage: when a kinetic reactant with a tied exchanger is used up
        #  while a REACTION is applied, rk_kinetics does not return (seen on the unchanged tree: > 10 min).
        parm = min(draw(cg.logu(1e-10, 1e-5, 2)), 0.3 * m0 / top)
    else:
        parm = min(draw(cg.logu(1e-10, 1e-6, 2)), 1e-4 / top)
    d = {"rate": rate, "formula": draw(st.sampled_from(["NaCl", "NaCl", "NaHCO3"])), "m0": m0, "parm": float("%.3g" % parm),
         "total": top, "n": draw(st.integers(1, 2))}
    return d


def render_kin(d, n):
    L = ["KINETICS %d" % n, " %s" % d["rate"], "  -formula %s 1" % d["formula"], "  -m0 %s" % fmt(d["m0"]),
         "  -m %s" % fmt(d["m0"]), "  -parms %s" % fmt(d["parm"]), "  -tol 1e-9",
         " -steps %s in %d steps" % (fmt(d["total"]), d["n"]), " -cvode false"]
    return "\n".join(L)


@st.composite
def case_strategy(draw, dbs=("phreeqc.dat",)):
    db = draw(st.sampled_from(list(dbs)))
    sol = draw(solution(db))
    case = {"db": db, "sol": sol, "incr": draw(st.booleans()), "mode": draw(st.sampled_from(["batch", "batch", "cells"]))}
    sys_el = {base(e) for e, _ in sol["comps"]}
    has_na_cl = any(e == "Na" and c * sol["water"] >= 1e-3 for e, c in sol["comps"]) and \
        any(e == "Cl" and c * sol["water"] >= 1e-3 for e, c in sol["comps"])
    if draw(st.integers(0, 9)) < 4:
        case["reaction"] = draw(reaction(db))
        for nm, _ in case["reaction"]["reactants"]:
            sys_el |= set(F.elements(nm))
    want_kin = draw(st.integers(0, 7)) == 0
    if want_kin:
        k = draw(kin())
        if k["rate"] == "r_grow" and not (has_na_cl and k["formula"] == "NaCl"):
            k["rate"] = "r_first"
        case["kin"] = k
        sys_el |= set(F.elements(k["formula"]))
    want_ss = draw(st.integers(0, 9)) < 3
    exclude = set()
    if want_ss:
        case["ss"] = draw(ss(db))
        for s in case["ss"]:
            for c, amount in s["comps"]:
                exclude.add(c)
                if amount > 0:
                    sys_el |= set(phase_elements(db, c))
    want_exch = draw(st.integers(0, 9)) < 3
    want_surf = draw(st.integers(0, 9)) < 3
    if draw(st.integers(0, 9)) < 8 or not (want_ss or want_exch or want_surf):
        case["pp"] = draw(pp(db, sys_el, exclude))
    if want_exch:
        case["exch"] = draw(exch(db, case.get("pp"), case["kin"]["rate"] if "kin" in case else None,
                                 {base(e) for e, _ in sol["comps"]}))
    if want_surf:
        case["surf"] = draw(surf(db, case.get("pp"), case["kin"]["rate"] if "kin" in case else None, sol["balance"] != "none",
                                 {base(e) for e, _ in sol["comps"]}))
    if not case["incr"] and any(case.get(k, {}).get("kind") in ("phase", "kin") for k in ("exch", "surf")):
        # excluded by construction (known finding `tied-sites-not-resynchronised`): every cumulative (non-incremental) step
        # after the first restarts from the stored minerals but keeps the site count the previous step ended with
        case["incr"] = True
        case["incr_forced"] = True
    if draw(st.integers(0, 4)) == 0:
        case["temps"] = [draw(cg.uni(0.0, 100.0, 3)) for _ in range(draw(st.integers(1, 4)))]
    if draw(st.integers(0, 9)) < 4:
        s2 = {}
        if draw(st.booleans()):
            s2["reaction"] = draw(reaction(db))
        if draw(st.integers(0, 2)) == 0 or not s2:
            s2["temps"] = [draw(cg.uni(0.0, 100.0, 3)) for _ in range(draw(st.integers(1, 3)))]
        if "pp" in case and draw(st.integers(0, 2)) == 0:
            # the saved assemblage gets new targets (and amounts) through EQUILIBRIUM_PHASES_MODIFY before it reacts again
            mods = []
            for i, p in enumerate(case["pp"]):
                if p["alt"] or p["name"].endswith("(g)") or draw(st.booleans()):
                    continue
                tied = any(case.get(kd, {}).get("kind") == "phase" and p["name"] in (case[kd].get("phase"), case[kd].get("rel"))
                           for kd in ("exch", "surf"))
                newm = None
                if not tied and draw(st.integers(0, 2)) == 0:
                    newm = draw(st.one_of(st.just(0.0), cg.logu(1e-6, 10.0, 3)))
                mods.append([i, draw(cg.uni(-3.0, 1.0, 3)), newm])
            if mods:
                s2["modify"] = mods
        case["stage2"] = s2
    return case


# ------------------------------------------------------------------------------------------------- planning
def punch_columns(case):
    """[(heading, kind, key, BASIC expression)]"""
    db = case["db"]
    cols = [("tc", "tc", None, "TC"), ("water", "water", None, 'TOT("water")')]
    for i, p in enumerate(case.get("pp", [])):
        cols.append(("si_%d" % i, "pp_si", i, 'SI("%s")' % p["name"]))
        cols.append(("eq_%d" % i, "pp_eq", i, 'EQUI("%s")' % p["name"]))
    if "exch" in case:
        for j, (nm, z) in enumerate(exchange_species(db)):
            cols.append(("ex_%d" % j, "ex", nm, 'MOL("%s")' % nm))
    if "surf" in case:
        for j, (nm, nu) in enumerate(surface_species(db)):
            cols.append(("sf_%d" % j, "sf", nm, 'MOL("%s")' % nm))
    for a, s in enumerate(case.get("ss", [])):
        for b, (c, _) in enumerate(s["comps"]):
            cols.append(("ssn_%d_%d" % (a, b), "ss_n", [a, b], 'S_S("%s")' % c))
            cols.append(("ssi_%d_%d" % (a, b), "ss_si", [a, b], 'SI("%s")' % c))
    if "kin" in case:
        cols.append(("kin", "kin", None, 'KIN("%s")' % case["kin"]["rate"]))
    return cols


def render_punch(cols, pp_names=()):
    L = ["SELECTED_OUTPUT 1", " -reset false", " -state true", " -step true"]
    if pp_names:
        # amounts of the assemblage from the built-in columns (heading = phase name): the BASIC function EQUI() returns 0
        # for a negative amount (and resets it), so it cannot show one
        L.append(" -equilibrium_phases " + " ".join(pp_names))
    L += ["USER_PUNCH 1",
         " -headings " + " ".join(c[0] for c in cols), " -start"]
    ln = 10
    for i in range(0, len(cols), 8):
        L.append(" %d PUNCH %s" % (ln, ", ".join(c[3] for c in cols[i:i + 8])))
        ln += 10
    L.append(" -end")
    return "\n".join(L)


KW = {"pp": "equilibrium_phases", "exch": "exchange", "surf": "surface", "ss": "solid_solutions"}
RAW = {"pp": "EQUILIBRIUM_PHASES", "exch": "EXCHANGE", "surf": "SURFACE", "ss": "SOLID_SOLUTIONS"}


def stage_steps(case, stage):
    d = case if stage == 0 else case["stage2"]
    n = 1
    if "reaction" in d:
        n = max(n, reaction_steps(d["reaction"]))
    if "temps" in d:
        n = max(n, len(d["temps"]))
    if "kin" in case:
        n = max(n, case["kin"]["n"])
    return n


def plan(case):
    """numbers: solution and reactants b+1, products of the batch stages b+2 / b+3 (b = case.get("base", 0); histories of
    several cells on one instance use different or equal bases)"""
    db = case["db"]
    b = int(case.get("base", 0))
    n1, n2, n3 = b + 1, b + 2, b + 3
    sim0 = []
    if case.get("clean"):
        # later cell of a history: whatever an earlier cell left under the numbers of this one is removed first (a
        # left-over KINETICS / EXCHANGE ... would otherwise join a RUN_CELLS calculation of the same number); the
        # per-phase state inside the engine is not touched by this
        sim0 += ["DELETE\n -cells %d %d %d" % (n1, n2, n3), "END"]
    sim0 += [KNOBS, RATES_TEXT.rstrip(), EXTRA_PHASES]
    if EXTRA_EXCHANGE.get(db):
        sim0.append(EXTRA_EXCHANGE[db])
    sim0.append(render_solution(case["sol"], n1))
    sim0.append("END")
    cols = punch_columns(case)
    cells = case["mode"] == "cells"
    kinds = [k for k in ("pp", "exch", "surf", "ss") if k in case]
    stages = []
    # ---- stage 1
    defs = []
    if "pp" in case:
        defs.append(render_pp(case["pp"], n1))
    if "ss" in case:
        defs.append(render_ss(case["ss"], n1))
    if "kin" in case:
        defs.append(render_kin(case["kin"], n1))
    if "exch" in case:
        defs.append(render_exch(case["exch"], n1, n1))
    if "surf" in case:
        defs.append(render_surf(case["surf"], n1, n1))
    if "reaction" in case:
        defs.append(render_reaction(case["reaction"], n1))
    if "temps" in case:
        defs.append("REACTION_TEMPERATURE %d\n " % n1 + " ".join(fmt(t) for t in case["temps"]))
    incr = "INCREMENTAL_REACTIONS %s" % ("true" if case["incr"] else "false")
    if cells:
        t = defs + ["USE solution none", "END", incr, render_punch(cols, [p["name"] for p in case.get("pp", [])]), "RUN_CELLS\n -cells %d" % n1, "DUMP\n -all", "END"]
        saved = n1
    else:
        t = defs + [incr, render_punch(cols, [p["name"] for p in case.get("pp", [])]), "USE solution %d" % n1]
        # (reactants tied to a kinetic reactant must carry the number of the KINETICS block, which the engine always
        #  writes back to its own number: such cells are saved in place)
        saved = n1 if "kin" in case else n2
        t += ["SAVE solution %d" % saved] + ["SAVE %s %d" % (KW[k], saved) for k in kinds] + ["DUMP\n -all", "END"]
    stages.append({"text": "\n".join(t) + "\n", "saved": saved, "nsteps": stage_steps(case, 0)})
    # ---- stage 2
    if "stage2" in case:
        s2 = case["stage2"]
        n = saved
        t = []
        if s2.get("modify"):
            L = ["EQUILIBRIUM_PHASES_MODIFY %d" % n]
            for i, si, moles in s2["modify"]:
                L.append(" -component %s" % case["pp"][i]["name"])
                L.append("  -si %s" % fmt(si))
                if moles is not None:
                    L.append("  -moles %s" % fmt(moles))
            t += ["\n".join(L), "USE solution none", "END"]
        if "reaction" in s2:
            t.append(render_reaction(s2["reaction"], n))
        if "temps" in s2:
            t.append("REACTION_TEMPERATURE %d\n %s" % (n, " ".join(fmt(x) for x in s2["temps"])))
        if cells:
            if "reaction" not in s2 and "reaction" in case:
                t.append("DELETE\n -reaction %d" % n1)
            if "temps" not in s2 and "temps" in case:
                t.append("DELETE\n -reaction_temperature %d" % n1)
            t += ["USE solution none", "END", incr, "RUN_CELLS\n -cells %d" % n1, "DUMP\n -all", "END"]
            saved2 = n1
        else:
            t += [incr, "USE solution %d" % n] + ["USE %s %d" % (KW[k], n) for k in kinds]
            if "kin" in case:
                t.append("USE kinetics %d" % n1)
            saved2 = n1 if "kin" in case else n3
            t += ["SAVE solution %d" % saved2] + ["SAVE %s %d" % (KW[k], saved2) for k in kinds] + ["DUMP\n -all", "END"]
        stages.append({"text": "\n".join(t) + "\n", "saved": saved2, "nsteps": stage_steps(case, 1)})
    return {"sim0": "\n".join(sim0) + "\n", "stages": stages, "cols": cols, "kinds": kinds}


@st.composite
def history_strategy(draw, dbs=("phreeqc.dat",)):
    """2-3 cells reacted one after the other on ONE instance (per-phase scratch state of the engine - activity
    coefficients and mole fractions of solid-solution components, in/out flags, amounts - outlives a calculation).
    The cells share a small family of solid-solution component sets, ideal and non-ideal in any order, under different
    solid-solution names; their numbers are different (base 0 / 10 / 20) or equal (redefinition of the same numbers)."""
    db = draw(st.sampled_from(list(dbs)))
    k = draw(st.integers(2, 3))
    fam = draw(st.lists(st.sampled_from(list(range(len(DB[db]["ss_sets"])))), min_size=1, max_size=2, unique=True))
    cells = []
    for j in range(k):
        c = draw(case_strategy((db,)))
        if draw(st.integers(0, 9)) < 8:
            sss, used = [], set()
            for a, si in enumerate(fam if draw(st.booleans()) else fam[:1]):
                comps = [x for x in DB[db]["ss_sets"][si] if x not in used and phase_of(db, x) is not None]
                if len(comps) < 2:
                    continue
                nonideal = draw(st.booleans())
                if nonideal:
                    comps = comps[:2] if draw(st.booleans()) else comps[-2:]
                used.update(comps)
                d = {"name": "H%dS%d" % (j, a), "comps": [[x, draw(st.one_of(st.just(0.0), cg.logu(1e-6, 0.1, 3)))] for x in comps],
                     "nonideal": None}
                if nonideal:
                    d["nonideal"] = [draw(st.sampled_from(["Gugg_nondim", "Gugg_kJ"])), draw(cg.uni(-1.0, 2.5, 3)),
                                     draw(st.one_of(st.just(0.0), cg.uni(-0.5, 0.5, 2)))]
                sss.append(d)
            if sss:
                c["ss"] = sss
                c.get("stage2", {}).pop("modify", None)      # (indices refer to the assemblage as drawn)
                if "pp" in c:
                    c["pp"] = [p for p in c["pp"] if p["name"] not in used]
                    tied = {c.get("exch", {}).get("phase"), c.get("surf", {}).get("rel") if c.get("surf", {}).get("kind") == "phase" else None}
                    if not c["pp"] or any(t and t not in [p["name"] for p in c["pp"]] for t in tied):
                        c.pop("pp", None)
                        for kd in ("exch", "surf"):
                            if c.get(kd, {}).get("kind") == "phase":
                                c.pop(kd)
        c["base"] = draw(st.sampled_from([0, 0, 10, 20]))
        if j > 0:
            c["clean"] = True
        cells.append(c)
    return {"db": db, "history": cells}
