"""C15: chemical-system model, renderer ("views") and Hypothesis strategies.

A *model* is a JSON-able description of one chemical system (solutions in canonical molalities, reactants, a
reaction plan of one or two simulations).  A *view* says how the model is written down: units per solution,
spelling of the units, common scale factor, entity numbers, order of blocks/constituents, duplicated blocks,
how the mixture is expressed.  `render(model, view)` gives the input text; the property compares the results
of two views of one model.

The exact unit factors come from the database text through vp.dbparse (gram formula weights of the master
species, formula weights for `as`), never from the engine.
"""
from hypothesis import strategies as st
from . import dbparse, formula as F
from .chemgen import logu, uni, fmt

DB = "phreeqc.dat"

# ---------------------------------------------------------------------------------------------- chemistry pools
# group -> list of variants (each a list of (element-as-written, typical max molality))
INERT_GROUPS = {
    "Na": [[("Na", 0.5)]], "K": [[("K", 0.2)]], "Ca": [[("Ca", 0.02)]], "Mg": [[("Mg", 0.03)]],
    "Cl": [[("Cl", 0.5)]], "S": [[("S(6)", 0.02)]], "C": [[("C(4)", 0.01)], [("Alkalinity", 0.005)]], "Alk": [[("Alkalinity", 0.005)]],
    "Si": [[("Si", 3e-4)]], "Br": [[("Br", 0.005)]], "Li": [[("Li", 0.005)]], "Sr": [[("Sr", 5e-4)]],
    "Ba": [[("Ba", 1e-6)]], "F": [[("F", 5e-5)]], "B": [[("B", 1e-3)]], "Al": [[("Al", 1e-7)]],
    "Zn": [[("Zn", 1e-5)]], "P": [[("P", 1e-5)]],
}
# only in systems whose every row is poised by the input (initial solutions with a fixed pe)
REDOX_GROUPS = {
    "Fe": [[("Fe", 1e-4)], [("Fe(2)", 1e-4), ("Fe(3)", 1e-6)], [("Fe(2)", 1e-4)], [("Fe(3)", 1e-6)]],
    "N": [[("N(5)", 0.005)], [("N(-3)", 1e-3)], [("N(5)", 0.005), ("N(-3)", 1e-3)]],
    "Mn": [[("Mn", 1e-5)], [("Mn(2)", 1e-5)]],
    "S": [[("S", 0.01)], [("S(6)", 0.02)]],
    "C": [[("C", 0.01)], [("C(4)", 0.01)], [("Alkalinity", 0.005)]],
}
ROUGH_Z = {"Na": 1, "K": 1, "Li": 1, "Ca": 2, "Mg": 2, "Sr": 2, "Ba": 2, "Zn": 2, "Cl": -1, "Br": -1, "F": -1,
           "S(6)": -2, "S": -2, "C(4)": -1, "C": -1, "Alkalinity": -1, "N(5)": -1, "N(-3)": 1, "Fe": 2, "Fe(2)": 2,
           "Fe(3)": 3, "Mn": 2, "Mn(2)": 2, "Al": 3}

# `as` formulas (any formula is legitimate: only its weight is used)
AS_GENERIC = ["NaCl", "CaCO3", "SiO2", "SO4", "HCO3", "NO3", "N", "S", "C", "CO3", "PO4", "P", "H4SiO4", "Al2O3",
              "Fe2O3", "NH4", "Ca0.5(CO3)0.5", "CaSO4:2H2O", "Na2SO4", "MgCl2", "B(OH)3"]

# exclusive groups of equilibrium phases: (names, elements needed in the system already or brought by the phase)
EQ_GROUPS = [
    (["Calcite", "Aragonite"], "mineral"), (["Dolomite"], "mineral"), (["Gypsum", "Anhydrite"], "mineral"),
    (["CO2(g)"], "gas"), (["Halite"], "salt"), (["Sylvite"], "salt"), (["Barite"], "mineral"), (["Celestite"], "mineral"),
    (["Fluorite"], "mineral"), (["Quartz", "Chalcedony", "SiO2(a)"], "mineral"), (["Gibbsite"], "mineral"),
    (["Strontianite"], "mineral"), (["Witherite"], "mineral"),
]
RX_FORMULAS = ["NaCl", "KCl", "HCl", "NaOH", "CaCl2", "MgCl2", "Na2SO4", "CO2", "NaHCO3", "H2SO4", "H2O", "CaSO4",
               "KBr", "LiCl", "SrCl2", "Na2CO3", "KOH", "MgSO4"]
EX_SPECIES = ["NaX", "KX", "CaX2", "MgX2", "SrX2", "LiX", "BaX2"]
GAS_COMPS = ["CO2(g)", "Ntg(g)", "Mtg(g)", "Oxg(g)", "H2O(g)"]
KIN_FORMULAS = [("CaCO3", "Calcite"), ("CaSO4", "Gypsum"), ("SiO2", "Quartz"), ("NaCl", "Halite"), ("BaSO4", "Barite"),
                ("SrSO4", "Celestite"), ("KCl", "Sylvite")]

MOLE_UNITS = ["mol/kgw", "mmol/kgw", "umol/kgw"]
MASS_UNITS = ["g/kgw", "mg/kgw", "ug/kgw"]
EQ_UNITS = ["eq/kgw", "meq/kgw", "ueq/kgw"]
PREFIX = {"": 1.0, "m": 1e3, "u": 1e6}


def unit_parts(u):
    """'mg/kgw' -> ('m', 'g', 'kgw')"""
    num, den = u.split("/")
    for base in ("mol", "eq", "g"):
        if num.endswith(base):
            return num[:-len(base)], base, den
    raise ValueError(u)


# ---------------------------------------------------------------------------------------------- unit arithmetic
def as_weight(db, el, formula):
    """gram formula weight the documentation promises for `el ... as formula`"""
    w = db.formula_weight(formula)
    if el == "Alkalinity" and formula == "CaCO3":
        w = w / 2.0      # manual: "if 'as CaCO3' is entered, the value of 50.04 will still be used as the equivalent weight"
    return w


def input_value(db, el, molal, unit, spec):
    """number to write for `molal` mol/kgw (eq/kgw for Alkalinity) of `el` in `unit` with optional as/gfw"""
    pre, base, den = unit_parts(unit)
    v = molal * PREFIX[pre]
    if base == "g":
        if spec and spec.get("gfw"):
            w = spec["gfw"]
        elif spec and spec.get("as"):
            w = as_weight(db, el, spec["as"])
        else:
            w = db.gfw(el)
        v = v * w
    return v


# documented spellings (PHREEQC manual: abbreviation table gram g / mole mol / liter L / equivalent eq /
# millimole mmol / milliequivalent meq / micromole umol; SOLUTION units: "prefixes milli (m) and micro (u)",
# "either grams or moles", "ppt, ppm, ppb are acceptable in the per kilogram solution group";
# conventions: "as much as possible, the program is case insensitive")
SPELL_PRE = {"": [""], "m": ["m", "milli"], "u": ["u", "micro"]}
SPELL_BASE = {"mol": ["mol", "mole", "moles"], "g": ["g", "gram", "grams"], "eq": ["eq", "equivalent", "equivalents"]}
SPELL_DEN = {"kgw": ["kgw"], "kgs": ["kgs"], "l": ["l", "L", "liter"]}
PARTS_PER = {("", "g", "kgs"): "ppt", ("m", "g", "kgs"): "ppm", ("u", "g", "kgs"): "ppb"}


def spellings(u):
    pre, base, den = unit_parts(u)
    out = []
    for p in SPELL_PRE[pre]:
        for b in SPELL_BASE[base]:
            for d in SPELL_DEN[den]:
                out.append(p + b + "/" + d)
    if (pre, base, den) in PARTS_PER:
        out.extend([PARTS_PER[(pre, base, den)]] * len(out))     # parts-per spellings: half of the picks
    return out


def recase(s, mode):
    if mode == 1:
        return s.upper()
    if mode == 2:
        return s[:1].upper() + s[1:]
    if mode == 3:
        return "".join(c.upper() if i % 2 else c for i, c in enumerate(s))
    return s


# ---------------------------------------------------------------------------------------------- strategies
@st.composite
def solution(draw, n, redox_ok, min_groups=2, max_groups=6, dbname=DB):
    groups = dict(INERT_GROUPS)
    if redox_ok:
        groups.update(REDOX_GROUPS)
    if dbname != DB:
        master = dbparse.load(dbname).master
        groups = {g: [v for v in vs if all(el in master for el, _ in v)] for g, vs in groups.items()}
        groups = {g: vs for g, vs in groups.items() if vs}
    names = draw(st.lists(st.sampled_from(sorted(groups)), min_size=min_groups, max_size=max_groups, unique=True))
    if "Alk" in names and "C" in names:
        names = [g for g in names if g != "C"]      # alkalinity and carbon are alternatives (both: pH is adjusted)
    comps = []
    for g in names:
        variant = draw(st.sampled_from(groups[g]))
        for el, hi in variant:
            comps.append({"el": el, "c": draw(logu(hi * 1e-3, hi)), "opt": ""})
    pH = draw(uni(4.5, 9.5, 3))
    has_alk = any(c["el"] == "Alkalinity" for c in comps)
    if has_alk:
        # a positive alkalinity needs a pH above the CO2 end point (otherwise: "Alkalinity has not converged")
        pH = max(pH, 6.5)
        for c in comps:
            if c["el"] == "Alkalinity":
                c["c"] = max(c["c"], 5e-5)
    pe = draw(st.one_of(st.just(4.0), uni(-3.0, 12.0, 3)))
    pe = round(min(max(pe, 1.5 - pH), 19.0 - pH), 2)
    sol = {"n": n, "pH": pH, "pe": pe, "pH_opt": "",
           "temp": draw(st.one_of(st.just(25.0), uni(5.0, 60.0, 3))),
           "water": draw(st.one_of(st.just(1.0), logu(0.05, 20.0, 3))),
           "comps": comps}
    # Mostly electroneutral waters: a counter-ion (Na or Cl) is added / raised to cancel the rough charge sum.  (Waters
    # without counter-ions are accepted by the engine but are ill-conditioned: e.g. the conductivity model averages over
    # "the cations", which are then only trace species.)
    imbalance = sum(ROUGH_Z.get(c["el"], 0) * c["c"] for c in comps)
    if draw(st.integers(0, 9)) > 0 and abs(imbalance) > 1e-9:
        ion = "Cl" if imbalance > 0 else "Na"
        amt = float("%.4g" % abs(imbalance))
        for c in comps:
            if c["el"] == ion:
                c["c"] = float("%.4g" % (c["c"] + amt))
                break
        else:
            comps.append({"el": ion, "c": amt, "opt": ""})
        imbalance = sum(ROUGH_Z.get(c["el"], 0) * c["c"] for c in comps)
    # explicit charge balance on an ion whose amount has to be raised (a negative requirement does not converge)
    mode = draw(st.integers(0, 3))
    if mode == 1:
        for c in comps:
            z = ROUGH_Z.get(c["el"], 0)
            if c["el"] in ("Na", "K", "Cl", "Br", "Li") and c["c"] > 10 * abs(imbalance):
                c["opt"] = "charge"
                break
    elif mode == 2 and abs(imbalance) < 2e-4 and not has_alk:
        sol["pH_opt"] = "charge"
    els = {c["el"] for c in comps}
    if mode == 3:
        k = draw(st.integers(0, 3))
        if k == 0 and "C(4)" in els:
            sol["pH_opt"] = "CO2(g) %s" % fmt(draw(uni(-3.5, -1.0, 3)))
        elif k == 1 and "C(4)" in els and "Ca" in els:
            [c for c in comps if c["el"] == "Ca"][0]["opt"] = "Calcite %s" % fmt(draw(uni(-1.0, 0.5, 2)))
        elif k == 2 and "Si" in els:
            [c for c in comps if c["el"] == "Si"][0]["opt"] = "Quartz %s" % fmt(draw(uni(-0.5, 0.5, 2)))
        elif k == 3 and "S(6)" in els and "Ba" in els:
            [c for c in comps if c["el"] == "Ba"][0]["opt"] = "Barite 0.0"
    return sol


@st.composite
def unit_spec(draw, sol, mass_bias=0.5):
    """how the concentrations of one solution are written: default unit + per-constituent unit / as / gfw (kgw group)"""
    pool = MOLE_UNITS + MASS_UNITS
    spec = {"def": draw(st.sampled_from(pool)), "per": []}
    for c in sol["comps"]:
        p = {}
        alk = c["el"] == "Alkalinity"
        r = draw(st.integers(0, 9))
        if alk and r < 7:
            # alkalinity has its own unit rules (equivalents; 'as CaCO3' means 50.04 g/eq): exercised often
            p["u"] = draw(st.sampled_from(MASS_UNITS + MASS_UNITS + EQ_UNITS + MOLE_UNITS))
        elif r < 4:
            p["u"] = draw(st.sampled_from(pool))
        unit = p.get("u", spec["def"])
        mass = unit_parts(unit)[1] == "g"
        r = draw(st.integers(0, 9))
        if mass and alk and r < 7:
            p["as"] = draw(st.sampled_from(["CaCO3", "CaCO3", "HCO3", "Ca0.5(CO3)0.5", "CO3"]))
        elif mass and r < 4:
            own = c["el"].split("(")[0]
            cands = AS_GENERIC + ([own] if own != "Alkalinity" else ["HCO3", "CaCO3", "CaCO3"])
            p["as"] = draw(st.sampled_from(cands))
        elif mass and r < 6:
            p["gfw"] = draw(logu(1.0, 400.0, 6))
        elif not mass and r == 0:
            p["as"] = draw(st.sampled_from(AS_GENERIC))     # documented as irrelevant for mole units
        spec["per"].append(p)
    return spec


PLAIN_SPEC = {"def": "mol/kgw", "per": None}


@st.composite
def eq_phases(draw, n, buffer_ok=True, dbname=DB):
    groups = draw(st.lists(st.integers(0, len(EQ_GROUPS) - 1), min_size=1, max_size=4, unique=True))
    ph = []
    db = dbparse.load(dbname)
    for g in groups:
        names, kind = EQ_GROUPS[g]
        names = [x for x in names if db.phase(x) is not None]
        if not names:
            continue
        name = draw(st.sampled_from(names))
        if kind == "gas":
            si = draw(uni(-3.5, -0.5, 3))
            moles = draw(st.sampled_from([10.0, 1.0, 0.1]))
        elif kind == "salt":
            si = 0.0
            moles = draw(logu(1e-4, 0.05, 3))
        else:
            si = draw(st.one_of(st.just(0.0), uni(-0.5, 0.5, 2)))
            moles = draw(st.one_of(st.just(0.0), logu(1e-4, 5.0, 3)))
        ph.append({"name": name, "si": si, "moles": moles})
    if buffer_ok and draw(st.integers(0, 2)) == 0:
        ph.append({"name": "O2(g)", "si": draw(uni(-2.0, -0.5, 2)), "moles": 10.0})
    return {"n": n, "phases": ph}


@st.composite
def reaction(draw, n):
    items = [{"f": fm, "coef": draw(st.one_of(st.just(1.0), uni(0.2, 3.0, 2)))}
             for fm in draw(st.lists(st.sampled_from(RX_FORMULAS), min_size=1, max_size=3, unique=True))]
    if draw(st.booleans()):
        steps = {"amounts": draw(st.lists(logu(1e-5, 5e-3, 3), min_size=1, max_size=3))}
    else:
        steps = {"total": draw(logu(1e-4, 1e-2, 3)), "n": draw(st.integers(1, 3))}
    return {"n": n, "items": items, "steps": steps}


@st.composite
def exchange(draw, n, soln):
    if draw(st.booleans()):
        items = [{"f": fm, "moles": draw(logu(1e-4, 0.3, 3))}
                 for fm in draw(st.lists(st.sampled_from(EX_SPECIES), min_size=1, max_size=3, unique=True))]
        return {"n": n, "items": items, "equil": None}
    return {"n": n, "items": [{"f": "X", "moles": draw(logu(1e-4, 0.5, 3))}], "equil": soln}


@st.composite
def surface(draw, n, soln):
    w = draw(logu(1e-5, 5e-3, 3))
    area, grams = draw(st.sampled_from([600.0, 60.0])), draw(logu(0.01, 5.0, 3))
    sites = [{"f": "Hfo_w", "moles": w, "area": area, "grams": grams}]
    if draw(st.booleans()):
        sites.append({"f": "Hfo_s", "moles": float("%.3g" % (w * 0.025)), "area": area, "grams": grams})
    equil = soln if draw(st.integers(0, 3)) > 0 else None
    if equil is None:
        for s in sites:
            s["f"] += "OH"
    return {"n": n, "sites": sites, "equil": equil, "edl": draw(st.sampled_from(["", "", "-no_edl", "-donnan"]))}


@st.composite
def gas_phase(draw, n, soln):
    comps = [{"g": g, "p": draw(logu(1e-4, 1.0, 3))}
             for g in draw(st.lists(st.sampled_from(GAS_COMPS[:4]), min_size=1, max_size=3, unique=True))]
    fixed = draw(st.sampled_from(["pressure", "volume"]))
    pressure = draw(uni(0.5, 5.0, 3))
    if fixed == "pressure":
        # initial partial pressures add up to the fixed pressure, so that a gas phase exists at the start
        tot = sum(c["p"] for c in comps)
        for c in comps:
            c["p"] = float("%.4g" % (c["p"] * pressure / tot))
    return {"n": n, "fixed": fixed, "pressure": pressure,
            "volume": draw(logu(0.01, 10.0, 3)), "comps": comps,
            "equil": soln if (fixed == "volume" and draw(st.integers(0, 2)) == 0) else None}


@st.composite
def kinetics(draw, n):
    """Only rate laws that the Runge-Kutta integrator integrates exactly (constant rates): with any other law the two
    runs of a pair agree only to the integrator's -tol (the step sequence depends on rounding), which is C12's subject,
    not an invariance (observed: a rate k x TOT("water") gives amounts that differ by 2e-6 relative between f = 1 and
    f = 100 because the accepted step sequence changes).  Rate = k x M0, never exhausting the reactant."""
    rates = []
    time = draw(logu(10.0, 1e5, 3))
    for k, (fm, ph) in enumerate(draw(st.lists(st.sampled_from(KIN_FORMULAS), min_size=1, max_size=2, unique=True))):
        m0 = draw(logu(1e-4, 1e-1, 3))
        m = draw(st.one_of(st.just(m0), logu(1e-4, 1e-1, 3)))
        law = 1     # law 0 (k x TOT("water")) follows the water mass, which moves during the step: 2e-6 scatter observed
        # total amount reacted (mol per kg water resp. per mol M0) stays below 20 % of what is there
        frac = draw(logu(1e-4, 0.2, 3))
        kk = frac * m / time / (20.0 if law == 0 else m0)      # law 0: water <= 20 kg
        rates.append({"name": "Kr%d" % (k + 1), "formula": fm, "phase": ph, "law": law,
                      "m0": m0, "m": m, "k": float("%.3g" % kk), "tol": draw(st.sampled_from([1e-8, 1e-10]))})
    return {"n": n, "rates": rates, "time": time, "steps": draw(st.integers(1, 3))}


KINDS = ["spec", "batch", "exch", "surf", "gas", "kin"]


@st.composite
def model(draw, kind=None, want_mix=False, nsol=None):
    kind = kind or draw(st.sampled_from(KINDS))
    nsol = nsol or draw(st.integers(1, 3))
    redox_ok = kind == "spec" and not want_mix
    numbers = draw(st.lists(st.integers(0, 30), min_size=nsol + 1, max_size=nsol + 1, unique=True))
    # other databases (other gram-formula-weight tables: Alkalinity 50.05 as a number, N(5) as NO3, ...) where the
    # reactant pools exist in them
    dbname = draw(st.sampled_from([DB, DB, DB, "wateq4f.dat", "Amm.dat"])) if kind != "gas" else DB
    sols = [draw(solution(numbers[i], redox_ok, dbname=dbname)) for i in range(nsol)]
    m = {"db": dbname, "kind": kind, "sols": sols, "eq": None, "rx": None, "ex": None, "su": None, "gas": None, "kin": None,
         "save": None, "st2": None, "mixn": draw(st.integers(0, 30))}
    # what enters the reaction of simulation 1
    if want_mix or (kind != "spec" and nsol > 1 and draw(st.booleans())):
        k = draw(st.integers(1, nsol))
        if want_mix:
            k = max(k, min(2, nsol))
        srcs = draw(st.permutations(list(range(nsol))))[:k]
        m["src"] = [[sols[i]["n"], draw(st.one_of(st.just(1.0), uni(0.05, 2.0, 3)))] for i in srcs]
        if len(m["src"]) == 1 and not want_mix:
            m["src"][0][1] = 1.0
    else:
        m["src"] = [[sols[draw(st.integers(0, nsol - 1))]["n"], 1.0]]
    first = m["src"][0][0]
    rn = draw(st.lists(st.integers(0, 30), min_size=8, max_size=8, unique=True))
    if kind == "batch":
        which = draw(st.sampled_from(["eq", "rx", "both"]))
        if which in ("eq", "both"):
            m["eq"] = draw(eq_phases(rn[0], dbname=dbname))
        if which in ("rx", "both"):
            m["rx"] = draw(reaction(rn[1]))
    elif kind == "exch":
        m["ex"] = draw(exchange(rn[2], first))
    elif kind == "surf":
        m["su"] = draw(surface(rn[3], first))
    elif kind == "gas":
        m["gas"] = draw(gas_phase(rn[4], first))
    elif kind == "kin":
        m["kin"] = draw(kinetics(rn[5]))
    if kind in ("exch", "surf", "gas", "kin") and draw(st.integers(0, 2)) == 0:
        # a second reactant of another kind
        if draw(st.booleans()):
            m["eq"] = draw(eq_phases(rn[0], dbname=dbname))
        else:
            m["rx"] = draw(reaction(rn[1]))
    has_reaction = kind != "spec" or len(m["src"]) > 1 or m["src"][0][1] != 1.0
    m["has_reaction"] = has_reaction
    if has_reaction:
        # reaction rows are not redox-poised: the solutions must not carry a real inventory of H2 or O2 (pe + pH in 9..15),
        # otherwise C(4)/C(-4) and S(6)/S(-2) are coupled to an ill-conditioned electron balance (DESIGN 4, rule 7)
        for s in sols:
            s["pe"] = round(min(max(s["pe"], 9.0 - s["pH"]), 15.0 - s["pH"]), 2)
    if has_reaction and draw(st.integers(0, 2)) == 0:
        m["save"] = numbers[nsol]
        st2 = {"src": [[m["save"], 1.0]], "eq": None, "rx": None, "mixn": draw(st.integers(31, 40))}
        r = draw(st.integers(0, 2))
        if r == 0 or nsol == 0:
            st2["rx"] = draw(reaction(rn[6]))
        elif r == 1:
            st2["eq"] = draw(eq_phases(rn[7], dbname=dbname))
        else:
            other = sols[draw(st.integers(0, nsol - 1))]["n"]
            st2["src"] = [[m["save"], draw(uni(0.1, 1.5, 2))], [other, draw(uni(0.1, 1.5, 2))]]
            st2["rx"] = draw(st.one_of(st.none(), reaction(rn[6])))
        m["st2"] = st2
    return m


@st.composite
def cells_model(draw):
    """>= 2 cells (solution n + EQUILIBRIUM_PHASES n') that share the element set and the phase SET but differ in target
    SI, amounts and dissolve_only flags.  All solutions are defined (and their initial-solution calculations done) in
    simulation 1; the cells are reacted afterwards either by one RUN_CELLS block or by consecutive USE ... END simulations,
    with nothing in between that would make the engine rebuild its model."""
    k = draw(st.integers(2, 4))
    numbers = draw(st.lists(st.integers(0, 30), min_size=k, max_size=k, unique=True))
    enumbers = draw(st.lists(st.integers(0, 30), min_size=k, max_size=k, unique=True))
    mode = draw(st.sampled_from(["run_cells", "use"]))
    if mode == "run_cells":
        enumbers = list(numbers)
    base = draw(solution(numbers[0], False, min_groups=3, max_groups=6))
    sols = [base]
    for i in range(1, k):
        s = {"n": numbers[i], "pH": draw(uni(5.0, 9.0, 3)), "pe": 4.0, "pH_opt": "", "temp": draw(st.sampled_from([25.0, base["temp"]])),
             "water": draw(st.one_of(st.just(1.0), logu(0.2, 5.0, 3))),
             "comps": [{"el": c["el"], "c": float("%.4g" % (c["c"] * draw(logu(0.3, 3.0, 3)))), "opt": ""} for c in base["comps"]]}
        sols.append(s)
    for s in sols:
        s["pe"] = round(min(max(s["pe"], 9.0 - s["pH"]), 15.0 - s["pH"]), 2)
        s["pH_opt"] = "" if s is not base else s["pH_opt"]
    first = draw(eq_phases(enumbers[0], buffer_ok=False))["phases"]
    dbx = dbparse.load(DB)
    present = {("C" if c["el"] == "Alkalinity" else c["el"].split("(")[0]) for c in base["comps"]}
    cells = []
    for i in range(k):
        ph = []
        for p0 in first:
            gas = p0["name"].endswith("(g)")
            q = {"name": p0["name"],
                 "si": p0["si"] if i == 0 else (draw(uni(-3.5, -0.5, 3)) if gas else draw(st.sampled_from([0.0, 0.4, -0.3, 0.2]))),
                 "moles": p0["moles"] if i == 0 else draw(st.sampled_from([0.0, 0.01, 1.0, p0["moles"]])),
                 "flag": "" if gas else draw(st.sampled_from(["", "", "", "dissolve_only", "precipitate_only"]))}
            if q["flag"] == "dissolve_only" and q["moles"] == 0.0:
                q["moles"] = 0.01
            # a phase whose elements are not all in the water must be able to dissolve ("Pure phase has not converged")
            pel = set(dbx.phase(q["name"]).elements) - {"H", "O"}
            if not pel <= present:
                q["flag"] = "" if q["flag"] == "precipitate_only" else q["flag"]
                q["moles"] = q["moles"] if q["moles"] > 0 else 0.01
            ph.append(q)
        cells.append({"n": numbers[i], "en": enumbers[i], "phases": ph})
    return {"db": DB, "kind": "cells", "mode": mode, "sols": sols, "cells": cells, "eq": None, "rx": None, "ex": None, "su": None,
            "gas": None, "kin": None, "save": None, "st2": None, "mixn": 0, "src": [[numbers[0], 1.0]], "has_reaction": True}


@st.composite
def cells_renumbering(draw, m):
    olds = [c["n"] for c in m["cells"]]
    news = draw(st.lists(st.integers(0, 60), min_size=len(olds), max_size=len(olds), unique=True))
    smap = [[o, n] for o, n in zip(olds, news)]
    if m["mode"] == "run_cells":
        emap = [list(x) for x in smap]
    else:
        enews = draw(st.lists(st.integers(0, 60), min_size=len(olds), max_size=len(olds), unique=True))
        emap = [[c["en"], n] for c, n in zip(m["cells"], enews)]
    return {"solution": smap, "equilibrium_phases": emap, "mix": []}


def keys_list(n=24):
    return st.lists(st.integers(0, 99), min_size=n, max_size=n)


@st.composite
def renumbering(draw, m):
    """bijective maps old -> new per entity kind (solutions incl. the saved number; mixes; every reactant kind)"""
    def bij(olds):
        olds = sorted(set(olds))
        news = draw(st.lists(st.integers(0, 60), min_size=len(olds), max_size=len(olds), unique=True))
        return [[o, n] for o, n in zip(olds, news)]
    num = {"solution": bij([s["n"] for s in m["sols"]] + ([m["save"]] if m["save"] is not None else []))}
    num["mix"] = bij([m["mixn"]] + ([m["st2"]["mixn"]] if m["st2"] else []))
    for key, kw in (("eq", "equilibrium_phases"), ("rx", "reaction"), ("ex", "exchange"), ("su", "surface"),
                    ("gas", "gas_phase"), ("kin", "kinetics")):
        olds = [m[key]["n"]] if m[key] else []
        if m["st2"] and m["st2"].get(key):
            olds.append(m["st2"][key]["n"])
        num[kw] = bij(olds)
    return num


FAMILIES = ["U", "U1", "W", "N", "P", "R", "M", "S"]


@st.composite
def case(draw, fam=None, kind=None):
    fam = fam or draw(st.sampled_from(FAMILIES))
    if fam in ("N", "P") and kind is None and draw(st.integers(0, 2)) == 0:
        m = draw(cells_model())
    elif fam == "M":
        kind = kind or draw(st.sampled_from(["batch", "batch", "exch", "surf", "gas", "kin", "spec"]))
        m = draw(model(kind, want_mix=True))
    else:
        if fam in ("U", "U1", "S") and kind is None:
            kind = draw(st.sampled_from(["spec", "spec", "spec", "batch", "exch", "surf", "gas", "kin"]))
        m = draw(model(kind))
    # units of view A (both views share them unless the family is about units)
    plain = draw(st.integers(0, 3)) == 0 and fam not in ("U", "U1")
    ua = [dict(PLAIN_SPEC) if plain else draw(unit_spec(s)) for s in m["sols"]]
    c = {"fam": fam, "model": m, "ua": ua, "xf": {}}
    if fam == "U":
        c["xf"]["ub"] = [draw(unit_spec(s)) for s in m["sols"]]
    elif fam == "U1":
        # any unit group (per litre, per kg solution, per kg water): both views use the same numbers
        grp = draw(st.sampled_from(["kgw", "kgs", "l"]))
        if grp != "kgw":
            for sp in ua:
                sp["def"] = sp["def"].replace("kgw", grp)
                for p in sp["per"] or []:
                    if "u" in p:
                        p["u"] = p["u"].replace("kgw", grp)
        if grp == "l":
            c["xf"]["density"] = draw(st.sampled_from([None, 1.0, 1.02]))
        c["xf"]["spell"] = draw(st.lists(st.integers(0, 11), min_size=12, max_size=12))
        c["xf"]["case"] = draw(st.lists(st.integers(0, 3), min_size=12, max_size=12))
    elif fam == "W":
        # never 1 (Hypothesis likes the simple value): |log10 f| in [0.02, 3]
        lg = draw(st.integers(2, 300)) / 100.0 * draw(st.sampled_from([-1.0, 1.0]))
        c["xf"]["f"] = float("%.4g" % (10.0 ** lg))
    elif fam == "N":
        c["xf"]["num"] = draw(cells_renumbering(m)) if m.get("cells") else draw(renumbering(m))
    elif fam == "P":
        c["xf"]["bkeys"] = draw(keys_list())
        c["xf"]["ikeys"] = draw(keys_list())
    elif fam == "R":
        c["xf"]["dups"] = draw(st.lists(st.tuples(st.integers(0, 40), st.integers(0, 40)).map(list), min_size=1, max_size=3))
    elif fam == "S":
        c["xf"]["sopt"] = draw(st.lists(st.integers(0, 1), min_size=12, max_size=12))
    elif fam == "M":
        nsrc = len(m["src"])
        c["xf"]["parts"] = [draw(st.lists(st.integers(1, 9), min_size=1, max_size=3)) for _ in range(nsrc)]
        c["xf"]["copies"] = [[draw(st.integers(0, 2)) == 0 for _ in p] for p in c["xf"]["parts"]]
        c["xf"]["keys"] = draw(keys_list(12))
        c["xf"]["scaleA"] = draw(st.booleans())
        extra = draw(st.integers(0, 5))
        if extra in (0, 1):
            c["xf"]["num"] = draw(renumbering(m))
        if extra in (1, 2):
            c["xf"]["bkeys"] = draw(keys_list())
            c["xf"]["ikeys"] = draw(keys_list())
    return c


# ---------------------------------------------------------------------------------------------- rendering
def _block(head, opts=None, items=None, tag=""):
    return {"head": head, "opts": list(opts or []), "items": list(items or []), "tag": tag}


def _num(view, kind, n):
    return view.get("num", {}).get(kind, {}).get(n, n)


def _sol_block(db, s, spec, view, number, k):
    """SOLUTION block of model solution s (k = index in model['sols'])"""
    f = view.get("f", 1.0)
    opts = []
    if s["temp"] != 25.0:
        opts.append(" temp %s" % fmt(s["temp"]))
    opts.append(" pH %s%s" % (fmt(s["pH"]), (" " + s["pH_opt"]) if s["pH_opt"] else ""))
    opts.append(" pe %s" % fmt(s["pe"]))
    sp = view.get("spell")
    defu = spec["def"]
    opts.append(" units %s" % (sp(k, -1, defu) if sp else defu))
    if view.get("density"):
        opts.append(" density %s" % fmt(view["density"]))
    w = s["water"] * f * view.get("sol_scale", {}).get(s["n"], 1.0)
    if w != 1.0 or view.get("always_water"):
        opts.append(" -water %s" % fmt(w))
    items = []
    for j, c in enumerate(s["comps"]):
        p = (spec["per"][j] if spec.get("per") else None) or {}
        unit = p.get("u", defu)
        val = input_value(db, c["el"], c["c"], unit, p)
        t = " %s %s" % (c["el"], fmt(val))
        if "u" in p:
            t += " " + (sp(k, j, p["u"]) if sp else p["u"])
        if p.get("as"):
            t += " as " + p["as"]
        elif p.get("gfw"):
            t += " gfw " + fmt(p["gfw"])
        if c["opt"]:
            t += " " + c["opt"]
        items.append(t)
    return _block("SOLUTION %d" % number, opts, items, "solution")


def _spread_block(db, sols, specs, view, numbers, ks):
    """the same solutions as one SOLUTION_SPREAD block (tab-delimited; one row per solution).  Several rows only for
    solutions written without per-constituent options (the sub-heading line applies to the whole column)."""
    f = view.get("f", 1.0)
    spec = specs[0]
    opts = [" -units %s" % spec["def"]]
    heads = ["Number", "pH", "pe", "temp", "water"]
    cols = []
    for s in sols:
        for c in s["comps"]:
            if c["el"] not in cols:
                cols.append(c["el"])
    sub = {}
    rows = []
    for s, sp, number in zip(sols, specs, numbers):
        row = {"Number": "%d" % number, "pH": fmt(s["pH"]), "pe": fmt(s["pe"]), "temp": fmt(s["temp"]),
               "water": fmt(s["water"] * f * view.get("sol_scale", {}).get(s["n"], 1.0))}
        if s["pH_opt"]:
            sub["pH"] = s["pH_opt"]
        for j, c in enumerate(s["comps"]):
            p = (sp["per"][j] if sp.get("per") else None) or {}
            unit = p.get("u", sp["def"])
            row[c["el"]] = fmt(input_value(db, c["el"], c["c"], unit, p))
            t = []
            if "u" in p:
                t.append(p["u"])
            if p.get("as"):
                t.append("as " + p["as"])
            elif p.get("gfw"):
                t.append("gfw " + fmt(p["gfw"]))
            if c["opt"]:
                t.append(c["opt"])
            if t:
                sub[c["el"]] = " ".join(t)
        rows.append(row)
    # The identifiers of the block (-pH, -pe, -temp, -water) are a third, equivalent writing of what a column or a SOLUTION
    # option says: "will be used for all subsequent solutions in the data block if no column has the heading ... or if the
    # entry for the column is empty".  Per option: column (0) or block-level value of the first row, with a column only
    # when another row differs (cells equal to the block value left empty).
    so = view.get("sopt")
    if so:
        for j, h in enumerate(["pH", "pe", "temp", "water"]):
            if so[(ks[0] * 4 + j) % len(so)] % 2 == 0 or (h == "pH" and "pH" in sub):
                continue
            v0 = rows[0][h]
            opts.append(" -%s %s" % (h, v0))
            if all(r[h] == v0 for r in rows):
                heads.remove(h)
            else:
                for r in rows:
                    if r[h] == v0:
                        r[h] = ""
    allh = heads + cols
    lines = ["\t".join(allh)]
    if sub:
        lines.append("\t".join(sub.get(h, "") for h in allh))
    for row in rows:
        lines.append("\t".join(row.get(h, "") for h in allh))
    return {"head": "SOLUTION_SPREAD", "opts": opts, "items": [], "tail": lines, "tag": "spread"}


def spread_groups(m, specs):
    """indices of model solutions that share one SOLUTION_SPREAD block"""
    simple = [k for k, s in enumerate(m["sols"])
              if not s["pH_opt"] and not any(c["opt"] for c in s["comps"]) and not specs[k].get("per")]
    groups = []
    if len(simple) >= 2 and len({specs[k]["def"] for k in simple}) == 1:
        groups.append(simple)
    else:
        simple = []
    for k in range(len(m["sols"])):
        if k not in simple:
            groups.append([k])
    return groups


def _reactant_blocks(m, st, view, simno):
    """blocks + USE lines for the reactants of one stage (st is the model itself for stage 1)"""
    f = view.get("f", 1.0)
    out, uses = [], []
    e = st.get("eq")
    if e:
        n = _num(view, "equilibrium_phases", e["n"])
        out.append(_block("EQUILIBRIUM_PHASES %d" % n, [],
                          [" %s %s %s" % (p["name"], fmt(p["si"]), fmt(p["moles"] * f)) for p in e["phases"]], "eq"))
        uses.append("USE equilibrium_phases %d" % n)
    r = st.get("rx")
    if r:
        n = _num(view, "reaction", r["n"])
        s = r["steps"]
        if "amounts" in s:
            last = " " + " ".join(fmt(a * f) for a in s["amounts"]) + " moles"
        else:
            last = " %s moles in %d steps" % (fmt(s["total"] * f), s["n"])
        b = _block("REACTION %d" % n, [], [" %s %s" % (i["f"], fmt(i["coef"])) for i in r["items"]], "rx")
        b["tail"] = [last]
        out.append(b)
        uses.append("USE reaction %d" % n)
    x = st.get("ex")
    if x:
        n = _num(view, "exchange", x["n"])
        opts = [" -equilibrate %d" % _num(view, "solution", x["equil"])] if x["equil"] is not None else []
        out.append(_block("EXCHANGE %d" % n, opts, [" %s %s" % (i["f"], fmt(i["moles"] * f)) for i in x["items"]], "ex"))
        uses.append("USE exchange %d" % n)
    s = st.get("su")
    if s:
        n = _num(view, "surface", s["n"])
        opts = [" -equilibrate %d" % _num(view, "solution", s["equil"])] if s["equil"] is not None else []
        if s["edl"]:
            opts.append(" " + s["edl"])
        items = []
        for i in s["sites"]:
            t = " %s %s" % (i["f"], fmt(i["moles"] * f))
            if "area" in i:
                t += " %s %s" % (fmt(i["area"]), fmt(i["grams"] * f))
            items.append(t)
        out.append(_block("SURFACE %d" % n, opts, items, "su"))
        uses.append("USE surface %d" % n)
    g = st.get("gas")
    if g:
        n = _num(view, "gas_phase", g["n"])
        opts = [" -fixed_%s" % g["fixed"], " -pressure %s" % fmt(g["pressure"]), " -volume %s" % fmt(g["volume"] * f),
                " -temperature 25"]
        if g["equil"] is not None:
            opts.append(" -equilibrate %d" % _num(view, "solution", g["equil"]))
            items = [" %s" % c["g"] for c in g["comps"]]
        else:
            items = [" %s %s" % (c["g"], fmt(c["p"])) for c in g["comps"]]
        out.append(_block("GAS_PHASE %d" % n, opts, items, "gas"))
        uses.append("USE gas_phase %d" % n)
    k = st.get("kin")
    if k:
        n = _num(view, "kinetics", k["n"])
        items = []
        for r in k["rates"]:
            items.append(" %s\n  -formula %s 1\n  -m %s\n  -m0 %s\n  -parms %s\n  -tol %s" % (
                r["name"], r["formula"], fmt(r["m"] * f), fmt(r["m0"] * f), fmt(r["k"]), fmt(r["tol"] * f)))
        b = _block("KINETICS %d" % n, [], items, "kin")
        b["tail"] = [" -steps %s in %d steps" % (fmt(k["time"]), k["steps"]), " -cvode false"]
        out.append(b)
        uses.append("USE kinetics %d" % n)
        rl = []
        for r in k["rates"]:
            if r["law"] == 0:
                law = "10 rate = PARM(1) * TOT(\"water\")"
            else:
                law = "10 rate = PARM(1) * M0"
            rl.append(" %s\n -start\n %s\n 20 moles = rate * TIME\n 30 SAVE moles\n -end" % (r["name"], law))
        out.append(_block("RATES", [], rl, "rates"))
    return out, uses


def _mix_items(src, view, mixB, sim):
    """-> (list of (solution number (model numbering), fraction), extra copies {new model number: original})"""
    if not mixB or sim != 1:
        sc = view.get("sol_scale", {}) if sim == 1 else {}
        return [(n, 1.0 if n in sc else fr) for n, fr in src], {}
    items, copies = [], {}
    nextn = 900
    for i, (n, fr) in enumerate(src):
        parts = mixB["parts"][i]
        tot = float(sum(parts))
        for j, p in enumerate(parts):
            num = n
            if mixB["copies"][i][j]:
                num = nextn
                copies[num] = n
                nextn += 1
            items.append((num, fr * p / tot))
    keys = mixB["keys"]
    order = sorted(range(len(items)), key=lambda q: (keys[q % len(keys)], q))
    return [items[q] for q in order], copies


def punch_block(exprs):
    lines = ["USER_PUNCH 1", " -headings " + " ".join("q%d" % i for i in range(len(exprs))), " -start"]
    ln = 10
    for i in range(0, len(exprs), 6):
        lines.append(" %d PUNCH %s" % (ln, ", ".join(e for e in exprs[i:i + 6])))
        ln += 10
    lines.append(" -end")
    return "\n".join(lines)


SELOUT = "SELECTED_OUTPUT 1\n -reset false\n -simulation true\n -state true\n -solution true\n -step true"
KNOBS = "KNOBS\n -convergence_tolerance 1e-13\n -iterations 400"


def render_cells(m, spec, view, exprs):
    db = dbparse.load(m["db"])
    bk, ik = view.get("bkeys"), view.get("ikeys")

    def arrange(blocks, off):
        if ik:
            for bi, b in enumerate(blocks):
                n = len(b["items"])
                order = sorted(range(n), key=lambda j: (ik[(bi * 5 + j + off) % len(ik)], j))
                b["items"] = [b["items"][j] for j in order]
        if bk:
            order = sorted(range(len(blocks)), key=lambda i: (bk[(i + off) % len(bk)], i))
            blocks = [blocks[i] for i in order]
        for which, where in view.get("dups") or []:
            blocks.insert(where % (len(blocks) + 1), blocks[which % len(blocks)])
        return "\n".join("\n".join([b["head"]] + b["opts"] + b["items"] + b.get("tail", [])) for b in blocks)

    b1 = [{"head": KNOBS, "opts": [], "items": [], "tag": "knobs"}, {"head": SELOUT, "opts": [], "items": [], "tag": "selout"},
          {"head": punch_block(exprs), "opts": [], "items": [], "tag": "punch"}]
    for k, s in enumerate(m["sols"]):
        b1.append(_sol_block(db, s, spec[k], view, _num(view, "solution", s["n"]), k))
    sims = [arrange(b1, 0) + "\nEND"]
    b2 = []
    for c in m["cells"]:
        items = [" %s %s %s%s" % (p["name"], fmt(p["si"]), fmt(p["moles"]), (" " + p["flag"]) if p["flag"] else "") for p in c["phases"]]
        b2.append(_block("EQUILIBRIUM_PHASES %d" % _num(view, "equilibrium_phases", c["en"]), [], items, "eq"))
    # order in which the cells are listed / reacted
    order = list(range(len(m["cells"])))
    if bk:
        order = sorted(order, key=lambda i: (bk[(i + 7) % len(bk)], i))
    if m["mode"] == "run_cells":
        b2.append(_block("RUN_CELLS", [" -cells " + " ".join("%d" % _num(view, "solution", m["cells"][i]["n"]) for i in order)], [], "run"))
        sims.append(arrange(b2, 3) + "\nEND")
    else:
        sims.append(arrange(b2, 3) + "\nEND")
        for i in order:
            c = m["cells"][i]
            u = [_block("USE solution %d" % _num(view, "solution", c["n"]), tag="use"),
                 _block("USE equilibrium_phases %d" % _num(view, "equilibrium_phases", c["en"]), tag="use")]
            if bk and bk[(i + 13) % len(bk)] % 2:
                u.reverse()
            sims.append("\n".join(b["head"] for b in u) + "\nEND")
    return "\n".join(sims) + "\n"


def render(m, spec, view, exprs):
    """-> input text of the model under a view.
    view keys: f, num {kind: {old: new}}, spell (callable), density, bkeys, ikeys, dups, mixB"""
    if m.get("cells"):
        return render_cells(m, spec, view, exprs)
    db = dbparse.load(m["db"])
    sims = []
    mixB = view.get("mixB")
    for simno, stg in ((1, m), (2, m.get("st2"))):
        if stg is None:
            continue
        blocks = []
        if simno == 1:
            blocks.append({"head": KNOBS, "opts": [], "items": [], "tag": "knobs"})
            blocks.append({"head": SELOUT, "opts": [], "items": [], "tag": "selout"})
            blocks.append({"head": punch_block(exprs), "opts": [], "items": [], "tag": "punch"})
        src = stg["src"]
        items, copies = _mix_items(src, view, mixB, simno)
        if simno == 1 and view.get("spread"):
            for grp in spread_groups(m, spec):
                blocks.append(_spread_block(db, [m["sols"][k] for k in grp], [spec[k] for k in grp], view,
                                            [_num(view, "solution", m["sols"][k]["n"]) for k in grp], grp))
        elif simno == 1:
            for k, s in enumerate(m["sols"]):
                blocks.append(_sol_block(db, s, spec[k], view, _num(view, "solution", s["n"]), k))
                for newn, orig in sorted(copies.items()):
                    if orig == s["n"]:
                        blocks.append(_sol_block(db, s, spec[k], view, newn, k))
        rb, uses = _reactant_blocks(m, stg, view, simno)
        blocks.extend(rb)
        direct = len(items) == 1 and items[0][1] == 1.0 and not (mixB and simno == 1)
        if view.get("force_mix") and simno == 1:
            direct = False
        if direct:
            blocks.append(_block("USE solution %d" % _num(view, "solution", items[0][0]), tag="use"))
        else:
            mn = _num(view, "mix", stg["mixn"])
            blocks.append(_block("MIX %d" % mn, [], [" %d %s" % (_num(view, "solution", n), fmt(fr)) for n, fr in items], "mix"))
            blocks.append(_block("USE mix %d" % mn, tag="use"))
        has_reaction = bool(uses) or not direct
        if has_reaction:
            for u in uses:
                blocks.append(_block(u, tag="use"))
            if simno == 1 and m.get("save") is not None:
                blocks.append(_block("SAVE solution %d" % _num(view, "solution", m["save"]), tag="save"))
        else:
            blocks = [b for b in blocks if b["tag"] != "use"]
        # P: order of the constituents inside a block, then of the blocks
        ik = view.get("ikeys")
        if ik:
            for bi, b in enumerate(blocks):
                if b["tag"] == "mix" and view.get("keep_mix_order"):
                    continue
                n = len(b["items"])
                order = sorted(range(n), key=lambda j: (ik[(bi * 5 + j) % len(ik)], j))
                b["items"] = [b["items"][j] for j in order]
        bk = view.get("bkeys")
        if bk:
            order = sorted(range(len(blocks)), key=lambda i: (bk[(i + 11 * (simno - 1)) % len(bk)], i))
            blocks = [blocks[i] for i in order]
        # R: identical copies of whole blocks
        for which, where in view.get("dups") or []:
            if simno == 2:
                which, where = where, which
            b = blocks[which % len(blocks)]
            blocks.insert(where % (len(blocks) + 1), b)
        text = []
        for b in blocks:
            text.append("\n".join([b["head"]] + b["opts"] + b["items"] + b.get("tail", [])))
        sims.append("\n".join(text) + "\nEND")
    return "\n".join(sims) + "\n"
