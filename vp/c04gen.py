"""Generator of multi-simulation PHREEQC programs for C04 (results do not depend on delivery / splitting).

`program()` -> {"db": "phreeqc.dat", "sims": [text ending in END, ...], "feats": [labels]}

A program has 3-8 simulations.  A generation-time model of the instance (which numbered entities, rates, calculate-values,
database additions and selected-output definitions exist after each simulation) guarantees that every reference made by a
simulation is satisfied by an *earlier* definition (or one in the same simulation), so the whole text runs error-free and
later simulations depend on what earlier ones left behind:

  late references      SELECTED_OUTPUT lists and USER_PUNCH may name additions (Zz, ZzCl, Zzite, NaY; Calcite_b, MgCl+) that only a
                       LATER simulation defines: the engine must re-resolve the names when the model changes
  global definitions   TITLE, KNOBS, PRINT -selected_output, INCREMENTAL_REACTIONS, RATES (+ redefinition), CALCULATE_VALUES
                       (+ redefinition), database additions (SOLUTION_MASTER_SPECIES Zz, SOLUTION_SPECIES, PHASES Zzite,
                       EXCHANGE_MASTER_SPECIES Y, EXCHANGE_SPECIES; + redefinition of log_k), SELECTED_OUTPUT n / USER_PUNCH n
                       (n in 1,2,5; redefinition; USER_PUNCH with PUT/GET memory and CALC_VALUE)
  entities             SOLUTION, EQUILIBRIUM_PHASES, EXCHANGE, SURFACE, GAS_PHASE, SOLID_SOLUTIONS, KINETICS, REACTION,
                       REACTION_TEMPERATURE, MIX  (chemistry from vp.cellgen)
  actions              batch reaction (USE ... SAVE ...), implicit reaction of entities defined in the simulation, MIX,
                       COPY, DELETE, RUN_CELLS, ADVECTION

Never generated (allowed differences / outside the statement): SIM_NO, DESCRIPTION (holds "after simulation N"), -file options.
"""
from hypothesis import strategies as st
from . import chemgen as cg
from . import cellgen as CG

DB = "phreeqc.dat"
fmt = cg.fmt

SO_FLAGS = ["simulation", "state", "solution", "time", "step", "ph", "pe", "reaction", "temperature", "alkalinity",
            "ionic_strength", "water", "charge_balance", "percent_error", "distance"]
SO_LISTS = {
    "totals": ["Na", "Cl", "Ca", "C(4)", "K", "Mg", "S(6)", "Sr"],
    "molalities": ["Na+", "Cl-", "Ca+2", "HCO3-", "CO3-2", "OH-", "CaX2", "NaX", "Hfo_wOH"],
    "activities": ["Na+", "Cl-", "Ca+2", "H+", "H2O"],
    "equilibrium_phases": ["Calcite", "Gypsum", "CO2(g)", "Halite", "Dolomite", "Quartz"],
    "saturation_indices": ["Calcite", "Gypsum", "CO2(g)", "Halite", "Aragonite"],
    "gases": ["CO2(g)", "N2(g)", "O2(g)"],
    "kinetic_reactants": ["r_first", "r_const", "r_ratio"],
    "solid_solutions": ["Calcite", "Strontianite", "Barite"],
}
# names that only exist after a database-addition block: "zz" = new element Zz with ion pair, phase, exchanger Y;
# "lb" = additions on an existing reaction basis (phase Calcite_b = CaCO3, ion pair MgCl+).  SELECTED_OUTPUT / USER_PUNCH may
# name them BEFORE the block that defines them (the engine warns and punches -999.999 / 0 until the name exists).
ZZ_LISTS = {"totals": ["Zz"], "molalities": ["ZzCl", "NaY", "ZzX"], "saturation_indices": ["Zzite"],
            "equilibrium_phases": ["Zzite"], "activities": ["ZzCl"]}
LB_LISTS = {"molalities": ["MgCl+"], "activities": ["MgCl+"], "saturation_indices": ["Calcite_b"],
            "equilibrium_phases": ["Calcite_b"]}
ZZ_PUNCH = ['TOT("Zz")', 'MOL("ZzCl")', 'SI("Zzite")', 'MOL("NaY")', 'LA("ZzCl")']
LB_PUNCH = ['SI("Calcite_b")', 'MOL("MgCl+")', 'LA("MgCl+")', 'EQUI("Calcite_b")']
PUNCH_EXPR = ['TOT("Na")', 'TOT("Cl")', 'TOT("Ca")', 'MOL("Ca+2")', 'MOL("HCO3-")', '-LA("H+")', 'LA("e-")', "MU", "TC",
              'SI("Calcite")', 'SI("Gypsum")', 'EQUI("Calcite")', 'KIN("r_first")', 'KIN("r_const")', "STEP_NO", "TOTAL_TIME",
              'TOT("water")', "CHARGE_BALANCE", "PERCENT_ERROR", 'ALK', 'SC', 'RHO', 'GAS("CO2(g)")', 'TOTMOLE("Na")',
              'SURF("Hfo", "Hfo")', 'EDL("charge", "Hfo")', 'S_S("Calcite")', 'SYS("Ca")', "SOLN_VOL", "CELL_NO", "TIME"]
USERS = [1, 1, 2, 5]


class Model(object):
    """what exists in the instance after the simulations generated so far"""

    def __init__(self):
        self.ent = {k: set() for k in ("solution", "equilibrium_phases", "exchange", "surface", "gas_phase", "solid_solutions",
                                       "kinetics", "reaction", "reaction_temperature", "mix")}
        self.rates = False
        self.calc = False
        self.zz = False
        self.lb = False         # Calcite_b / MgCl+ defined
        self.pending = set()    # (addition, user number) named by a selected output before the addition exists
        self.punch = True       # PRINT -selected_output
        self.incr = False       # INCREMENTAL_REACTIONS currently true
        self.so = set()
        self.temp = {}          # solution number -> temperature (for gas phases)
        self.feats = set()


ZZ_NAMES = {"Zz", "ZzCl", "NaY", "ZzX", "Zzite"}
LB_NAMES = {"MgCl+", "Calcite_b"}


def _note_refs(M, n, names):
    """remember which selected-output user numbers name an addition that does not exist yet"""
    for nm in names:
        if nm in ZZ_NAMES:
            M.feats.add("selected_output_names_zz_addition")
            if not M.zz:
                M.pending.add(("zz", n))
        if nm in LB_NAMES:
            M.feats.add("selected_output_names_basis_addition")
            if not M.lb:
                M.pending.add(("lb", n))


def _bool(draw, p_num, p_den):
    return draw(st.integers(0, p_den - 1)) < p_num


# ----------------------------------------------------------------------------------------------- global definitions
def knobs(draw):
    L = ["KNOBS"]
    for opt, vals in (("iterations", [150, 250, 400]), ("convergence_tolerance", [1e-8, 1e-10, 1e-12]),
                      ("step_size", [10, 50, 100]), ("pe_step_size", [5, 10]), ("tolerance", [1e-15, 1e-14])):
        if draw(st.booleans()):
            L.append(" -%s %s" % (opt, fmt(draw(st.sampled_from(vals)))))
    if len(L) == 1:
        L.append(" -convergence_tolerance 1e-12")
    return "\n".join(L)


def rates_redef(draw):
    f = draw(st.sampled_from([0.5, 2.0, 3.0]))
    return ("RATES\n r_const\n -start\n 10 if (m <= 0) then goto 30\n 20 rate = parm(1) * %s\n 30 save rate * time\n -end" % fmt(f))


def calc_values(draw):
    f = draw(st.sampled_from([1.0, 2.0, 0.5, 10.0]))
    e = draw(st.sampled_from(['TOT("Na")', 'TOT("Cl")', 'MOL("Ca+2")', "MU"]))
    return "CALCULATE_VALUES\n cv1\n -start\n 10 save %s * %s + TOT(\"K\")\n -end" % (e, fmt(f))


def db_additions(draw, first):
    k = [draw(cg.uni(-1.0, 1.0, 2)) for _ in range(4)]
    if not first:
        # redefinition of constants only
        return ("SOLUTION_SPECIES\n Zz+ + Cl- = ZzCl\n  log_k %s\nPHASES\n Zzite\n  ZzCl = Zz+ + Cl-\n  log_k %s\n"
                "EXCHANGE_SPECIES\n K+ + Y- = KY\n  log_k %s" % (fmt(k[0]), fmt(k[1] - 2.0), fmt(k[2])))
    return ("SOLUTION_MASTER_SPECIES\n Zz Zz+ 0 Zz 50\nSOLUTION_SPECIES\n Zz+ = Zz+\n  log_k 0\n Zz+ + Cl- = ZzCl\n  log_k %s\n"
            "PHASES\n Zzite\n  ZzCl = Zz+ + Cl-\n  log_k %s\n"
            "EXCHANGE_MASTER_SPECIES\n Y Y-\nEXCHANGE_SPECIES\n Y- = Y-\n  log_k 0\n Na+ + Y- = NaY\n  log_k 0\n K+ + Y- = KY\n  log_k %s\n"
            " Ca+2 + 2Y- = CaY2\n  log_k %s\n Zz+ + Y- = ZzY\n  log_k 0.1\n Zz+ + X- = ZzX\n  log_k 0.2"
            % (fmt(k[0]), fmt(k[1] - 2.0), fmt(k[2]), fmt(k[3] + 0.5)))


def basis_additions(draw):
    """a phase and an ion pair on existing master species; a repetition changes the constants (the names' meaning)"""
    return ("PHASES\n Calcite_b\n  CaCO3 = Ca+2 + CO3-2\n  log_k %s\nSOLUTION_SPECIES\n Mg+2 + Cl- = MgCl+\n  log_k %s"
            % (fmt(-8.48 + draw(cg.uni(-1.0, 1.0, 2))), fmt(draw(cg.uni(-0.5, 1.0, 2)))))


def selected_output(draw, M, n):
    L = ["SELECTED_OUTPUT %d" % n]
    r = draw(st.sampled_from([None, None, True, False]))
    if r is not None:
        L.append(" -reset %s" % str(r).lower())
    if draw(st.booleans()):
        L.append(" -high_precision %s" % str(draw(st.booleans())).lower())
    for f in draw(st.lists(st.sampled_from(SO_FLAGS), max_size=5, unique=True)):
        L.append(" -%s %s" % (f, str(draw(st.booleans())).lower()))
    for k in draw(st.lists(st.sampled_from(sorted(SO_LISTS)), max_size=4, unique=True)):
        pool = SO_LISTS[k] + ZZ_LISTS.get(k, []) * 2 + LB_LISTS.get(k, []) * 2
        names = draw(st.lists(st.sampled_from(pool), min_size=1, max_size=4, unique=True))
        L.append(" -%s %s" % (k, " ".join(names)))
        _note_refs(M, n, names)
    if not any(l.endswith(" true") or l.split()[0] in ("-" + k for k in SO_LISTS) for l in L[1:] if not l.startswith((" -reset", " -high"))):
        L.append(" -ph true")       # every definition has at least one column
    return "\n".join(L)


def user_punch(draw, M, n):
    pool = list(PUNCH_EXPR)
    if M.calc:
        pool += ['CALC_VALUE("cv1")'] * 12
    pool += ZZ_PUNCH + LB_PUNCH
    items = draw(st.lists(st.sampled_from(pool), min_size=1, max_size=5))
    _note_refs(M, n, [i.split('"')[1] for i in items if i in ZZ_PUNCH + LB_PUNCH])
    mem = _bool(draw, 1, 2)
    heads = ["u%d_%d" % (n, i) for i in range(len(items) + (1 if mem else 0))]
    L = ["USER_PUNCH %d" % n, " -headings " + " ".join(heads), " -start", " 10 PUNCH " + ", ".join(items)]
    if mem:
        slot = draw(st.integers(1, 2))
        L.append(" 20 PUT(GET(%d) + 1 + %s, %d)" % (slot, draw(st.sampled_from(["0", 'TOT("Na")', "STEP_NO"])), slot))
        L.append(" 30 PUNCH GET(%d)" % slot)
        M.feats.add("put_get")
    L.append(" -end")
    if any("CALC_VALUE" in i for i in items):
        M.feats.add("user_punch_calc_value")
    return "\n".join(L)


# ----------------------------------------------------------------------------------------------- entities
def new_solution(draw, M, n):
    s = draw(CG.solution(DB, n, "c02"))
    # cellgen balances on Cl without counting OH-: a very dilute alkaline solution would need negative Cl.  Every
    # solution here gets a major cation (with the same amount of Cl), so the charge balance is always attainable.
    zc = {"Na": 1, "K": 1, "Ca": 2, "Mg": 2, "Sr": 2, "Ba": 2}
    if sum(zc.get(e, 0) * c for e, c in s["comps"]) < 2e-3:
        x = draw(cg.logu(2e-3, 0.1, 3))
        for c in s["comps"]:
            if c[0] == "Cl":
                c[1] = float("%.4g" % (c[1] + x))
        s["comps"] = [c for c in s["comps"] if c[0] != "Na"]
        s["comps"].insert(0, ["Na", x])
    if M.zz and _bool(draw, 1, 2):
        s["comps"].insert(0, ["Zz", draw(cg.logu(1e-5, 1e-2, 3))])
        M.feats.add("solution_with_added_element")
    s["water"] = min(max(s["water"], 0.3), 5.0)
    M.temp[n] = s["temp"]
    return CG.render_solution(s), s


def define_entity(draw, M, kind, n, sols_now):
    """text of a new reactant numbered n; sols_now = solution numbers available for -equilibrate"""
    eq = draw(st.sampled_from(sorted(sols_now))) if sols_now else None
    if kind == "equilibrium_phases":
        d = draw(CG.pp(DB, "c02", False, 7.0))
        d["phases"] = [p for p in d["phases"] if p["name"] != "Fix_pH"] or [{"name": "Calcite", "si": 0.0, "moles": 1.0, "opt": "", "alt": ""}]
        if M.lb and _bool(draw, 1, 4) and not any(p["name"] in ("Calcite", "Aragonite") for p in d["phases"]):
            d["phases"].append({"name": "Calcite_b", "si": 0.0, "moles": draw(st.sampled_from([0.0, 0.01, 1.0])), "opt": "", "alt": ""})
        if M.zz and _bool(draw, 1, 3):
            d["phases"].append({"name": "Zzite", "si": 0.0, "moles": draw(st.sampled_from([0.0, 0.01, 1.0])), "opt": "", "alt": ""})
        return CG.render_pp(d, n)
    if kind == "exchange":
        if M.zz and _bool(draw, 1, 3):
            M.feats.add("exchange_on_added_master")
            if eq is not None and draw(st.booleans()):
                return "EXCHANGE %d\n Y %s\n -equilibrate %d" % (n, fmt(draw(cg.logu(1e-4, 0.5, 3))), eq)
            return "EXCHANGE %d\n NaY %s\n KY %s" % (n, fmt(draw(cg.logu(1e-4, 0.5, 3))), fmt(draw(cg.logu(1e-4, 0.1, 3))))
        d = draw(CG.exch(DB, eq))
        if eq is None and d["equil"] is not None:
            d = {"equil": None, "species": [["NaX", d["X"]]]}
        return CG.render_exch(d, n)
    if kind == "surface":
        d = draw(CG.surf(eq, False))
        if eq is None:
            d["equil"] = None
        return CG.render_surf(d, n)
    if kind == "gas_phase":
        d = draw(CG.gas(DB, eq, True))
        if eq is None:
            d["equil"] = None
        return CG.render_gas(d, n, M.temp.get(eq, 25.0) if eq is not None else 25.0)
    if kind == "solid_solutions":
        return CG.render_ss(draw(CG.ss(DB, "c02")), n)
    if kind == "kinetics":
        d = draw(CG.kin(DB))
        for c in d["comps"]:
            if c["rate"] == "r_uptake":      # removing an element the solution may not hold never converges: not generated
                c["rate"] = "r_unguarded"
        seen = set()
        d["comps"] = [c for c in d["comps"] if not (c["rate"] in seen or seen.add(c["rate"]))]
        d["cvode"] = False               # CVODE together with a surface / gas phase can take minutes per step
        if "times" in d:                 # keep the integration short: at most 1000 s per step
            d["times"] = [float("%.3g" % min(t, 1000.0 * (i + 1))) for i, t in enumerate(d["times"])]
        else:
            d["total"] = float("%.3g" % min(d["total"], 1000.0 * d["n"]))
        return CG.render_kin(d, n)
    if kind == "reaction":
        r = draw(CG.reaction(DB, False))
        scale = {"moles": 1.0, "mmol": 1e3, "umol": 1e6}[r["units"]]
        top = (max(r["list"]) if "list" in r else r["total"]) / scale * sum(c for _, c in r["reactants"])
        if top > 0.03:          # keep concentrations moderate (non-convergence is outside the domain)
            f = 0.03 / top
            if "list" in r:
                r["list"] = [float("%.4g" % (x * f)) for x in r["list"]]
            else:
                r["total"] = float("%.4g" % (r["total"] * f))
        return CG.render_reaction(r, n)
    if kind == "reaction_temperature":
        return "REACTION_TEMPERATURE %d\n %s" % (n, " ".join(fmt(draw(cg.uni(5.0, 80.0, 3))) for _ in range(draw(st.integers(1, 3)))))
    raise ValueError(kind)


REACTANTS = ["equilibrium_phases", "exchange", "surface", "gas_phase", "solid_solutions", "kinetics", "reaction",
             "reaction_temperature"]
SAVEABLE = ["equilibrium_phases", "exchange", "surface", "gas_phase", "solid_solutions"]
NUMS = [1, 2, 3, 4]


# ----------------------------------------------------------------------------------------------- one simulation
def _commit(M, defined_here, saves, deletes):
    """update the model with what a simulation leaves behind"""
    for kd in defined_here:
        M.ent[kd].update(defined_here[kd])
    for kd, n in saves:
        M.ent[kd].add(n)
    for kd, n in deletes:
        M.ent[kd].discard(n)
    return False


def simulation(draw, M, k, nsim):
    P = []
    F = M.feats
    # ---- global definitions -------------------------------------------------------------------------------
    if _bool(draw, 1, 6):
        P.append("TITLE simulation text %d\n second title line" % draw(st.integers(0, 99)))
        F.add("title")
    if _bool(draw, 1, 3 if k == 0 else 8):
        P.append(knobs(draw))
        F.add("knobs" if k == 0 else "knobs_later")
    if not M.rates and _bool(draw, 1, 2):
        P.append(CG.RATES_TEXT.rstrip())
        M.rates = True
        F.add("rates")
    elif M.rates and _bool(draw, 1, 8):
        P.append(rates_redef(draw))
        F.add("rates_redefined")
    if _bool(draw, 1, 3 if not M.calc else 10):
        P.append(calc_values(draw))
        F.add("calculate_values" if not M.calc else "calculate_values_redefined")
        M.calc = True
    if _bool(draw, 1, 3 if not M.zz else 8):
        P.append(db_additions(draw, not M.zz))
        F.add("db_additions" if not M.zz else "db_additions_redefined")
        if not M.zz and any(a == "zz" for a, _ in M.pending):
            F.add("addition_defined_after_selected_output_named_it")
        M.zz = True
    if _bool(draw, 1, 4 if not M.lb else 8):
        P.append(basis_additions(draw))
        F.add("basis_additions" if not M.lb else "basis_additions_redefined")
        if not M.lb and any(a == "lb" for a, _ in M.pending):
            F.add("addition_defined_after_selected_output_named_it")
        M.lb = True
    if _bool(draw, 1, 9):
        v = draw(st.sampled_from(["true", "false"] if not M.incr else ["false", "false", "true"]))
        P.append("INCREMENTAL_REACTIONS %s" % v)
        M.incr = v == "true"
        F.add("incremental_reactions")
    if _bool(draw, 1, 12 if M.punch else 3):
        v = draw(st.sampled_from(["false", "true"] if M.punch else ["true", "true", "false"]))
        P.append("PRINT\n -selected_output %s" % v)
        M.punch = v == "true"
        F.add("print_selected_output_" + v)
    if _bool(draw, 1, 12):
        P.append("PRINT\n -reset %s" % draw(st.sampled_from(["false", "true"])))
        F.add("print_reset")
    # selected output: mostly early, sometimes later / redefined
    p = (3, 4) if not M.so and k <= 1 else ((1, 2) if not M.so else (1, 6))
    if _bool(draw, *p):
        for n in draw(st.lists(st.sampled_from(USERS), min_size=1, max_size=2, unique=True)):
            what = draw(st.sampled_from(["both", "both", "so", "up"]))
            if n not in M.so and what == "up" and n != 1:
                what = "both"
            F.add("selected_output_redefined" if n in M.so else "selected_output")
            if what in ("both", "so"):
                P.append(selected_output(draw, M, n))
                if _bool(draw, 1, 20):
                    P[-1] += "\n -active %s" % draw(st.sampled_from(["false", "true"]))
                    F.add("selected_output_active")
            if what in ("both", "up"):
                P.append(user_punch(draw, M, n))
            M.so.add(n)
        if len(M.so) >= 2:
            F.add("selected_output_multi")
    # ---- entities defined in this simulation ----------------------------------------------------------------
    defined_here = {kd: [] for kd in M.ent}
    nsol = draw(st.sampled_from([1, 2, 2, 3])) if k == 0 else draw(st.sampled_from([0, 0, 0, 1, 1, 2]))
    first_sol = None
    for n in draw(st.lists(st.sampled_from([0, 1, 2, 3, 4, 5]), min_size=nsol, max_size=nsol, unique=True)):
        t, s = new_solution(draw, M, n)
        P.append(t)
        defined_here["solution"].append(n)
        if first_sol is None:
            first_sol = n
    sols_now = set(M.ent["solution"]) | set(defined_here["solution"])
    nre = draw(st.sampled_from([0, 0, 1, 1, 2, 3]))
    kinds = draw(st.lists(st.sampled_from(REACTANTS), min_size=nre, max_size=nre, unique=True))
    for kd in kinds:
        if kd == "kinetics" and not M.rates:
            continue
        if kd in ("exchange", "surface", "gas_phase") and not sols_now and False:
            continue
        n = draw(st.sampled_from(NUMS))
        P.append(define_entity(draw, M, kd, n, sols_now))
        defined_here[kd].append(n)
        F.add(kd)
    # ---- action ----------------------------------------------------------------------------------------------
    avail = {kd: set(M.ent[kd]) | set(defined_here[kd]) for kd in M.ent}
    act = draw(st.sampled_from(["batch", "batch", "batch", "none", "mix", "copy", "cells", "advect", "delete"])) if avail["solution"] else "none"
    saves = []
    deletes = []
    # entities "in use" in this simulation: the first one defined here of each kind (implicit) or a USE
    use = {kd: defined_here[kd][0] for kd in REACTANTS if defined_here[kd]}
    if first_sol is not None:
        use["solution"] = first_sol
    if act == "batch":
        src = draw(st.sampled_from(sorted(avail["solution"])))
        if not (first_sol == src and draw(st.booleans())):
            P.append("USE solution %d" % src)
        use["solution"] = src
        if src not in defined_here["solution"]:
            F.add("use_solution_of_earlier_simulation")
        for kd in REACTANTS:
            if avail[kd] and _bool(draw, 1, 3):
                n = draw(st.sampled_from(sorted(avail[kd])))
                P.append("USE %s %d" % (kd, n))
                use[kd] = n
                F.add(kd)
                if n not in defined_here[kd]:
                    F.add("use_reactant_of_earlier_simulation")
        if avail["mix"] and _bool(draw, 1, 4):
            n = draw(st.sampled_from(sorted(avail["mix"])))
            P.append("USE mix %d" % n)
            use["mix"] = n
            F.add("use_mix_of_earlier_simulation")
    elif act == "mix":
        m = draw(st.sampled_from(NUMS))
        parts = draw(st.lists(st.sampled_from(sorted(avail["solution"])), min_size=1, max_size=3, unique=True))
        P.append("MIX %d\n" % m + "\n".join(" %d %s" % (a, fmt(draw(cg.uni(0.3, 1.2, 2)))) for a in parts))
        defined_here["mix"].append(m)
        use["mix"] = m
        F.add("mix")
    elif act == "copy":
        kd = draw(st.sampled_from([x for x in sorted(avail) if avail[x]]))
        a = draw(st.sampled_from(sorted(avail[kd])))
        b = draw(st.sampled_from([1, 2, 3, 4, 5]))
        if draw(st.booleans()):
            P.append("COPY %s %d %d" % (kd, a, b))
            copied = [b]
        else:
            P.append("COPY %s %d %d-%d" % (kd, a, b, b + 1))
            copied = [b, b + 1]
        if kd == "solution":
            for c in copied:
                M.temp[c] = M.temp.get(a, 25.0)
        saves += [(kd, c) for c in copied]          # exists from the end of this simulation on
        F.add("copy")
    elif act == "cells":
        cells = draw(st.lists(st.sampled_from(sorted(avail["solution"])), min_size=1, max_size=3, unique=True))
        P.append("RUN_CELLS\n -cells %s\n -time_step %s" % (" ".join(str(c) for c in cells), fmt(draw(cg.logu(1.0, 1e4, 2)))))
        F.add("run_cells")
        if any(c not in defined_here["solution"] for c in cells):
            F.add("run_cells_on_earlier_solution")
    elif act == "advect" and {0, 1, 2} <= avail["solution"]:
        P.append("ADVECTION\n -cells 2\n -shifts %d\n -time_step 100\n -punch_cells %s\n -punch_frequency %d\n -print_frequency 10"
                 % (draw(st.integers(1, 3)), draw(st.sampled_from(["1-2", "2", "1"])), draw(st.integers(1, 2))))
        F.add("advection")
    elif act == "delete":
        kd = draw(st.sampled_from([x for x in sorted(avail) if avail[x]]))
        a = draw(st.sampled_from(sorted(avail[kd])))
        if not (kd == "solution" and len(avail["solution"]) <= 1):
            P.append("DELETE\n -%s %d" % (kd, a))
            deletes.append((kd, a))
            F.add("delete")
    reacting = ("solution" in use or "mix" in use) and any(kd in use for kd in REACTANTS + ["mix"])
    if reacting:
        F.add("reaction_step")
    if reacting and _bool(draw, 2, 3):
        m = draw(st.sampled_from([0, 1, 2, 3, 4, 5]))
        P.append("SAVE solution %d" % m)
        saves.append(("solution", m))
        M.temp[m] = 25.0
        F.add("save")
        for kd in SAVEABLE:
            if kd in use and _bool(draw, 1, 2):
                n = draw(st.sampled_from(NUMS))
                P.append("SAVE %s %d" % (kd, n))
                saves.append((kd, n))
    _commit(M, defined_here, saves, deletes)
    return "\n".join(P) + "\nEND\n"


@st.composite
def program(draw, max_sims=8):
    M = Model()
    nsim = draw(st.integers(3, max_sims))
    sims = [simulation(draw, M, k, nsim) for k in range(nsim)]
    return {"db": DB, "sims": sims, "feats": sorted(M.feats)}


# ----------------------------------------------------------------------------------------------- text layer
# Documented layout features of PHREEQC input, independent of the chemistry: blank lines, comment-only lines, trailing
# comments, ';' as line separator, '\' continuation, CRLF line ends, tabs and leading/trailing blanks, a final simulation
# without END, a text without final newline.  The layout is part of the *text*: whole text and pieces are the same characters.
LAYOUT_CODES = 12


def _layout_lines(lines, pat, off, is_last, feats):
    """lines: physical lines of one simulation without its END line"""
    out = []
    basic = False
    i = 0
    n = len(lines)
    while i < n:
        l = lines[i]
        code = pat[(off + i) % len(pat)]
        s = l.strip()
        if s == "-start":
            basic = True
        data = l.startswith(" ") and not basic and not s.startswith("-")
        nxt = lines[i + 1] if i + 1 < n else None
        if code == 3:
            out.append("")
            feats.add("layout_blank_line")
        elif code == 4:
            out.append("# comment line %d" % i)
            feats.add("layout_comment_line")
        elif code == 5:
            out.append("   \t# indented comment line")
            feats.add("layout_comment_line")
        if code == 7 and nxt is not None and not basic and nxt.strip() != "-start":
            # ';' separates logical lines
            sep = ";" if i % 2 else " ; "
            l = l + sep + nxt.lstrip(" ") if i % 3 else l + sep + nxt
            i += 1
            feats.add("layout_semicolon")
        elif code == 8 and data and " " in s and nxt is not None:
            a, b = s.split(" ", 1)
            out.append(" " + a + " \\" + ("  " if i % 2 else ""))
            l = "   " + b
            feats.add("layout_continuation")
        elif code == 9 and not basic:
            l = ("\t" + l.lstrip(" ") if l.startswith(" ") else l).replace(" ", "\t" if i % 2 else "  ") + " \t"
            feats.add("layout_tabs_blanks")
        elif code == 10:
            l = "    " + l + "   "
            feats.add("layout_tabs_blanks")
        elif code in (6, 11) and s != "":
            l = l + ("  # trailing comment" if code == 6 else "\t#c ; USE solution none \\")
            feats.add("layout_trailing_comment")
        if s == "-end":
            basic = False
        out.append(l)
        i += 1
    return out


@st.composite
def layout(draw, sims):
    """-> (sims with a drawn layout, labels).  Every simulation but the last keeps its END line (the cut points)."""
    pat = draw(st.lists(st.integers(0, LAYOUT_CODES - 1), min_size=3, max_size=11))
    crlf = draw(st.integers(0, 3)) == 0
    ending = draw(st.integers(0, 5))
    feats = set()
    out = []
    off = 0
    for k, sim in enumerate(sims):
        lines = sim.split("\n")
        assert lines[-1] == "" and lines[-2] == "END"
        body = _layout_lines(lines[:-2], pat, off, k == len(sims) - 1, feats)
        off += len(lines)
        last = k == len(sims) - 1
        if not last or ending == 0:
            text = "\n".join(body + ["END"]) + "\n"
        elif ending == 1:
            text = "\n".join(body + ["END"])
            feats.add("layout_no_final_newline")
        else:
            feats.add("layout_last_simulation_without_END")
            if ending in (4, 5) and body:
                body = body[:-1] + (["# comment before the last line"] if ending == 4 else [""]) + body[-1:]
                feats.add("layout_blank_or_comment_before_unterminated_last_line")
            text = "\n".join(body) + ("\n" if ending == 2 else "")
            if ending != 2:
                feats.add("layout_no_final_newline")
        if crlf:
            text = text.replace("\n", "\r\n")
        out.append(text)
    if crlf:
        feats.add("layout_crlf")
    return out, sorted(feats)
