"""C11 - transport only moves dissolved mass: conservation, exact shifts, bounded mixing."""
import os, json, signal, traceback
from hypothesis import strategies as st
from .. import lib, c11gen as G
from ..core import Violation, Discard

ID = "C11"
LEVEL = "exploration"
RULE = ("Hypothesis-generated 1D columns (vp/c11gen.py; quick 3200 / thorough 24000 cases): ADVECTION / TRANSPORT, 1-12 cells (thorough 1-40), 1-8 shifts (thorough 1-20), "
        "forward/back/diffusion_only, all 9 boundary pairs, equal/unequal lengths, dispersivities, diffusion coefficient, time step, "
        "0-3 stagnant layers (first-order exchange or explicit MIX pairs), end-cell dispersivity/length contrast at constant boundaries, multi_d off/explicit/implicit with its parameters, 2-4 distinct "
        "conservative solutions (Na K Li Ca Mg Cl Br N(5)) spread over cells, inflow 0 and n+1, optional calcite/exchanger. "
        "Observation: USER_PUNCH doubles per cell and shift. Oracle clause chosen from the configuration only: (i) inventory, (ii) exact "
        "shift, (iii) range, (iv) inventory with solids. Non-trivial = a clause was applied and ((>=3 cells with >=2 distinct "
        "compositions and some concentration changed by > 1e-6 relative) or (>=2 advective shifts under clause ii)); distinct by "
        "SHA-256 of the case")
ASSUMPTIONS = ["TOTMOLE/TOT(\"water\")/CHARGE_BALANCE/SYS read through USER_PUNCH report the saved state of the punched cell",
               "first-order stagnant exchange: the mole balance of the manual (theta_m*C_m + theta_im*C_im constant) is the inventory; "
               "it equals the plain mole sum when the stagnant water mass is theta_im/theta_m of the mobile one",
               "explicit MIX definitions of stagnant cells are generated mass-conserving (equal water masses exchanged)",
               "runs in which the engine itself reports that it added moles to repair negative MCD concentrations are outside the domain (counted)",
               "solver convergence: every saved speciation may move a total by max(1e-12*moles, sqrt(moles*1e-25)) (model.cpp); this slack, times the "
               "number of speciations of a cell (2*(mixruns+1) per shift), is added to the 1e-9/1e-8 tolerances of the statement",
               "molality range: water is produced/consumed by H+/OH- on mixing, so the molality bound carries the physical slack "
               "2*Mw*max(mH+ + mOH-); the element/total-H ratio is checked with 1e-9 only"]
TECHNIQUE = "property-based testing (Hypothesis): conservation / exact-shift / maximum-principle invariants over generated column set-ups"
LEVEL_TEXT = ("Exploration: hundreds (quick) to thousands (thorough) of generated column configurations per run; each is checked per cell "
              "and per shift against the invariant(s) the property statement attaches to its configuration.")
FLOORS = {"quick": 150, "thorough": 1500}
SHARDS = {"quick": 8, "thorough": 16}
if os.environ.get("VERIF_C11_SHARDS"):      # development on a loaded machine only
    SHARDS = {"quick": int(os.environ["VERIF_C11_SHARDS"]), "thorough": int(os.environ["VERIF_C11_SHARDS"])}
BUDGET = {"quick": 3200, "thorough": 24000}

MW = 0.018016
TOL_INV = 1e-9
TOL_SHIFT = 1e-8
TOL_RANGE = 1e-9
# the solver's own mass-balance convergence criterion (model.cpp, residuals()/check_residuals()): a mole balance counts as
# converged when |residual| <= max(convergence_tolerance * moles, sqrt(moles * MIN_TOTAL)), MIN_TOTAL = 1e-25, and the saved
# total is the calculated one.  Every speciation of a cell may therefore move a saved total by that much (observed: Br
# 1e-6 mol per cell drifts by 5e-18 mol per speciation, always upward).  DESIGN 4 rule 2: the solver's tolerance is added.
CONV_TOL = 1e-12          # KNOBS -convergence_tolerance written into every generated input
MIN_TOTAL = 1e-25


def solver_slack(moles):
    return max(CONV_TOL * abs(moles), (abs(moles) * MIN_TOTAL) ** 0.5)


def events(obs, t):
    """upper bound of the number of saved speciations of one cell up to shift t: per shift one per mixing run
    (two with a stagnant layer: DISP and STAG) plus the advective step"""
    return t * 2 * (obs["mixruns"] + 1)


def prepare(tier):
    lib.build("rel", ["libiphreeqc_rel.so"])


# ----------------------------------------------------------------------------------------- configuration -> clauses
def config(case):
    T = case["kind"] == "T"
    md = case["multi_d"]
    md_on = md is not None
    # multicomponent diffusion is switched off by the engine where the porosity is below the limit given in -multi_d
    md_active = md_on and not all(p < md["por_lim"] for p in (md["pors"] or []) + [md["por"]])
    closed = case["bc"] == ["closed", "closed"]
    diff_only = T and case["flow"] == "diffusion_only"
    equal = len(set(case["lengths"])) == 1
    solids = case["solids"] is not None
    stag = case["stag"] is not None
    no_disp = all(d == 0.0 for d in case["disp"])
    pure_adv = (not stag) and ((not T) or (case["flow"] != "diffusion_only" and no_disp and
                                           ((not md_on and case["diffc"] == 0.0) or (md_on and not md_active))))
    cl = []
    if T and diff_only and closed and (equal or md_on):
        cl.append("iv" if solids else "i")
    if pure_adv and not solids:
        cl.append("ii")
    if not md_on and not solids:
        cl.append("iii")
    return {"T": T, "md_on": md_on, "md_active": md_active, "closed": closed, "diff_only": diff_only, "equal": equal,
            "solids": solids, "stag": stag, "pure_adv": pure_adv, "clauses": cl}


# ----------------------------------------------------------------------------------------- observation
def observe(case, ctx):
    text, heads = G.render(case)
    sd = ctx.scratch_dir()
    os.chdir(sd)
    I = lib.fresh("phreeqc.dat")
    try:
        rc = I.run_string(text)
        err = I.errors()
        if rc != 0 or err.strip():
            first = (err.strip().split("\n") or [""])[0]
            if "egative concentration" in err or "egative moles" in err:
                # the statement quantifies over calculations that complete: counted, never a violation
                raise Discard("run_error:negative_concentration")
            raise Discard("run_error:" + first[:60])
        warn = I.warnings()
        T = I.table()
    finally:
        I.close()
    added = added_moles(warn)
    mixruns = 0
    for l in warn.split("\n"):
        if "mixruns" in l and "shifts" in l:
            try:
                mixruns = int(l.split("shifts,")[1].split("mixruns")[0])
            except (ValueError, IndexError):
                raise Violation("observation", "cannot read the number of mixruns from %r" % l)
    if T.rows < 2:
        raise Discard("no_rows")
    h = T.headings()
    init, rows = {}, {}
    dup = 0
    for r in T.cells[1:]:
        d = dict(zip(h, r))
        if d["state"] == "i_soln":
            init[int(d["soln"])] = d
        elif d["state"] in ("transp", "advect"):
            key = (int(round(d["cell"])), int(round(d["stepno"])))
            if key in rows:
                dup += 1
            rows[key] = d
    # the engine repairs negative amounts in multicomponent diffusion by adding moles and says so; such a run is outside
    # the domain unless the reported amount is negligible against the tolerance of the inventory clause (the implicit
    # scheme keeps every total >= 1e-13 mol and reports those 1e-13 mol)
    if added:
        for e, a in added.items():
            tot = sum(abs(d.get("tm_" + e) or 0.0) for (c, t), d in rows.items() if t == 0 and 1 <= c)
            if a > 1e-11 * tot:
                raise Discard("mcd_added_moles")
    return {"init": init, "rows": rows, "dup": dup, "warn": warn, "heads": heads, "text": text, "added": added, "mixruns": mixruns}


def added_moles(warn):
    """element -> moles the engine reports to have added for balancing negative concentrations (summary at the end of
    transport(); the per-event lines of the explicit scheme are included in it)"""
    out = {}
    lines = warn.split("\n")
    for k, l in enumerate(lines):
        if "balancing negative concentrations in MCD" in l:
            for m in lines[k + 1:]:
                t = m.replace("WARNING:", "").split()
                if len(t) == 3 and t[1] == "moles" and t[2].endswith("."):
                    try:
                        a = float(t[0])
                    except ValueError:
                        break
                    e = G.base(t[2][:-1])
                    out[e] = out.get(e, 0.0) + a
                elif m.strip() == "" or m.strip() == "WARNING:":
                    continue
                else:
                    break
    for l in lines:
        # explicit scheme, one line per event (also summarised above; keep the larger figure per element)
        if "Negative concentration in MCD: added" in l:
            t = l.split("added", 1)[1].split()
            try:
                a, e = float(t[0]), G.base(t[2])
            except (ValueError, IndexError):
                continue
            out.setdefault(e, 0.0)
            out[e] = max(out[e], a)
    return out


def zscale(d, els):
    """sum |z| * moles of the cell (scale of the charge invariant)"""
    return sum(G.ZABS.get(e, 1) * abs(d.get("tm_" + e) or 0.0) for e in els) + abs(d.get("mH") or 0.0) * (d.get("water") or 1.0)


# ----------------------------------------------------------------------------------------- clauses
def inv_weights(case, cfg):
    """cell -> weight of its moles in the column inventory"""
    n = case["n"]
    w = {i: 1.0 for i in range(1, n + 1)}
    s = case["stag"]
    if s is not None and s["mode"] == "layers":
        for c, i, l in G.stag_cells(case):
            w[c] = 1.0            # explicit MIX pairs exchange equal water masses: plain mole sum
    elif s is not None:
        for i in range(n):
            f = 1.0
            if s["mode"] == "exch" and not cfg["md_on"]:
                # manual eq. (mole balance of the first-order exchange model): theta_m*C_m + theta_im*C_im is constant
                f = (s["th_im"] / s["th_m"]) * (case["water"][i] / G.stag_water(case, i))
            w[n + 2 + i] = f
    return w


def clause_inventory(case, cfg, obs, prefix, els, with_charge):
    rows = obs["rows"]
    w = inv_weights(case, cfg)
    steps = sorted({k[1] for k in rows})
    if 0 not in steps:
        raise Discard("no_baseline")
    quantities = [prefix + e for e in els]
    inv = {}
    for t in steps:
        have = [c for c in w if (c, t) in rows]
        if len(have) != len(w):
            if t == 0:
                raise Violation("observation", "baseline rows missing for cells %r" % sorted(set(w) - set(have)))
            # a step at which not every cell was punched cannot be summed
            raise Violation("observation", "step %d: rows missing for cells %r" % (t, sorted(set(w) - set(have))))
        tot = {q: 0.0 for q in quantities}
        tot["cb"] = 0.0
        tot["zs"] = 0.0
        for c in w:
            d = rows[(c, t)]
            for q in quantities:
                v = d.get(q)
                if v is None or isinstance(v, str):
                    raise Violation("observation", "cell %d step %d: %s unreadable (%r)" % (c, t, q, v))
                tot[q] += w[c] * v
            tot["cb"] += w[c] * d["cb"]
            tot["zs"] += w[c] * zscale(d, [e for e in els if e not in ("H", "O")])
        inv[t] = tot
    base = inv[0]
    worst = 0.0
    name = "inventory_solids" if prefix == "sys_" else "inventory"
    # per-event slack of the solver, summed over the cells (largest amount a cell ever holds)
    per_event = {}
    for q in quantities:
        per_event[q] = sum(w[c] * solver_slack(max(abs(rows[(c, t)][q]) for t in steps)) for c in w)
    zq = [(q, G.ZABS.get(q.split("_", 1)[1], 1)) for q in quantities if q.split("_", 1)[1] not in ("H", "O")]
    per_event_cb = sum(z * per_event[q] for q, z in zq)
    # known finding stagnant-exchange-frozen-water-ratio: the first-order exchange factors are built once from the water
    # masses at the start (transport.cpp, "Define C_m = (1 - mix_f_m) * C_m0 + mix_f_m * C_im0"); they conserve moles only
    # while the water-mass ratio of every mobile/stagnant pair stays at the ratio they were built for.  Whatever changes a
    # water mass (reactions of solids: 1e-6; mixing of solutions of different pH: 1e-9) makes each mixing run create or
    # destroy up to delta * (moles of the pair).  The trigger cannot be excluded through the input alone, so the
    # mechanism's own bound is added per mixing run (delta = observed deviation of the water ratio; 0 => strict).
    # The registered known-finding replay sets "strict_stagnant_exchange" and is checked without it.
    per_mix = {q: 0.0 for q in quantities}
    s_ = case["stag"]
    if s_ is not None and s_["mode"] == "exch" and not cfg["md_on"] and not case.get("strict_stagnant_exchange"):
        n = case["n"]
        for i in range(n):
            cm, ci = i + 1, n + 2 + i
            r0 = G.stag_water(case, i) / case["water"][i]
            delta = max(abs(rows[(ci, t)]["water"] / rows[(cm, t)]["water"] / r0 - 1.0) for t in steps)
            for q in quantities:
                per_mix[q] += delta * (w[cm] * max(abs(rows[(cm, t)][q]) for t in steps) + w[ci] * max(abs(rows[(ci, t)][q]) for t in steps))
    per_mix_cb = sum(z * per_mix[q] for q, z in zq)
    for t in steps[1:]:
        nev = events(obs, t)
        for q in quantities:
            ref = max(abs(base[q]), 1e-20)
            tol = TOL_INV * ref + 10 * CONV_TOL * ref + nev * per_event[q] + t * max(obs["mixruns"], 1) * per_mix[q]
            dev = abs(inv[t][q] - base[q])
            worst = max(worst, dev / ref)
            if dev > tol:
                raise Violation(name, "column inventory of %s changed: step 0 %.17g, step %d %.17g (relative %.3g; allowed %g relative "
                                "+ solver convergence slack of %d speciations = %.3g relative)" % (
                                    q, base[q], t, inv[t][q], dev / ref, TOL_INV, nev, tol / ref))
        if with_charge:
            ref = max(base["zs"], 1e-20)
            tol = TOL_INV * ref + 10 * CONV_TOL * ref + nev * per_event_cb + t * max(obs["mixruns"], 1) * per_mix_cb
            dev = abs(inv[t]["cb"] - base["cb"])
            if dev > tol:
                raise Violation(name + "_charge", "column charge changed: step 0 %.17g eq, step %d %.17g eq (%.3g of sum|z|m = %.6g; allowed %.3g)" % (
                    base["cb"], t, inv[t]["cb"], dev / ref, base["zs"], tol / ref))
    return worst


def clause_shift(case, cfg, obs, els):
    rows, init = obs["rows"], obs["init"]
    n = case["n"]
    back = cfg["T"] and case["flow"] == "back"
    qs = ["tm_" + e for e in els] + ["water"]

    def prev(cell, t):
        if (cell, t) in rows:
            return rows[(cell, t)]
        if t >= 0 and cell in (0, n + 1):
            # boundary solutions are punched at step 0 (TRANSPORT) or only as initial solutions (ADVECTION)
            for tt in range(t, -1, -1):
                if (cell, tt) in rows:
                    return rows[(cell, tt)]
            return init.get(cell)
        if t == 0:
            return init.get(cell)
        return None

    nchk = 0
    for t in range(1, case["shifts"] + 1):
        for i in range(1, n + 1):
            cur = rows.get((i, t))
            if cur is None:
                raise Violation("observation", "pure advection: no row for cell %d shift %d" % (i, t))
            up = i + 1 if back else i - 1
            exp = prev(up, t - 1)
            if exp is None:
                raise Violation("observation", "pure advection: no previous state of cell %d at shift %d" % (up, t - 1))
            for q in qs:
                ref = max(abs(exp[q]), 1e-20)
                if abs(cur[q] - exp[q]) > TOL_SHIFT * ref + 2 * solver_slack(ref):
                    raise Violation("exact_shift", "cell %d after shift %d: %s = %.17g, upstream cell %d had %.17g before the shift (rel %.3g)" % (
                        i, t, q, cur[q], up, exp[q], abs(cur[q] - exp[q]) / ref))
            zs = max(zscale(exp, [e for e in els if e not in ("H", "O")]), 1e-20)
            if abs(cur["cb"] - exp["cb"]) > TOL_SHIFT * zs:
                raise Violation("exact_shift_charge", "cell %d after shift %d: charge %.17g eq, upstream cell %d had %.17g (sum|z|m %.6g)" % (
                    i, t, cur["cb"], up, exp["cb"], zs))
            nchk += 1
    return nchk


def clause_range(case, cfg, obs, els):
    rows, init = obs["rows"], obs["init"]
    src = list(init.values()) + [d for (c, t), d in rows.items() if t == 0]
    if not src:
        raise Discard("no_baseline")
    allrows = src + list(rows.values())
    hw = max((d["mH"] + d["mOH"]) for d in allrows)
    slack_m = TOL_RANGE + 2.0 * MW * hw
    for e in els:
        q = "tm_" + e
        lo_m = min(d[q] / d["water"] for d in src)
        hi_m = max(d[q] / d["water"] for d in src)
        lo_r = min(d[q] / d["tm_H"] for d in src)
        hi_r = max(d[q] / d["tm_H"] for d in src)
        for (c, t), d in rows.items():
            if t == 0:
                continue
            # solver slack: every speciation of the cell may move the saved total by solver_slack(moles)
            sv = events(obs, t) * solver_slack(d[q]) / max(abs(d[q]), 1e-300)
            r = d[q] / d["tm_H"]
            if r < lo_r * (1 - TOL_RANGE - sv) - 1e-30 or r > hi_r * (1 + TOL_RANGE + sv) + 1e-30:
                raise Violation("range", "cell %d shift %d: %s per mole of total H = %.17g outside the initial/boundary range [%.17g, %.17g] (slack %.3g)" % (
                    c, t, e, r, lo_r, hi_r, TOL_RANGE + sv))
            m = d[q] / d["water"]
            if m < lo_m * (1 - slack_m - sv) - 1e-30 or m > hi_m * (1 + slack_m + sv) + 1e-30:
                raise Violation("range_molality", "cell %d shift %d: %s molality %.17g outside the initial/boundary range [%.17g, %.17g] (slack %.3g)" % (
                    c, t, e, m, lo_m, hi_m, slack_m + sv))


def changed(case, obs, els):
    rows = obs["rows"]
    for (c, t), d in rows.items():
        if t == 0 or (c, 0) not in rows:
            continue
        b = rows[(c, 0)]
        for e in els:
            q = "tm_" + e
            if abs(d[q] - b[q]) > 1e-6 * max(abs(b[q]), abs(d[q]), 1e-12):
                return True
    return False


# ----------------------------------------------------------------------------------------- check
def bucket(x, edges):
    for e in edges:
        if x <= e:
            return "<=%d" % e
    return ">%d" % edges[-1]


def check_case(case, ctx):
    """Each case is evaluated in a forked child of the worker: transport.cpp keeps working state in process-wide
    file-scope globals (known finding of C06), e.g. the map `neg_moles` is never cleared, so that after one run with
    -implicit that had to repair a negative amount every later -implicit run *of any instance in the process* prints
    'For balancing negative concentrations in MCD, added ...'.  The child starts from the pristine image of the library
    (the parent never runs a calculation), which is the 'fresh LoadDatabase in a fresh process' the property is about."""
    if os.environ.get("C11_NOFORK"):
        return check_case_inproc(case, ctx)
    r, w = os.pipe()
    pid = os.fork()
    if pid == 0:
        code = 0
        try:
            os.close(r)
            ev = {}
            ctx.event = lambda name, n=1: ev.__setitem__(name, ev.get(name, 0) + n)
            try:
                out = {"ok": check_case_inproc(case, ctx)}
            except Violation as v:
                out = {"viol": [v.oracle, v.msg]}
            except Discard as d:
                out = {"disc": d.why}
            except BaseException:
                out = {"exc": traceback.format_exc()[-3000:]}
            out["events"] = ev
            data = json.dumps(out).encode()
            while data:
                k = os.write(w, data)
                data = data[k:]
        except BaseException:
            code = 3
        finally:
            os._exit(code)
    os.close(w)
    chunks = []
    while True:
        b = os.read(r, 65536)
        if not b:
            break
        chunks.append(b)
    os.close(r)
    _, status = os.waitpid(pid, 0)
    if os.WIFSIGNALED(status):
        # the engine crashed on this case: die the same way so that the driver's process-death protocol takes over
        sig = os.WTERMSIG(status)
        signal.signal(sig, signal.SIG_DFL)
        os.kill(os.getpid(), sig)
        raise RuntimeError("child killed by signal %d" % sig)
    try:
        out = json.loads(b"".join(chunks).decode())
    except ValueError:
        raise RuntimeError("child of C11 returned no result (exit status %r)" % status)
    for k, v in out.get("events", {}).items():
        ctx.event(k, v)
    if "viol" in out:
        raise Violation(out["viol"][0], out["viol"][1])
    if "disc" in out:
        raise Discard(out["disc"])
    if "exc" in out:
        raise RuntimeError("harness error in child: " + out["exc"])
    return out["ok"]


def check_case_inproc(case, ctx):
    cfg = config(case)
    obs = observe(case, ctx)
    els_all = G.elements_of(case)
    els = [e for e in els_all if e != "X"]
    n = case["n"]
    if obs["dup"]:
        ctx.event("duplicate_rows", obs["dup"])
    applied = []
    nshift = 0
    for cl in cfg["clauses"]:
        if cl == "i":
            clause_inventory(case, cfg, obs, "tm_", els + ["H", "O"], True)
        elif cl == "iv":
            # (the exchanger master X is not a chemical element: SYS("X") is the sum of the exchange species, which the
            #  engine accepts with a residual of some 1e-9 relative in the state punched at step 0 -- not asserted)
            clause_inventory(case, cfg, obs, "sys_", els + ["H", "O"], False)
        elif cl == "ii":
            nshift = clause_shift(case, cfg, obs, els + ["H", "O"])
        elif cl == "iii":
            clause_range(case, cfg, obs, els)
        applied.append(cl)
    ndist = len({case["assign"][i] for i in range(n)} | ({case["in0"], case["in1"]} if not cfg["closed"] else set()))
    ch = changed(case, obs, els) if cfg["T"] else False
    if cfg["solids"] and not ch:
        ch = True if any((c, t) for (c, t) in obs["rows"] if t > 0) else False
    nt = bool(applied) and ((n >= 3 and ndist >= 2 and ch) or ("ii" in applied and case["shifts"] >= 2 and nshift > 0))
    md = "off" if not cfg["md_on"] else ("implicit" if case["implicit"] else ("explicit" if cfg["md_active"] else "disabled_by_por_lim"))
    classes = ["keyword=" + ("TRANSPORT" if cfg["T"] else "ADVECTION"), "flow=" + case["flow"], "bc=%s/%s" % tuple(case["bc"]),
               "multi_d=" + md, "stagnant=" + (("layers%d" % case["stag"]["L"] if case["stag"]["mode"] == "layers" else case["stag"]["mode"]) if case["stag"] else "0"),
               "cells" + bucket(n, [2, 5, 12, 25, 40]), "shifts" + bucket(case["shifts"], [1, 4, 8, 20]),
               "lengths=" + ("equal" if cfg["equal"] else "unequal"), "fam=" + case["fam"],
               "clauses=" + ("+".join(applied) if applied else "none")]
    for cl in applied:
        classes.append("clause_" + cl)
    if ch:
        classes.append("concentrations_changed")
    if obs["added"]:
        classes.append("mcd_added_negligible")
    for x in case.get("excluded", []):
        classes.append("excluded:" + x)
    if "end_contrast" in case:
        classes.append("end_cell_contrast_at_constant_boundary")
    if "Unequal cell-lengths" in obs["warn"]:
        classes.append("warned_unequal_lengths")
    return {"nontrivial": nt, "classes": classes}


def run(ctx):
    nper = max(1, BUDGET[ctx.tier] // ctx.nshards)
    ctx.hyp(G.column(ctx.tier), lambda c: check_case(c, ctx), nper, "column")
