"""C08 - bad input is reported as errors; it never crashes or poisons the instance.

Three engines, one oracle (the oracle lives inside the sanitizer-built targets, shim/fuzz_common.h):
  A  libFuzzer campaigns (fuzz_run: Run*/file-name entry points, fuzz_db: LoadDatabaseString), N parallel jobs
  B  grammar-level cases (Hypothesis -> persistent apirunner_asan, restarted every BATCH cases)
  C  enumerated fault sequences (unreadable inputs/databases/includes, output sinks that cannot be opened)
  D  small-scope enumeration over the seed inputs (numeric tokens x 8 values, BASIC line/token deletions, NEXT variable)
A target that dies (sanitizer report, signal, escaping exception, library exit, violated oracle clause) is a
violation; libFuzzer timeouts / out-of-memory stops are resource noise (counted, never reported).
"""
import os, sys, re, json, time, base64, shutil, subprocess, select, collections, glob, hashlib
from .. import lib, core
from ..core import Violation, Discard
from .. import c08_seeds as S
from .. import c08_gen as G

ID = "C08"
LEVEL = "exploration"
RULE = ("A: libFuzzer (custom line/token/number mutator + dictionary of keywords/options/BASIC tokens/species) on a seed corpus of ~200 single "
        "simulations (one per keyword for the 275-line database corpus/small.dat, RAW/MODIFY blocks, shipped examples cut at END, gtest inputs, "
        "file-name seeds) and on database texts; every execution starts from LoadDatabaseString(small.dat); the bytes select the entry point "
        "(RunString, AccumulateLine*+RunAccumulated, RunFile, bytes as RunFile/LoadDatabase file name) and the string/file switches. "
        "B: Hypothesis picks 1-3 valid base blocks or grammar-built blocks and applies 0-3 structural mutations each (wrong/duplicated/missing "
        "options, unknown species/phases/elements, undefined entity numbers in USE/COPY/MIX/RUN_CELLS/*_MODIFY, extreme numbers, truncated or "
        "broken BASIC, wrong keyword), run through RunString/RunAccumulated/RunFile on a new instance that has small.dat or (about 4 cases in 10) one "
        "of 13 shipped databases loaded. D: small-scope enumeration over the seed inputs of A: every numeric token replaced by each of 0 -1 1 "
        "2147483647 1e308 -1e308 1e-308 nan, every BASIC line deleted / one token deleted / NEXT given another variable (thorough: exhaustive; "
        "quick: all ':= 0', line deletions and NEXT swaps plus slice VERIF_SEED mod 24 of the rest). C: enumerated fault list (unreadable database/input/INCLUDE$ files x entry points, 5 output sinks x 6 "
        "unopenable path kinds x 3 entry points, file names inside the input text), each followed by reload + probe. "
        "Oracle per call (inside the sanitizer-built target): returns (no signal, ASan/UBSan report, escaping exception, exit); rc!=0 <=> error "
        "string non-empty <=> error line count>0; warning string/line count agree; markers planted with AddError/AddWarning before the call are "
        "gone; after a failed call LoadDatabaseString returns 0 and a probe run equals a fresh instance's answer bitwise. "
        "evaluations = executions of the oracle (fuzz executions that reached a call + grammar cases + fault cases). Non-trivial = the input "
        "has >= 2 non-blank lines, a keyword other than END was read and tidy_model or a calculation was reached (engine counters simulation/"
        "state/keycount and the 'terminating due to input errors' message; a failure inside the first initial-solution calculation is "
        "conservatively counted as not reached); database texts: >= 2 lines and the load reached tidy; fault cases: a call failed. Distinct by "
        "64-bit FNV-1a of (entry point, text) counted inside the target (A) and SHA-256 of the case (B, C)")
ASSUMPTIONS = ["AddressSanitizer + UndefinedBehaviorSanitizer (clang 14, -O1) report the invalid accesses and undefined behaviour that occur on executed paths",
               "libFuzzer timeouts (-timeout) and out-of-memory stops (-rss_limit_mb=4096, single allocations > 4 GB, ASan allocation-size-too-big) are resource limits of the experiment, not violations",
               "leaks are not violations (DESIGN section 4 rule 9): -detect_leaks=0",
               "inputs naming /dev /proc /sys files, absolute paths or '..' inside input text are outside the experiment (the sandbox runs as root); counted as skipped",
               "recorded known findings are excluded, each with a strict replay in replays/C08/known/: UBSan reports whose (check kind, file, enclosing function) is in shim/c08_known_ub.inc are counted (known_ub_*) and the execution continues; an execution that dies with a signature listed in vp/c08_known.json (sanitizer kind @ function:file) is counted (known_finding_stops) and not reported; any other report is a violation",
               "the harness reads three engine counters (simulation, state, keycount) through the protected PhreeqcPtr for classification only"]
TECHNIQUE = "coverage-guided fuzzing (libFuzzer, ASan+UBSan) + grammar-based property testing (Hypothesis) + enumerated fault injection, oracle inside the target"
LEVEL_TEXT = ("Exploration: about 17 000 (quick) to 450 000 (thorough) sanitizer-checked executions per run, each under the four-clause oracle; "
              "the enumerated fault list is complete for the listed path kinds x streams x entry points but the property is universally quantified "
              "over byte sequences, so this is evidence, not proof.")
FLOORS = {"quick": 5000, "thorough": 100000}
SHARDS = {"quick": 8, "thorough": 16}

# executions per fuzz job (bounded by count, never by wall clock).  Measured on this machine (clang 14, -O1, ASan+UBSan+
# libFuzzer instrumentation): 40 executions per CPU-second for fuzz_run, 35 for fuzz_db (5 ms LoadDatabaseString of the
# small database at the start of every execution + 6 ms reload and 1-20 ms probe after every failed call + the call itself),
# 110 for the empty-corpus leg, 30 ms per grammar case.  Quick is sized for about 55 CPU-seconds per shard (the replay tier
# of core runs before the shards and costs about 1 s per file plus ~15-30 s for the non-converging kinetics regression),
# thorough for 800 CPU-seconds per shard.
FUZZ_RUNS = {"quick": {"fuzz_run": 1400, "fuzz_db": 1200}, "thorough": {"fuzz_run": 25000, "fuzz_db": 21000}}
EMPTY_LEG_RUNS = {"quick": 400, "thorough": 4000}            # fuzz_run from an empty corpus (dictionary only), shard 0
GRAMMAR_CASES = {"quick": 120, "thorough": 1500}              # per shard
# engine D (small-scope enumeration over the seed inputs, vp/c08_gen.enum_cases: ~25 000 cases, 42 ms CPU each + 8 s per
# non-terminating one).  Thorough runs all of it.  Quick always runs the core sub-space (every numeric token := 0, every
# BASIC line deleted, every NEXT with another loop variable: ~3 100 cases) and the slice (VERIF_SEED mod ENUM_SLICE) of the rest.
ENUM_SLICE = {"quick": 24, "thorough": 1}
ENUM_CASE_TIMEOUT_S = 8
FUZZ_TIMEOUT_S = {"quick": 10, "thorough": 25}
MAX_LEN = {"fuzz_run": 6002, "fuzz_db": 12000}
BATCH = 200
API_CASE_TIMEOUT_S = 40
SCALE = float(os.environ.get("VERIF_C08_SCALE", "1"))        # development only: scales all case counts
MAX_SEGMENTS = 14
MAX_CRASH_SEGMENTS = int(os.environ.get("VERIF_C08_CRASH_SEGMENTS", "3"))

SMALL_DB = os.path.join(lib.VERIF, "corpus", "small.dat")


def prepare(tier):
    # the parent run builds once; the replay processes it spawns inherit the marker and do not repeat the (0.5 s) check
    if tier == "replay" and os.environ.get("VERIF_C08_BUILT") == lib.BUILD:
        return
    lib.build("asan", ["fuzz_run", "fuzz_db", "apirunner_asan"])
    os.environ["VERIF_C08_BUILT"] = lib.BUILD


def bin_path(t):
    return os.path.join(lib.BUILD, "asan", t)


def target_env(scratch, stats=None, no_filter=False, probe=None):
    env = dict(os.environ)
    env.update({"C08_DB": SMALL_DB, "C08_VERIF": lib.VERIF, "C08_SCRATCH": scratch, "C08_REPO": lib.REPO})
    env.pop("C08_STATS", None)
    env.pop("C08_NO_KNOWN_FILTER", None)
    env.pop("C08_PROBE", None)
    if stats:
        env["C08_STATS"] = stats
    if no_filter:
        env["C08_NO_KNOWN_FILTER"] = "1"
    if probe:
        env["C08_PROBE"] = probe
    return env


# --------------------------------------------------------------------------------- report classification
NOISE = [("timeout", r"ERROR: libFuzzer: timeout"),
         ("oom", r"ERROR: libFuzzer: out-of-memory"),
         ("oom", r"AddressSanitizer: (out-of-memory|allocation-size-too-big|calloc-overflow|requested allocation size)"),
         ("oom", r"(AddressSanitizer|Sanitizer) failed to allocate"),
         ("oom", r"ERROR: Failed to mmap")]


def classify(text, rc):
    """-> (kind, signature, message); kind: none | violation | noise | harness.
    'runtime error:' lines of UBSan alone mean nothing: reports of recorded known findings continue; a fatal one is
    announced by the harness as C08-UBSAN."""
    if rc == 0:
        return "none", "", ""
    if "C08-HARNESS-ERROR" in text:
        m = re.search(r"C08-HARNESS-ERROR: (.*)", text)
        return "harness", "harness", m.group(1)[:500] if m else "harness error"
    for name, pat in NOISE:
        if re.search(pat, text):
            return "noise", name, name
    m = re.search(r"C08-ORACLE: (\w+): (.*)", text)
    if m:
        sig = "oracle:" + m.group(1)
        if m.group(1) == "escaping_exception":      # name the exception: "... threw std::exception: <what()>"
            w = re.search(r"threw (std::exception|a non-standard exception)(?:: (.*))?", m.group(2))
            if w:
                sig += ":" + re.sub(r"[^A-Za-z_:]+", "_", (w.group(2) or w.group(1)))[:48].strip("_")
        return "violation", sig, m.group(2)[:1500]
    m = re.search(r"C08-UBSAN: ([\w-]+): (\S+?):(\d+):\d+: (.*)", text)
    if m:
        loc = "%s:%s" % (os.path.basename(m.group(2)), m.group(3))
        if "/src/" not in m.group(2):         # reported inside a system header (std::vector::operator[] ...): name the library frame
            loc = _where(text, m.start()) or loc
        fn = re.search(r"\[in ([^\](]+)", m.group(4))       # enclosing function: keeps a signature stable when line numbers move
        return "violation", "ubsan:%s@%s%s" % (m.group(1), loc, "[%s]" % fn.group(1) if fn else ""), ("UndefinedBehaviorSanitizer: " + m.group(4) + "\n" + _report_tail(text, m.start()))[:3000]
    m = re.search(r"ERROR: AddressSanitizer: ([\w-]+)", text)
    if m:
        where = _where(text, m.start())
        return "violation", "asan:" + m.group(1) + ("@" + where if where else ""), ("AddressSanitizer: " + m.group(1) + " " + where + "\n" + _report_tail(text, m.start()))[:3000]
    m = re.search(r"ERROR: libFuzzer: (deadly signal|fuzz target exited|fuzz target overwrites its const input)", text)
    if m:
        where = _where(text, m.start())
        return "violation", "libfuzzer:" + m.group(1).replace(" ", "_") + ("@" + where if where else ""), (m.group(1) + "\n" + _report_tail(text, m.start()))[:3000]
    if rc < 0:
        return "violation", "signal:%d" % (-rc), "process ended by signal %d\n%s" % (-rc, text[-1500:])
    return "violation", "exit:%d" % rc, "process exited with status %d\n%s" % (rc, text[-1500:])


def _where(text, pos):
    """function + file:line of the first stack frame inside the library sources after pos"""
    m = re.compile(r"#\d+ 0x[0-9a-f]+ in (\S+?)[\s(].*?(\S*/src/[^\s:]+):(\d+)").search(text, pos)
    if not m:
        return ""
    return "%s:%s:%s" % (m.group(1).split("<")[0], os.path.basename(m.group(2)), m.group(3))


def _report_tail(text, pos):
    a = text.rfind("\n", 0, pos) + 1
    return "\n".join(text[a:].split("\n")[:22])


_known = None


def known_signature(sig):
    """-> id of the recorded known finding whose signature pattern matches, else None (vp/c08_known.json; every entry
    has a strict replay replays/C08/known/<id>.json that fails on the unchanged tree)"""
    global _known
    if _known is None:
        try:
            _known = [(e["id"], re.compile(e["match"])) for e in json.load(open(os.path.join(lib.VERIF, "vp", "c08_known.json")))["signatures"]]
        except OSError:
            _known = []
    for kid, rx in _known:
        if rx.search(sig):
            return kid
    return None


def read_stats(path):
    d = collections.Counter()
    try:
        for line in open(path):
            p = line.split()
            if len(p) == 2:
                d[p[0]] = int(p[1])
    except OSError:
        pass
    return d


def note_known(ctx, stats):
    """per-site counts of allowed UBSan reports and of skipped known inputs -> ctx.extra (summed over shards by core)"""
    for k, v in stats.items():
        if k.startswith("known_ub_") or k.startswith("skipped_known_"):
            ctx.extra[k] = ctx.extra.get(k, 0) + v


def read_hashes(path):
    try:
        return {l.strip() for l in open(path) if len(l.strip()) == 16}
    except OSError:
        return set()


# --------------------------------------------------------------------------------- engine A
def run_single(target, data, scratch, no_filter=False, probe=None, timeout=300):
    """run one input through a fuzz target -> (kind, signature, message)"""
    os.makedirs(scratch, exist_ok=True)
    f = os.path.join(scratch, "input.bin")
    with open(f, "wb") as o:
        o.write(data)
    try:
        p = subprocess.run([bin_path(target), "-detect_leaks=0", "-rss_limit_mb=4096", "-timeout=%d" % max(timeout - 20, 10), f],
                           env=target_env(os.path.join(scratch, "cwd"), no_filter=no_filter, probe=probe), cwd=scratch,
                           stdout=subprocess.DEVNULL, stderr=subprocess.PIPE, timeout=timeout)
    except subprocess.TimeoutExpired:
        return "noise", "timeout", "timeout"
    return classify(p.stderr.decode("latin-1"), p.returncode)


def fuzz_job(ctx, target, runs, tag, seeded=True):
    sd = ctx.scratch_dir()
    job = os.path.join(sd, "fz_%s_%s" % (target, tag))
    shutil.rmtree(job, ignore_errors=True)
    corpus, art, cwd = os.path.join(job, "corpus"), os.path.join(job, "art"), os.path.join(job, "cwd")
    for d in (corpus, art, cwd):
        os.makedirs(d)
    nseeds = 0
    if seeded:
        nseeds = S.write_run_corpus(corpus, lib.REPO) if target == "fuzz_run" else S.write_db_corpus(corpus, SMALL_DB)
    dict_path = os.path.join(job, "c08.dict")
    S.write_dict(dict_path, lib.REPO, SMALL_DB)
    seed0 = (ctx.hseed * 31 + int(hashlib.sha256((target + tag).encode()).hexdigest()[:6], 16)) & 0x3FFFFFFF
    tot = collections.Counter()
    hashes = set()
    info = {"shard": ctx.shard, "target": target, "tag": tag, "runs_requested": runs, "seeds": nseeds, "segments": 0, "timeouts": 0, "ooms": 0,
            "crash_artifacts": 0, "other_stops": 0}
    remaining, seg, crash_segs = runs, 0, 0
    t_start = time.time()
    seen_art = set()
    seen_sig = set()
    last_cov = None
    jobcase = {"kind": "fuzz_job", "target": target, "tag": tag}
    while remaining > 0 and seg < MAX_SEGMENTS:
        stats_path = os.path.join(job, "stats.%d" % seg)
        logp = os.path.join(job, "log.%d" % seg)
        cmd = [bin_path(target), "-seed=%d" % (seed0 + seg * 7919 + 1), "-runs=%d" % remaining, "-detect_leaks=0", "-rss_limit_mb=4096",
               "-timeout=%d" % FUZZ_TIMEOUT_S.get(ctx.tier, 25), "-artifact_prefix=" + art + "/", "-dict=" + dict_path,
               "-max_len=%d" % MAX_LEN[target], "-print_final_stats=1", "-reload=0", "-entropic=0", corpus]
        with open(logp, "wb") as lg:
            p = subprocess.Popen(cmd, stdout=subprocess.DEVNULL, stderr=lg, env=target_env(cwd, stats=stats_path), cwd=job)
            while p.poll() is None:
                ctx.begin(jobcase)
                time.sleep(0.5)
        rc = p.returncode
        st = read_stats(stats_path)
        hashes |= read_hashes(stats_path + ".h")
        tot.update(st)
        info["segments"] += 1
        log = open(logp, "rb").read().decode("latin-1")
        m = re.findall(r"cov: (\d+) ft: (\d+) corp: (\d+)", log)
        if m:
            last_cov = tuple(int(x) for x in m[-1])
        remaining -= max(st.get("execs", 0), 1)
        seg += 1
        if rc == 0:
            break
        new_art = sorted(set(os.listdir(art)) - seen_art)
        seen_art |= set(new_art)
        crashed = False
        for a in new_art:
            if a.startswith("timeout-") or a.startswith("slow-unit-"):
                info["timeouts"] += a.startswith("timeout-")
            elif a.startswith("oom-"):
                info["ooms"] += 1
            elif a.startswith("crash-"):
                info["crash_artifacts"] += 1
                crashed = True
                handle_crash(ctx, target, os.path.join(art, a), seen_sig)
        if not new_art:
            kind, sig, msg = classify(log, rc)
            if kind == "harness":
                ctx.notes.append("fuzz job %s/%s: harness error: %s" % (target, tag, msg))
                ctx.extra["harness_error"] = True
                break
            info["other_stops"] += 1
            ctx.notes.append("fuzz job %s/%s segment %d stopped with %s (%s) without an artifact: %s" % (target, tag, seg, rc, sig, log[-600:]))
            if info["other_stops"] >= 3:
                break
        if crashed:
            crash_segs += 1
            if crash_segs >= MAX_CRASH_SEGMENTS:
                break
    wall = time.time() - t_start
    cpu_s = tot.get("cpu_ms_process", 0) / 1000.0
    calls = tot.get("calls_ok", 0) + tot.get("calls_failed", 0)
    short = "run" if target == "fuzz_run" else "db"
    for k, v in tot.items():
        if k.startswith(("class_", "mode_", "skipped_", "probes_", "follow_", "trap_", "known_ub_", "slow_")):
            ctx.event("A:%s:%s" % (short, k), v)
    ctx.event("A:%s:calls_failed" % short, tot.get("calls_failed", 0))
    ctx.event("A:%s:calls_ok" % short, tot.get("calls_ok", 0))
    ctx.evaluations += calls
    note_known(ctx, tot)
    ctx.nt.update("A%s" % h for h in hashes)
    info.update({"execs": tot.get("execs", 0), "oracle_calls": calls, "wall_s": round(wall, 1), "cpu_s": round(cpu_s, 1),
                 "exec_per_cpu_s": round(tot.get("execs", 0) / max(cpu_s, 1e-3), 1), "exec_per_wall_s": round(tot.get("execs", 0) / max(wall, 1e-3), 1),
                 "nontrivial_distinct": len(hashes), "runs_left": max(remaining, 0)})
    if last_cov:
        info.update({"cov_edges": last_cov[0], "features": last_cov[1], "corpus_units": last_cov[2]})
    ctx.extra.setdefault("fuzz_jobs", []).append(info)
    for k in ("fuzz_execs", "fuzz_oracle_calls", "fuzz_wall_seconds_sum", "fuzz_cpu_seconds", "fuzz_timeouts", "fuzz_ooms", "fuzz_crash_artifacts"):
        ctx.extra.setdefault(k, 0)
    ctx.extra["fuzz_execs"] += tot.get("execs", 0)
    ctx.extra["fuzz_oracle_calls"] += calls
    ctx.extra["fuzz_wall_seconds_sum"] += round(wall, 1)
    ctx.extra["fuzz_cpu_seconds"] += round(cpu_s, 1)
    ctx.extra["fuzz_timeouts"] += info["timeouts"]
    ctx.extra["fuzz_ooms"] += info["ooms"]
    ctx.extra["fuzz_crash_artifacts"] += info["crash_artifacts"]
    # one sample of what the campaign generated (a unit libFuzzer added to the corpus)
    if len(ctx.samples) < 2:
        new_units = sorted(f for f in os.listdir(corpus) if re.match(r"^[0-9a-f]{40}$", f))
        if new_units:
            data = open(os.path.join(corpus, new_units[len(new_units) // 2]), "rb").read()
            ctx.samples.append({"kind": "fuzz", "target": target, "text": data[:500].decode("latin-1")})
    shutil.rmtree(job, ignore_errors=True)


def handle_crash(ctx, target, path, seen_sig):
    data = open(path, "rb").read()
    sd = os.path.join(ctx.scratch_dir(), "rerun")
    res = []
    for _ in range(3):
        ctx.begin({"kind": "fuzz_job", "target": target, "tag": "rerun"})      # heartbeat for core's watchdog
        res.append(run_single(target, data, sd, timeout=150))
    shutil.rmtree(sd, ignore_errors=True)
    kinds = [r[0] for r in res]
    if all(k == "violation" for k in kinds):
        sig = res[0][1]
        kid = known_signature(sig)
        if kid:
            ctx.event("A:known_finding:" + kid)
            ctx.extra["known_finding_stops"] = ctx.extra.get("known_finding_stops", 0) + 1
            return
        if sig in seen_sig:
            ctx.event("A:duplicate_crash_signature")
            return
        seen_sig.add(sig)
        case = {"kind": "fuzz", "target": target, "b64": base64.b64encode(data).decode("ascii"), "sig": sig}
        ctx.failures.append({"case": case, "oracle": sig, "message": res[0][2][:4000], "test": "fuzz:" + target})
        d = os.path.join(core.OUT, "replays", ID, "found")
        os.makedirs(d, exist_ok=True)
        shutil.copyfile(path, os.path.join(d, "%s-%s" % (target, os.path.basename(path))))
    elif all(k == "noise" for k in kinds):
        ctx.event("A:crash_artifact_is_resource_noise:" + res[0][1])
    elif any(k == "harness" for k in kinds):
        ctx.notes.append("harness error while re-running %s" % os.path.basename(path))
        ctx.extra["harness_error"] = True
    else:
        ctx.extra["flaky_artifacts"] = ctx.extra.get("flaky_artifacts", 0) + 1
        ctx.notes.append("crash artifact %s of %s did not reproduce 3x alone (%s): %s" % (os.path.basename(path), target, kinds, res[0][2][:300]))


# --------------------------------------------------------------------------------- engines B, C: runner
def encode_case(case, cid):
    b = [("CASE %s\n" % cid).encode()]
    for name, arg, payload in case["ops"]:
        pb = payload.encode("latin-1", "replace")
        b.append(("OP %s %s%d\n" % (name, (arg + " ") if arg else "", len(pb))).encode() + pb + b"\n")
    b.append(b"ENDCASE\n")
    return b"".join(b)


class Runner:
    def __init__(self, scratch, no_filter=False, probe=None, case_timeout=API_CASE_TIMEOUT_S):
        self.case_timeout = case_timeout
        self.dir = scratch
        shutil.rmtree(scratch, ignore_errors=True)
        os.makedirs(scratch)
        self.errp = os.path.join(scratch, "runner.err")
        self.errf = open(self.errp, "wb")
        self.stats = os.path.join(scratch, "stats")
        self.p = subprocess.Popen([bin_path("apirunner_asan"), "-"], stdin=subprocess.PIPE, stdout=subprocess.PIPE, stderr=self.errf,
                                  env=target_env(os.path.join(scratch, "cwd"), stats=self.stats, no_filter=no_filter, probe=probe), cwd=scratch, bufsize=0)
        self.buf = b""
        self.history = []
        self.n = 0
        l = self._line(120)
        if l != "READY":
            self.close()
            raise RuntimeError("apirunner_asan did not start: %r %s" % (l, self.err_text()[-800:]))

    def _line(self, timeout):
        end = time.time() + timeout
        while b"\n" not in self.buf:
            left = end - time.time()
            if left <= 0:
                return "TIMEOUT"
            r, _, _ = select.select([self.p.stdout], [], [], min(left, 1.0))
            if r:
                d = os.read(self.p.stdout.fileno(), 65536)
                if not d:
                    return None
                self.buf += d
        l, self.buf = self.buf.split(b"\n", 1)
        return l.decode("latin-1")

    def err_text(self):
        try:
            self.errf.flush()
        except Exception:
            pass
        try:
            return open(self.errp, "rb").read().decode("latin-1")
        except OSError:
            return ""

    def run(self, case):
        """-> ("ok", nt, [classes], [rcs]) | ("skipped", name) | ("died", kind, sig, msg) | ("timeout",)"""
        self.n += 1
        cid = "c%d" % self.n
        try:
            self.p.stdin.write(encode_case(case, cid))
            self.p.stdin.flush()
        except (BrokenPipeError, OSError):
            pass
        while True:
            l = self._line(_timeout_override or self.case_timeout)
            if l == "TIMEOUT":
                self.close(kill=True)
                return ("timeout",)
            if l is None:
                rc = self.p.wait()
                txt = self.err_text()
                self.close()
                kind, sig, msg = classify(txt, rc if rc != 0 else 1)
                return ("died", kind, sig, msg)
            if l.startswith("RES " + cid + " "):
                break
        self.history.append(case)
        f = l.split(" ")
        if f[2] == "skipped":
            return ("skipped", f[3].split("=", 1)[-1])
        kv = dict(x.split("=", 1) for x in f[3:] if "=" in x)
        return ("ok", kv.get("nt") == "1", [c for c in kv.get("cls", "-").split(",") if c != "-"], [c for c in kv.get("rcs", "-").split(",") if c != "-"])

    def alive(self):
        return self.p is not None and self.p.poll() is None

    def close(self, kill=False):
        if self.p is not None:
            try:
                if kill:
                    self.p.kill()
                else:
                    self.p.stdin.close()
                self.p.wait(timeout=60)
            except Exception:
                try:
                    self.p.kill()
                    self.p.wait(timeout=10)
                except Exception:
                    pass
        st = read_stats(self.stats)
        self.p = None
        try:
            self.errf.close()
        except Exception:
            pass
        return st


_runner = None
_timeout_override = None      # shorter per-case limit while engine D runs (huge loop bounds are part of its sub-space)


def get_runner(ctx):
    global _runner
    if _runner is not None and (not _runner.alive() or len(_runner.history) >= BATCH):
        note_known(ctx, _runner.close())
        _runner = None
    if _runner is None:
        _runner = Runner(os.path.join(ctx.scratch_dir(), "api"))
    return _runner


def run_fresh(ctx, cases, no_filter=False, probe=None):
    """run a sequence of cases in a new runner; -> result of the first case that does not answer 'ok'/'skipped', else the last result"""
    r = Runner(os.path.join(ctx.scratch_dir(), "api_fresh"), no_filter=no_filter, probe=probe,
               case_timeout=900 if ctx.tier == "replay" else API_CASE_TIMEOUT_S)
    res = None
    try:
        for c in cases:
            if hasattr(ctx, "begin") and ctx.tier != "replay":
                ctx.begin(c)          # heartbeat
            res = r.run(c)
            if res[0] in ("died", "timeout"):
                return res
    finally:
        r.close()
    return res


def api_classes(case, res):
    meta = case.get("meta", {})
    eng = meta.get("engine", "B")
    cl = ["%s:call=%s" % (eng, c) for c in res[2]]
    if eng == "B":
        cl.append("B:entry=" + meta.get("entry", "?"))
        cl.append("B:db=" + ("small.dat" if meta.get("db", "small.dat") == "small.dat" else "shipped"))
        cl.append("B:mutations=%d" % len([m for m in meta.get("mutations", []) if not m.endswith(("_none", "_noop"))]))
        if "grammar" in meta.get("blocks", []):
            cl.append("B:has_grammar_block")
        if "tail" in meta.get("blocks", []):
            cl.append("B:has_entity_tail")
    if eng == "D":
        cl.append("D:op=" + meta.get("op", "?") + ((":" + meta["value"]) if meta.get("op") == "num" else ""))
    return cl


def check_api(case, ctx, persistent):
    global _runner
    if not persistent:
        res = run_fresh(ctx, [case], no_filter=bool(case.get("strict")), probe=case.get("probe"))
    else:
        r = get_runner(ctx)
        hist = list(r.history)
        res = r.run(case)
    if res[0] == "timeout":
        raise Discard("timeout")
    if res[0] == "skipped":
        raise Discard("known:" + res[1])
    if res[0] == "ok":
        nt = res[1]
        if case.get("meta", {}).get("engine") == "C":
            nt = nt or any(x != "0" for x in res[3])
        return {"nontrivial": nt, "classes": api_classes(case, res)}
    # the runner died
    _, kind, sig, msg = res
    if kind == "noise":
        raise Discard("resource:" + sig)
    if kind == "harness":
        raise RuntimeError("apirunner harness error: " + msg)
    if not case.get("strict") and known_signature(sig):
        ctx.extra["known_finding_stops"] = ctx.extra.get("known_finding_stops", 0) + 1
        raise Discard("known:" + known_signature(sig))
    viol = None
    if not persistent or not hist:
        viol = (sig, msg)
    else:
        # confirm alone in a new process; otherwise look for the shortest history that reproduces it
        alone = run_fresh(ctx, [case])
        if alone[0] == "died" and alone[1] == "violation":
            viol = (alone[2], alone[3])
        elif alone[0] == "timeout" or (alone[0] == "died" and alone[1] == "noise"):
            raise Discard("resource:alone")
    if viol is not None:
        raise Violation(viol[0], viol[1])      # the only raise site (Hypothesis keys failures by raise location)
    full = run_fresh(ctx, hist + [case])
    if not (full[0] == "died" and full[1] == "violation"):
        ctx.notes.append("runner death (%s) reproduced neither alone nor with its history of %d cases: %s" % (sig, len(hist), msg[:300]))
        ctx.extra["flaky_runner_deaths"] = ctx.extra.get("flaky_runner_deaths", 0) + 1
        return {"nontrivial": False, "classes": ["B:flaky_runner_death"]}
    lo, hi = 0, len(hist)          # history[lo:] + case dies, history[hi:] + case does not
    while hi - lo > 1:
        mid = (lo + hi) // 2
        r2 = run_fresh(ctx, hist[mid:] + [case])
        if r2[0] == "died" and r2[1] == "violation":
            lo = mid
        else:
            hi = mid
    seq = {"kind": "api_seq", "cases": hist[lo:] + [case]}
    ctx.failures.append({"case": seq, "oracle": full[2], "message": ("only with %d preceding case(s) in the same process: " % (len(hist) - lo)) + full[3][:3500], "test": "history"})
    return {"nontrivial": False, "classes": ["B:history_dependent_death"]}


def check_case(case, ctx):
    try:
        return _check_case(case, ctx)
    finally:
        if ctx.tier == "replay":      # core's replay entry point does not remove the scratch directory
            shutil.rmtree(ctx.scratch, ignore_errors=True)


def _check_case(case, ctx):
    kind = case.get("kind")
    if kind == "fuzz_job":
        return {}
    if kind == "fuzz":
        data = base64.b64decode(case["b64"])
        k, sig, msg = run_single(case["target"], data, os.path.join(ctx.scratch_dir(), "replay"), no_filter=bool(case.get("strict")), probe=case.get("probe"))
        if k == "violation":
            raise Violation(sig, msg)
        if k == "harness":
            raise RuntimeError("harness error: " + msg)
        if k == "noise":
            raise Discard("resource:" + sig)
        return {"nontrivial": True, "classes": ["replay:fuzz"]}
    if kind == "api":
        return check_api(case, ctx, persistent=(ctx.tier != "replay"))
    if kind == "api_seq":
        res = run_fresh(ctx, case["cases"], no_filter=bool(case.get("strict")))
        if res and res[0] == "died" and res[1] == "violation":
            raise Violation(res[2], res[3])
        return {"nontrivial": True, "classes": ["replay:api_seq"]}
    raise RuntimeError("unknown case kind %r" % kind)


# --------------------------------------------------------------------------------- run
def plan(tier, shard, nshards):
    """fuzz jobs of this shard: every 4th shard fuzzes the database reader, the others the Run* entry points"""
    r = {k: max(int(v * SCALE), 300) for k, v in FUZZ_RUNS[tier].items()}
    if shard % 4 == 3:
        return [("fuzz_db", r["fuzz_db"], "s%d" % shard, True)]
    jobs = [("fuzz_run", r["fuzz_run"], "s%d" % shard, True)]
    if shard == 0:
        e = max(int(EMPTY_LEG_RUNS[tier] * SCALE), 100)
        jobs = [("fuzz_run", r["fuzz_run"] - e, "s0", True), ("fuzz_run", e, "empty", False)]
    return jobs


def enum_core(meta):
    return (meta["op"] == "num" and meta["value"] == "0") or meta["op"] in ("basic_next_variable", "basic_delete_line")


def enum_selection(tier, seed):
    """indices of the enumeration run by this (tier, seed): the core sub-space plus one slice of the rest"""
    cases, excl = G.enum_cases(lib.REPO)
    k = ENUM_SLICE.get(tier, 1)
    sel, r = [], 0
    for idx, (_, _, meta) in enumerate(cases):
        if enum_core(meta):
            sel.append(idx)
        else:
            if r % k == seed % k:
                sel.append(idx)
            r += 1
    return cases, excl, sel


def enum_leg(ctx):
    global _timeout_override
    cases, excl, sel = enum_selection(ctx.tier, ctx.seed)
    if SCALE < 1:
        sel = sel[::max(int(1 / SCALE), 1)]
    mine = sel[ctx.shard::ctx.nshards]
    ran = 0
    _timeout_override = ENUM_CASE_TIMEOUT_S
    try:
        for idx in mine:
            name, text, meta = cases[idx]
            case = G.enum_case(name, text, meta, idx)
            ctx.begin(case)
            try:
                info = check_api(case, ctx, persistent=True)
            except Discard as d:
                ctx.discard("D:" + d.why)
                continue
            except Violation as v:
                ctx.failures.append({"case": case, "oracle": v.oracle, "message": ("enumeration %s %r: " % (name, meta)) + v.msg[:3500], "test": "enum"})
                continue
            ctx.record(case, info.get("nontrivial", False), info.get("classes", ()))
            ran += 1
    finally:
        _timeout_override = None
    ctx.extra["enum_run"] = ran
    if ctx.shard == 0:
        ctx.extra["enum_total"] = len(cases)
        ctx.extra["enum_selected"] = len(sel)
        ctx.extra["enum_core"] = sum(1 for _, _, m in cases if enum_core(m))
        ctx.extra["enum_excluded_big_value_on_count_like_line"] = excl["count_like_big"]
        ctx.extra["enum_excluded_int_max_user_number_known_K3"] = excl["known_K3_user_number"]
        ctx.extra["enum_exhaustive"] = bool(ENUM_SLICE.get(ctx.tier, 1) == 1 and SCALE >= 1)
        ctx.extra["enum_subspace"] = ("%d seed inputs x (each numeric token := one of %s; each BASIC line deleted / one token deleted / NEXT given another "
                                      "variable); %s" % (len(G.enum_seed_texts(lib.REPO)), " ".join(G.ENUM_VALUES),
                                                         "all of it" if ENUM_SLICE.get(ctx.tier, 1) == 1 else "core (:= 0, line deleted, NEXT variable) + slice %d of %d of the rest" % (ctx.seed % ENUM_SLICE[ctx.tier], ENUM_SLICE[ctx.tier])))


def run(ctx):
    global _runner
    for target, runs, tag, seeded in plan(ctx.tier, ctx.shard, ctx.nshards):
        fuzz_job(ctx, target, runs, tag, seeded)
    # engine C: the enumerated fault list, dealt round-robin to the shards
    faults = G.fault_cases()
    mine = [(n, c) for i, (n, c) in enumerate(faults) if i % ctx.nshards == ctx.shard]
    done = []
    for name, case in mine:
        ctx.begin(case)
        try:
            info = check_api(case, ctx, persistent=True)
        except Discard as d:
            ctx.discard("C:" + d.why)
            continue
        except Violation as v:
            ctx.failures.append({"case": case, "oracle": v.oracle, "message": ("fault %s: " % name) + v.msg[:3500], "test": "faults"})
            continue
        ctx.record(case, info.get("nontrivial", False), info.get("classes", ()))
        done.append(name)
    ctx.extra["fault_list"] = done
    ctx.extra["faults_enumerated"] = len(faults) if ctx.shard == 0 else 0
    ctx.extra["faults_run"] = len(done)
    enum_leg(ctx)
    # engine B
    ctx.hyp(G.api_case(), lambda c: check_api(c, ctx, persistent=True), max(int(GRAMMAR_CASES[ctx.tier] * SCALE), 20), "grammar")
    if _runner is not None:
        note_known(ctx, _runner.close())
        _runner = None
