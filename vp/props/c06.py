"""C06 - deterministic results; instances are isolated and usable from parallel threads.

Hypothesis owns the *schedule program* (threads, operations, barrier points); the C++ harness shim/mt_harness.cpp
(built twice: clang ThreadSanitizer `mt_tsan`, g++ -O2 `mt_rel`) owns the threads.  check_case() only runs the harness
binaries as subprocesses on the saved schedule, so --replay needs nothing but the case.
"""
import os, re, shutil, signal, subprocess, time, json, hashlib
from hypothesis import strategies as st
from .. import lib
from .. import c06_wl as wl
from ..core import Violation, Discard, sha

ID = "C06"
LEVEL = "exploration"
RULE = ("Hypothesis-generated schedule programs: 2-8 threads, each a list of {create (C API / C++ new), load (file/string; corpus/mt/small.dat, "
        "phreeqc.dat, pitzer.dat), set switches (string + file switches), run (RunString/RunFile/AccumulateLine+RunAccumulated; workload pool: "
        "speciation+equilibrium phases+dump, kinetics Runge-Kutta and CVODE, 3-cell advective transport with exchange, 3-cell multicomponent-"
        "diffusion transport, inverse model, BASIC-heavy USER_PUNCH/USER_PRINT, error-producing input, REACTION with digit/fractional/exponent formulas, and an "
        "error-free 'sticky' input that leaves errno == ERANGE behind on the calling thread (8 variants: EXP/LOG10/power/literal range "
        "errors), BASIC programs that divide by a run-time zero on fixed line numbers (run-time warnings), BASIC DIM numeric/string arrays "
        "of 8-5000 elements read before written (then filled with garbage); 16 parameter values each; workloads "
        "use disjoint reactant numbers so any sequence on one instance stays cheap), read all channels (selected-output tables bitwise, output/"
        "log/dump/error/warning strings, line counts, components, default-named files), destroy} on its own instances, with 1-3 barrier points "
        "that start operations of different threads simultaneously (run-vs-destroy, run-vs-create, create-vs-destroy, load-vs-run, all-create, "
        "all-run, mixed); in every schedule at least one thread owns two instances A, B whose call sequences interleave (B.load|run, "
        "A.run [sticky in 2 of 4], B.run [the same program as A in 1 of 4]); in 1 of 4 schedules an extra thread replays another thread's program without barriers (twin histories). Each "
        "schedule is executed by the ThreadSanitizer build (1 sequential + 3 concurrent processes) and by the release build (1 sequential, "
        "2x reverse-order sequential, one solo process per thread, one solo process per INSTANCE (its own call sequence alone, MALLOC_PERTURB_=165; the reverse runs use 90), 3 concurrent processes x 10 iterations). Excluded by construction and "
        "counted (known finding): TRANSPORT runs in more than one thread of a schedule (one thread per schedule may run them). Non-trivial = a ThreadSanitizer-instrumented concurrent execution of the schedule had >=2 threads inside library calls at "
        "the same time AND >=1 create/destroy overlapping a run (relaxed atomic counters in the harness); distinct by SHA-256 of the case")
ASSUMPTIONS = ["ThreadSanitizer (clang 14, -O1) reports every happens-before violation on the paths a schedule executes, and only those; paths "
               "and interleavings not executed by a sampled schedule are not covered (schedules are sampled, not enumerated)",
               "the harness adds no synchronisation between threads other than the schedule's barriers (overlap counters are relaxed atomics, "
               "results are collected per thread and merged after join)",
               "removing the qsort lock of thread.h is behaviourally unobservable with glibc (its qsort keeps no shared state); no dynamic "
               "check can flag it and none is claimed",
               "bitwise comparison is made within one build only (tsan vs tsan, rel vs rel), after masking the 'End of Run after X Seconds.' "
               "banner with its dashed lines and the instance id inside default file names; long strings are compared by length + 128-bit hash",
               "a ThreadSanitizer report counts when it involves a frame below <repo>/src and is seen in >=2 executions of the same schedule (a "
               "single unreproduced report is recorded in the evidence notes); a report with harness-only stacks aborts the run as a harness error",
               "time never decides a verdict: an execution still consuming CPU after 300 s discards the case (counted); a deadlock needs 3 of 3 "
               "executions in which every thread sleeps in futex(2) with unchanged CPU time and context-switch counts over 7 samples 5 s apart"]
TECHNIQUE = ("property-based testing (Hypothesis) of thread schedules: ThreadSanitizer race detection + differential concurrent vs "
             "sequential vs reverse vs per-thread solo vs per-instance solo vs repeated execution of the same call sequences, bitwise on all channels; id uniqueness")
LEVEL_TEXT = ("Exploration: each run executes 64 (quick) to 1600 (thorough) generated multi-thread schedules under ThreadSanitizer "
              "and, with 10x the volume, in the release build; every instance's observations (tables bitwise, all strings and files) must be "
              "the same whether the instance's call sequence ran alone in a fresh process, its thread ran alone, sequentially, or concurrently with up to 7 others, in every repetition, and ids must be "
              "unique and never reused. Limits: schedules and interleavings are sampled; TSan sees only executed paths; the qsort lock cannot "
              "be observed on glibc; TRANSPORT runs in two threads at once are excluded (known finding: transport.cpp file-scope globals).")
FLOORS = {"quick": 40, "thorough": 1000}
_NSH = os.environ.get("VERIF_C06_SHARDS")       # development only: fewer worker processes on a shared machine (same total budget)
SHARDS = {"quick": int(_NSH) if _NSH else 8, "thorough": int(_NSH) if _NSH else 16}
BUDGET = {"quick": 64, "thorough": 1600, "replay": 1}      # schedules per run (all shards together)

TIMEOUT = float(os.environ.get("VERIF_C06_TIMEOUT", "300"))     # generous: a harness execution normally takes 0.02 - 1 s
TSAN_OPTS = ("halt_on_error=0 exitcode=66 report_signal_unsafe=0 second_deadlock_stack=1 history_size=4 "
             "symbolize=1 external_symbolizer_path=/usr/bin/llvm-symbolizer")
SUPP = os.path.join(os.path.dirname(os.path.abspath(__file__)), "..", "c06_tsan.supp")
REPORT_LIMIT = 30.0    # a TSan process that has printed a report is not waited for longer than this
TSAN_CONC = 3          # concurrent executions under ThreadSanitizer per schedule
REL_CONC = 3           # concurrent release-build processes per schedule ...
REL_ITERS = 10         # ... each repeating the schedule this many times
MAX_FREE_RUNS = 3      # runs per thread beyond which only barrier-role runs are added (keeps a schedule at a few seconds)
SHRINK_EVALS = 12      # schedule evaluations allowed after the first violation in a shard (shrinking)
HEAVY = ["transport", "transport_md", "kin_cvode", "kin_rk", "inverse"]


def prepare(tier):
    lib.build("tsan", ["mt_tsan"])
    lib.build("rel", ["mt_rel"])


def binpath(variant):
    return os.path.join(lib.BUILD, variant, "mt_" + variant)


# ------------------------------------------------------------------------------- generator
class _T:
    """generation-time state of one thread"""

    def __init__(self, transport_ok=True):
        self.ops, self.live, self.nslot = [], {}, 0
        self.transport_ok = transport_ok     # known finding C06-transport-globals: TRANSPORT runs are confined to one thread
        self.excluded = 0


def _mask(draw):
    k = draw(st.integers(0, 9))
    if k == 0:
        return 0x08                      # defaults: only the error string
    m = 0x1f
    if k >= 6:
        m |= draw(st.integers(0, 31)) << 5   # file switches
    return m


def _create(draw, t):
    s = t.nslot
    t.nslot += 1
    t.ops.append({"op": "create", "s": s, "api": draw(st.sampled_from(["c", "cpp"]))})
    t.live[s] = None
    return s


def _load(draw, t, s):
    db = draw(st.sampled_from(wl.DB_WEIGHTED))
    t.ops.append({"op": "load", "s": s, "db": db, "via": draw(st.sampled_from(["file", "file", "string"]))})
    t.live[s] = db


def _set(draw, t, s):
    t.ops.append({"op": "set", "s": s, "mask": _mask(draw)})


def _run(draw, t, s, heavy=False, sticky=False):
    db = t.live[s]
    names = [n for n in sorted(wl.WORKLOADS) if db in wl.WORKLOADS[n] and (not heavy or n in HEAVY)]
    if sticky:
        names = [n for n in names if n in wl.STICKY_WL]
    if not t.transport_ok:
        names = [n for n in names if n not in wl.TRANSPORT_WL]
        t.excluded += 1      # a draw from which the transport workloads were struck (exclusion by construction, counted)
    t.ops.append({"op": "run", "s": s, "wl": draw(st.sampled_from(names)), "p": draw(st.integers(0, wl.NPARAM - 1)),
                  "via": draw(st.sampled_from(["string", "string", "file", "accum"]))})


def _read(t, s):
    t.ops.append({"op": "read", "s": s})


def _destroy(t, s):
    t.ops.append({"op": "destroy", "s": s})
    del t.live[s]


def _pick_live(draw, t):
    if not t.live:
        return _create(draw, t)
    return draw(st.sampled_from(sorted(t.live)))


def _pick_loaded(draw, t):
    s = [k for k in sorted(t.live) if t.live[k]]
    if s:
        return draw(st.sampled_from(s))
    k = _pick_live(draw, t)
    _load(draw, t, k)
    _set(draw, t, k)
    return k


def _interleave(draw, t):
    """two instances A, B of this thread with interleaved call sequences: B.load ... A.run(sticky state) ... B.run.
    Whatever A leaves behind outside its own object (errno, statics, caches) lies between two calls of B."""
    loaded = [k for k in sorted(t.live) if t.live[k]]
    if len(loaded) >= 2 and draw(st.booleans()):
        pair = draw(st.permutations(loaded))[:2]
        a, b = pair[0], pair[1]
        if draw(st.booleans()):          # B.run, A.run, B.run instead of B.load, A.run, B.run
            _run(draw, t, b)
            _read(t, b)
    else:
        a = _create(draw, t)
        b = loaded[0] if loaded and draw(st.booleans()) else _create(draw, t)
        _load(draw, t, b)
        _set(draw, t, b)
        _load(draw, t, a)
        _set(draw, t, a)
    kind = draw(st.sampled_from(["sticky", "sticky", "same", "free"]))
    _run(draw, t, a, sticky=(kind == "sticky"))
    _read(t, a)
    if kind == "same" and t.ops[-2]["wl"] in wl.WORKLOADS and t.live[b] in wl.WORKLOADS[t.ops[-2]["wl"]]:
        # identical programs in two instances of one process (throttled / "reported once" process-wide state would show)
        t.ops.append(dict(t.ops[-2], s=b))
    else:
        _run(draw, t, b)
    _read(t, b)
    if len(t.live) > 2 and draw(st.booleans()):
        _destroy(t, a)


def _nruns(t):
    return sum(1 for o in t.ops if o["op"] == "run")


def _free(draw, t):
    a = draw(st.sampled_from(["run", "run", "new", "destroy", "reload", "set", "interleave"]))
    if a in ("run", "interleave") and _nruns(t) >= MAX_FREE_RUNS:
        a = "set"
    if a == "interleave":
        _interleave(draw, t)
    elif a == "run":
        s = _pick_loaded(draw, t)
        _run(draw, t, s)
        _read(t, s)
    elif a == "new" and len(t.live) < 3:
        s = _create(draw, t)
        _load(draw, t, s)
        _set(draw, t, s)
    elif a == "destroy" and len(t.live) > 1:
        _destroy(t, draw(st.sampled_from(sorted(t.live))))
    elif a == "reload" and t.live:
        s = _pick_live(draw, t)
        _load(draw, t, s)
    elif a == "set" and t.live:
        _set(draw, t, _pick_live(draw, t))


PATTERNS = {"run_destroy": ["run", "destroy"], "run_create": ["run", "create"], "create_destroy": ["create", "destroy"],
            "load_run": ["load", "run"], "all_create": ["create", "create"], "all_run": ["run", "run"], "mixed": None}


@st.composite
def case_strategy(draw):
    n = draw(st.sampled_from([2, 2, 3, 3, 3, 4, 4, 5, 6, 8]))
    tt = draw(st.integers(0, n - 1))      # the only thread whose program may contain TRANSPORT runs
    T = [_T(i == tt) for i in range(n)]
    nbar = draw(st.integers(1, 3))
    counts, patterns = [], []
    # at least one thread of every schedule owns two instances whose call sequences interleave (before or after its barriers)
    il = draw(st.integers(0, n - 1))
    il_first = draw(st.booleans())
    if il_first:
        _interleave(draw, T[il])
    for b in range(nbar):
        pat = draw(st.sampled_from(["run_destroy", "run_create"] if b == 0 else sorted(PATTERNS)))
        patterns.append(pat)
        k = draw(st.integers(2, n))
        part = sorted(draw(st.permutations(list(range(n))))[:k])
        counts.append(k)
        base = PATTERNS[pat]
        for j, ti in enumerate(part):
            t = T[ti]
            role = base[j] if base and j < 2 else draw(st.sampled_from(sorted(set(base)) if base else ["run", "create", "destroy", "load"]))
            for _ in range(draw(st.integers(0, 1))):
                _free(draw, t)
            # preparation before the barrier, the role operation right after it
            if role == "create":
                t.ops.append({"op": "bar", "id": b})
                s = _create(draw, t)
                if draw(st.booleans()):
                    _load(draw, t, s)
                    _set(draw, t, s)
                    _run(draw, t, s)
                    _read(t, s)
            elif role == "destroy":
                s = _pick_live(draw, t)
                if t.live[s] is None and draw(st.booleans()):
                    _load(draw, t, s)
                    _run(draw, t, s)
                    _read(t, s)
                t.ops.append({"op": "bar", "id": b})
                _destroy(t, s)
            elif role == "run":
                s = _pick_loaded(draw, t)
                t.ops.append({"op": "bar", "id": b})
                _run(draw, t, s, heavy=True)
                _read(t, s)
            else:  # load
                s = _pick_live(draw, t)
                t.ops.append({"op": "bar", "id": b})
                _load(draw, t, s)
                if draw(st.booleans()):
                    _set(draw, t, s)
                _run(draw, t, s)
                _read(t, s)
    if not il_first:
        _interleave(draw, T[il])
    for t in T:
        if not t.ops:      # a thread that takes part in no barrier still does something
            s = _create(draw, t)
            _load(draw, t, s)
            _set(draw, t, s)
            _run(draw, t, s)
            _read(t, s)
        for s in sorted(t.live):
            if t.live[s] and _nruns(t) < MAX_FREE_RUNS and draw(st.booleans()):
                _run(draw, t, s)
                _read(t, s)
            _destroy(t, s)
    threads = [t.ops for t in T]
    # an extra thread that replays the call history of another thread's instances without taking part in any barrier:
    # same histories, different interleaving, same process -> the observations of the twins must be equal
    cand = [i for i in range(n) if not any(o["op"] == "run" and o["wl"] in wl.TRANSPORT_WL for o in threads[i])]
    twin = n < 8 and bool(cand) and draw(st.integers(0, 3)) == 0
    if twin:
        src = draw(st.sampled_from(cand))
        threads.append([dict(o) for o in threads[src] if o["op"] != "bar"])
    return {"kind": "sched", "threads": threads, "barriers": counts, "patterns": patterns + (["twin_thread"] if twin else []),
            "excluded_transport_draws": sum(t.excluded for t in T)}


# ------------------------------------------------------------------------------- schedule rendering
def render(case, sd):
    """write the input files and the schedule text into sd; returns the schedule path"""
    files = {}
    L = ["C06SCHED 1", "threads %d" % len(case["threads"])]
    for i, c in enumerate(case["barriers"]):
        L.append("barrier %d %d" % (i, c))
    for ti, ops in enumerate(case["threads"]):
        L.append("thread %d" % ti)
        for o in ops:
            k = o["op"]
            if k == "create":
                L.append("create %d %s" % (o["s"], o["api"]))
            elif k == "load":
                db = o["db"]
                L.append("load %d %s %s" % (o["s"], o["via"], wl.dbpath(db)))
            elif k == "set":
                L.append("set %d %x" % (o["s"], o["mask"]))
            elif k == "run":
                key = "%s_%d" % (o["wl"], o["p"])
                if "text" in o:        # saved cases carry their input text (independent of the corpus)
                    key += "_" + hashlib.sha256(o["text"].encode()).hexdigest()[:8]
                if key not in files:
                    files[key] = os.path.join(sd, "w_%s.pqi" % key)
                    with open(files[key], "w") as f:
                        f.write(o["text"] if "text" in o else wl.render(o["wl"], o["p"]))
                L.append("run %d %s %s" % (o["s"], o["via"], files[key]))
            elif k == "read":
                L.append("read %d" % o["s"])
            elif k == "destroy":
                L.append("destroy %d" % o["s"])
            elif k == "bar":
                L.append("bar %d" % o["id"])
        L.append("end")
    p = os.path.join(sd, "sched.txt")
    with open(p, "w") as f:
        f.write("\n".join(L) + "\n")
    return p


# ------------------------------------------------------------------------------- harness execution
class Res:
    __slots__ = ("rc", "stderr", "hung", "recs", "stats", "ids", "complete")


def parse_result(path):
    recs, stats, ids, complete = {}, [], [], False
    try:
        with open(path, "rb") as f:
            txt = f.read().decode("latin-1")
    except OSError:
        return recs, stats, ids, complete
    for line in txt.split("\n"):
        if line.startswith("R "):
            p = line.split(" ")
            it, th, oi = int(p[1]), int(p[2]), int(p[3])
            fields = {}
            for kv in p[6:]:
                k, _, v = kv.partition("=")
                fields[k] = v
            if "id" in fields:
                ids.append((it, th, oi, int(fields.pop("id"))))
            recs.setdefault(it, {})[(th, oi)] = (p[4], fields)
        elif line.startswith("S "):
            d = {}
            for kv in line.split(" ")[2:]:
                k, _, v = kv.partition("=")
                d[k] = float(v)
            stats.append(d)
        elif line.startswith("E ok"):
            complete = True
    return recs, stats, ids, complete


# ---- watchdog.  Time never decides a verdict: an execution that exceeds the limit while its threads still consume CPU is
# "slow" -> the case is discarded (counted, inconclusive).  A *deadlock* needs positive evidence from the kernel: at
# consecutive samples (POLL seconds apart, BLOCKED_SAMPLES times in a row) every thread of the harness process sleeps (state S)
# inside futex(2) - or, for the sanitizer's background thread, inside a sleep call - with unchanged CPU ticks and unchanged
# context-switch counts of all futex waiters.  A process in that state has no thread left that could wake another one.
# Three executions of the same schedule must all end like that before a deadlock is reported.
POLL = 5.0
BLOCKED_SAMPLES = 6
SYS_FUTEX, SYS_SLEEPS = 202, (35, 230)       # x86-64: futex; nanosleep, clock_nanosleep


def sample_threads(pid):
    """{tid: (state, cpu ticks, context switches, syscall number or None)}; None when the process is gone"""
    out = {}
    try:
        tids = os.listdir("/proc/%d/task" % pid)
    except OSError:
        return None
    for tid in tids:
        base = "/proc/%d/task/%s/" % (pid, tid)
        try:
            with open(base + "stat") as f:
                st = f.read()
            rest = st[st.rindex(")") + 2:].split()
            with open(base + "status") as f:
                sw = sum(int(l.split()[1]) for l in f if "ctxt_switches" in l)
            with open(base + "syscall") as f:
                sc = f.read().split()
            nr = int(sc[0]) if sc and sc[0].lstrip("-").isdigit() else None
            out[tid] = (rest[0], int(rest[11]) + int(rest[12]), sw, nr)
        except (OSError, ValueError, IndexError):
            return None
    return out


def all_blocked(a, b):
    if not a or not b or set(a) != set(b):
        return False
    nfutex = 0
    for tid in a:
        for s in (a[tid], b[tid]):
            if s[0] != "S" or s[3] is None:
                return False
        if a[tid][3] == SYS_FUTEX and b[tid][3] == SYS_FUTEX:
            if a[tid][1:3] != b[tid][1:3]:
                return False
            nfutex += 1
        elif not (a[tid][3] in SYS_SLEEPS and b[tid][3] in SYS_SLEEPS):
            return False
    return nfutex >= 1


def run_watched(cmd, wd, env, limit, report_limit=None):
    """-> (returncode | None, stderr text, verdict) with verdict in {"done", "blocked", "slow", "reported"}.
    "reported": the process had already written a sanitizer report and was still running after report_limit seconds (a race
    that corrupted a container can make the process spin); the report is the evidence, the time only ends the wait."""
    errp = os.path.join(wd, "stderr.txt")
    with open(errp, "wb") as ef:
        p = subprocess.Popen(cmd, cwd=wd, env=env, stdout=subprocess.DEVNULL, stderr=ef, start_new_session=True)
        t0 = time.monotonic()
        prev, still, verdict = None, 0, "done"
        while True:
            try:
                p.wait(timeout=POLL if prev is not None or limit > POLL else limit)
                break
            except subprocess.TimeoutExpired:
                pass
            cur = sample_threads(p.pid)
            still = still + 1 if all_blocked(prev, cur) else 0
            prev = cur
            el = time.monotonic() - t0
            if still >= BLOCKED_SAMPLES:
                verdict = "blocked"
            elif report_limit is not None and el > report_limit and _has_report(errp):
                verdict = "reported"
            elif el > limit:
                verdict = "slow"
            if verdict != "done":
                try:
                    os.killpg(p.pid, signal.SIGKILL)
                except OSError:
                    pass
                p.wait()
                break
    with open(errp, "rb") as f:
        err = f.read().decode("latin-1")
    return (p.returncode if verdict == "done" else None), err, verdict


def _has_report(path):
    try:
        with open(path, "rb") as f:
            return b"WARNING: ThreadSanitizer" in f.read()
    except OSError:
        return False


def execute(ctx, variant, sched, sd, tag, args, full=False, perturb=None):
    """one harness process in its own working directory; perturb: value of glibc's MALLOC_PERTURB_ (every allocated block is
    filled with ~value, every freed block with value) - results must not depend on the state of the allocator"""
    blocked = 0
    while True:
        wd = os.path.join(sd, tag)
        shutil.rmtree(wd, ignore_errors=True)
        os.makedirs(wd)
        out = os.path.join(wd, "result.txt")
        env = dict(os.environ)
        env.pop("MALLOC_PERTURB_", None)
        if perturb is not None:
            env["MALLOC_PERTURB_"] = str(perturb)
        if variant == "tsan":
            opts = TSAN_OPTS
            if os.path.exists(SUPP):
                opts += " suppressions=" + os.path.abspath(SUPP)
            env["TSAN_OPTIONS"] = opts
        cmd = [binpath(variant)] + args + (["--full", os.path.join(wd, "full")] if full else []) + ["--out", out, sched]
        r = Res()
        r.rc, r.stderr, verdict = run_watched(cmd, wd, env, TIMEOUT, REPORT_LIMIT if variant == "tsan" else None)
        r.hung = verdict != "done"
        ctx._beat = time.time()
        if verdict == "reported":
            ctx.event("killed_after_sanitizer_report")
            r.recs, r.stats, r.ids, r.complete = {}, [], [], False
            shutil.rmtree(wd, ignore_errors=True)
            return r
        if verdict == "slow":
            ctx.event("timeout_inconclusive")
            raise Discard("inconclusive: a harness execution was still running (consuming CPU) after %.0f s" % TIMEOUT)
        if verdict == "blocked":
            blocked += 1
            if blocked >= 3:
                raise Violation("deadlock", "%s %s: in 3 of 3 executions every thread of the harness process ended up sleeping in "
                                "futex(2) with no CPU time and no context switch during %d consecutive samples %.0f s apart (no thread "
                                "left that could wake another)" % (variant, " ".join(args), BLOCKED_SAMPLES + 1, POLL))
            ctx.event("blocked_execution_retried")
            continue
        if blocked:
            ctx.notes.append("an execution with all threads blocked was not reproduced (%d of %d) for case schedule %s" % (blocked, blocked + 1, tag))
        r.recs, r.stats, r.ids, r.complete = parse_result(out)
        if not full:
            shutil.rmtree(wd, ignore_errors=True)
        if r.rc == 2:
            raise RuntimeError("harness rejected the schedule: " + r.stderr[-500:])
        return r


def split_reports(stderr):
    """the individual ThreadSanitizer reports of one execution"""
    out = []
    for blk in stderr.split("=================="):
        if "ThreadSanitizer" in blk and ("WARNING:" in blk or "FATAL:" in blk):
            out.append(blk.strip("\n"))
    return out


_FRAME = re.compile(r"#\d+ (.+?) (/[^\s:()]+)(?::\d+)*(?: \(|$)", re.M)


def library_frames(report):
    """source files below the library tree that appear in the report's stacks"""
    root = os.path.realpath(os.path.join(lib.REPO, "src")) + os.sep
    return sorted({f for _, f in _FRAME.findall(report) if os.path.realpath(f).startswith(root)})


def tsan_reports(r):
    """reports that involve library code.  A report whose stacks lie entirely inside the harness (or that could not be symbolised)
    is a defect of this check, never a verdict about the library: it aborts the shard as a harness error (=> INCONCLUSIVE)."""
    reps = split_reports(r.stderr)
    libreps = [x for x in reps if library_frames(x)]
    if reps and not libreps:
        raise RuntimeError("ThreadSanitizer report without any frame in %s/src (harness bug or unsymbolised report):\n%s" % (lib.REPO, reps[0][:3000]))
    return libreps


def first_report(reps, lim=6000):
    return reps[0][:lim] if reps else ""


def report_signature(rep):
    m = re.search(r"ThreadSanitizer: ([a-z \-]+)", rep)
    kind = m.group(1).strip() if m else "?"
    fr = re.findall(r"#0 (\S+)", rep)
    return kind + " @ " + "/".join(fr[:2])


def check_crash(r, what):
    if r.rc not in (0, 66) or not r.complete:
        raise Violation("process-death", "%s exited with %s without a complete result\n%s" % (what, r.rc, r.stderr[-2500:]))


def compare(ref, res, what, threads=None, keys=None):
    """ref: records of iteration 0 of the reference; res: Res of the other execution.  Every iteration must match."""
    want = {k: v for k, v in ref.items() if (threads is None or k[0] in threads) and (keys is None or k in keys)}
    for it in sorted(res.recs):
        got = res.recs[it]
        if set(got) != set(want):
            d = sorted(set(got) ^ set(want))[:5]
            raise Violation("observations", "%s iteration %d: set of executed operations differs from the reference at (thread, op) %r" % (what, it, d))
        for k in sorted(want):
            if got[k] == want[k]:
                continue
            f = sorted(x for x in set(got[k][1]) | set(want[k][1]) if got[k][1].get(x) != want[k][1].get(x))
            raise Violation("observations", "%s iteration %d: thread %d operation %d (%s): channel(s) %s differ from the reference execution: "
                            "%s" % (what, it, k[0], k[1], want[k][0], ",".join(f),
                                    "; ".join("%s ref=%s got=%s" % (x, want[k][1].get(x), got[k][1].get(x)) for x in f[:4])),
                            detail={"thread": k[0], "op": k[1], "fields": f, "iter": it})
    if not res.recs:
        raise Violation("observations", "%s: no observations in the result" % what)


def check_ids(r, what):
    seen = {}
    for it, th, oi, i in r.ids:
        if i < 0:
            raise Violation("ids", "%s: create in thread %d op %d (iteration %d) returned id %d" % (what, th, oi, it, i))
        if i in seen:
            raise Violation("ids", "%s: id %d handed out twice in one process: to thread %d op %d (iteration %d) and to thread %d op %d "
                            "(iteration %d)" % ((what, i) + seen[i] + (th, oi, it)))
        seen[i] = (th, oi, it)


def histories(case):
    """(thread, [op indices]) per instance incarnation, keyed by the operation history (slot numbers removed)"""
    out = {}
    for ti, ops in enumerate(case["threads"]):
        cur = {}
        for oi, o in enumerate(ops):
            if o["op"] == "bar":
                continue
            s = o["s"]
            if o["op"] == "create":
                cur[s] = ([], [])
            if s not in cur:
                continue
            cur[s][0].append(json.dumps({k: v for k, v in o.items() if k != "s"}, sort_keys=True))
            cur[s][1].append(oi)
            if o["op"] == "destroy":
                key, idx = cur.pop(s)
                out.setdefault("|".join(key), []).append((ti, idx))
    return out


def instances(case):
    """[(thread, index of the create operation, [operation indices of that instance's call sequence])]"""
    out = []
    for key, insts in sorted(histories(case).items()):
        for ti, idx in insts:
            out.append((ti, idx[0], idx))
    return sorted(out)


def interleaved_pairs(case):
    """number of (A, B) instance pairs of one thread with a run of A strictly between two calls of B"""
    n = 0
    for ti, ops in enumerate(case["threads"]):
        inst = [x for x in instances(case) if x[0] == ti]
        for _, _, ia in inst:
            runs_a = [i for i in ia if ops[i]["op"] == "run"]
            for _, _, ib in inst:
                if ib is ia:
                    continue
                calls_b = [i for i in ib if ops[i]["op"] in ("load", "run")]
                if any(calls_b[0] < r < calls_b[-1] for r in runs_a) if calls_b else False:
                    n += 1
    return n


def check_twins(case, r, what):
    """instances with the same call history must have the same observations, whatever ran next to them"""
    n = 0
    for key, insts in histories(case).items():
        if len(insts) < 2:
            continue
        for it, recs in r.recs.items():
            base = None
            for ti, idx in insts:
                obs = [recs.get((ti, oi)) for oi in idx]
                if base is None:
                    base = (ti, obs)
                elif obs != base[1]:
                    raise Violation("twins", "%s iteration %d: two instances with the same call history (threads %d and %d) observed different "
                                    "results" % (what, it, base[0], ti))
            n += 1
    return n


def diff_text(ctx, variant, sched, sd, case, detail):
    """best effort: re-run sequential + concurrent with --full and show the first differing line of a differing channel"""
    try:
        a = execute(ctx, variant, sched, sd, "full_seq", ["--mode", "seq"], full=True)
        for k in range(3):
            b = execute(ctx, variant, sched, sd, "full_conc", ["--mode", "conc", "--iters", "3"], full=True)
            da, db = os.path.join(sd, "full_seq", "full"), os.path.join(sd, "full_conc", "full")
            for fn in sorted(os.listdir(db)):
                ref = os.path.join(da, re.sub(r"^i\d+\.", "i0.", fn))
                if not os.path.exists(ref):
                    continue
                x, y = open(ref, "rb").read().decode("latin-1"), open(os.path.join(db, fn), "rb").read().decode("latin-1")
                if x != y:
                    xl, yl = x.split("\n"), y.split("\n")
                    for i in range(max(len(xl), len(yl))):
                        u = xl[i] if i < len(xl) else "<eof>"
                        v = yl[i] if i < len(yl) else "<eof>"
                        if u != v:
                            return "\nfirst difference in %s line %d:\n  sequential: %s\n  concurrent: %s" % (fn, i + 1, u[:300], v[:300])
        return "\n(the difference did not reproduce in 3 further executions with --full)"
    except Violation:
        raise
    except Exception as e:
        return "\n(no text diff: %s)" % e
    finally:
        for t in ("full_seq", "full_conc"):
            shutil.rmtree(os.path.join(sd, t), ignore_errors=True)


_memo = {}
_after_fail = [0]      # evaluations spent after the first violation of this process (= shrinking)


def check_case(case, ctx):
    # Hypothesis identifies a failure by exception type + raising line (+ exception context): every verdict is therefore
    # raised from the two lines below, outside any except block, and one process gives one verdict per case (memo).
    v = _verdict(case, ctx)
    if isinstance(v, Violation):
        raise Violation(v.oracle, v.msg, v.detail)
    if isinstance(v, Discard):
        raise Discard(v.why)
    return v


def _verdict(case, ctx):
    h = sha(case)
    if h in _memo:
        return _memo[h]
    failed_before = any(isinstance(v, Violation) for v in _memo.values())
    if failed_before and ctx.tier != "replay":
        # shrinking re-evaluates a whole schedule (seconds) per attempt: bounded by a count, the smallest failing case so far is kept
        _after_fail[0] += 1
        if _after_fail[0] > SHRINK_EVALS:
            return Discard("not evaluated: shrink budget of %d evaluations after a violation is used up" % SHRINK_EVALS)
    try:
        v = _check(case, ctx)
    except Violation as e:
        v = e
        if e.oracle == "deadlock":      # every further evaluation would block for minutes: keep the case as found
            _after_fail[0] = SHRINK_EVALS
    except Discard as e:
        v = e
    _memo[h] = v
    return v


def _check(case, ctx):
    replay = ctx.tier == "replay"
    sd = os.path.join(ctx.scratch_dir(), "case")
    shutil.rmtree(sd, ignore_errors=True)
    os.makedirs(sd)
    try:
        sched = render(case, sd)
        n = len(case["threads"])
        classes = ["threads=%d" % n] + ["barrier:" + p for p in sorted(set(case.get("patterns", [])))]
        if case.get("excluded_transport_draws"):
            ctx.event("excluded_by_construction:transport_in_second_thread(draws)", case["excluded_transport_draws"])
        # ---- (a) ThreadSanitizer build: sequential reference, then concurrent executions
        tseq = execute(ctx, "tsan", sched, sd, "tseq", ["--mode", "seq"])
        reps = tsan_reports(tseq)
        if reps:
            raise Violation("tsan", "ThreadSanitizer report in the *sequential* execution:\n" + first_report(reps))
        check_crash(tseq, "mt_tsan sequential")
        check_ids(tseq, "tsan sequential")
        reft = tseq.recs[0]
        nrep, nexec, maxin, cdrun, loadrun, cc, rr = 0, 0, 0, 0, 0, 0, 0
        rep_first = None
        want = int(case.get("replay_tsan", 6)) if replay else TSAN_CONC     # a saved case may ask for more volume when replayed
        k = 0
        while k < want:
            r = execute(ctx, "tsan", sched, sd, "tconc", ["--mode", "conc"])
            nexec += 1
            k += 1
            reps = tsan_reports(r)
            if reps:
                nrep += 1
                if rep_first is None:
                    rep_first = reps
                    want = max(want, 8)     # confirm: the report has to show up in a second execution of the schedule
                if nrep >= 2:
                    raise Violation("tsan", "ThreadSanitizer reported in %d of %d concurrent executions; library files involved: %s; "
                                    "signature: %s\n%s" % (nrep, nexec, ", ".join(os.path.basename(f) for f in library_frames(rep_first[0])),
                                                           report_signature(rep_first[0]), first_report(rep_first)))
            if r.hung:          # killed after its report: nothing to compare
                continue
            check_crash(r, "mt_tsan concurrent")
            compare(reft, r, "tsan concurrent #%d vs sequential" % k)
            check_ids(r, "tsan concurrent #%d" % k)
            check_twins(case, r, "tsan concurrent #%d" % k)
            for s in r.stats:
                maxin = max(maxin, int(s["max_inside"]))
                cdrun = max(cdrun, int(s["cd_run"]))
                loadrun = max(loadrun, int(s["load_run"]))
                cc = max(cc, int(s["create_create"]))
                rr = max(rr, int(s["run_run"]))
        if nrep == 1:
            ctx.event("tsan_report_not_reproduced")
            ctx.notes.append("single unreproduced TSan report (1 of %d executions) case %s: %s" % (nexec, sha(case), first_report(rep_first, 2500)))
        # ---- (b) release build: sequential, reverse, solo per thread, concurrent x iterations
        rseq = execute(ctx, "rel", sched, sd, "rseq", ["--mode", "seq"])
        check_crash(rseq, "mt_rel sequential")
        check_ids(rseq, "rel sequential")
        refr = rseq.recs[0]
        ntw = check_twins(case, rseq, "rel sequential")
        rrev = execute(ctx, "rel", sched, sd, "rrev", ["--mode", "seq", "--reverse", "--iters", "2"], perturb=90)
        check_crash(rrev, "mt_rel reverse")
        compare(refr, rrev, "rel sequential in reverse thread order (2 repetitions in one process, MALLOC_PERTURB_=90) vs sequential")
        check_ids(rrev, "rel reverse")
        for t in range(n):
            rs = execute(ctx, "rel", sched, sd, "rsolo", ["--mode", "seq", "--only", str(t)])
            check_crash(rs, "mt_rel solo")
            compare(refr, rs, "rel thread %d alone in a fresh process vs sequential" % t, threads={t})
        # every instance's own call sequence alone in a fresh process ("a function of that sequence alone")
        insts = instances(case)
        for ti, ci, idx in insts:
            ri = execute(ctx, "rel", sched, sd, "rinst", ["--mode", "seq", "--inst", str(ti), str(ci)], perturb=165)
            check_crash(ri, "mt_rel single instance")
            compare(refr, ri, "rel instance created by thread %d operation %d alone in a fresh process (MALLOC_PERTURB_=165) vs sequential "
                    "execution of the whole schedule" % (ti, ci), keys={(ti, oi) for oi in idx})
        rmax = 0
        nconc, iters = [int(x) for x in case.get("replay_rel", [3, 20])] if replay else (REL_CONC, REL_ITERS)
        for k in range(nconc):
            r = execute(ctx, "rel", sched, sd, "rconc", ["--mode", "conc", "--iters", str(iters)])
            check_crash(r, "mt_rel concurrent")
            try:
                compare(refr, r, "rel concurrent #%d vs sequential" % (k + 1))
            except Violation as v:
                v.msg += diff_text(ctx, "rel", sched, sd, case, v.detail)
                raise Violation(v.oracle, v.msg, v.detail)
            check_ids(r, "rel concurrent #%d" % (k + 1))
            check_twins(case, r, "rel concurrent #%d" % (k + 1))
            for s in r.stats:
                rmax = max(rmax, int(s["max_inside"]))
        nt = maxin >= 2 and cdrun >= 1
        classes += ["tsan_max_inside=%d" % maxin, "rel_max_inside=%d" % rmax]
        if cdrun:
            classes.append("create/destroy_overlaps_run")
        if loadrun:
            classes.append("load_overlaps_run")
        if cc:
            classes.append("create_overlaps_create")
        if rr:
            classes.append("run_overlaps_run")
        if ntw:
            classes.append("twin_histories")
        nil = interleaved_pairs(case)
        classes.append("interleaved_instance_pairs:" + ("0" if nil == 0 else "1-2" if nil <= 2 else "3-6" if nil <= 6 else ">6"))
        stk = sum(1 for ops in case["threads"] for o in ops if o["op"] == "run" and o["wl"] in wl.STICKY_WL)
        if stk:
            classes.append("has_sticky_state_run")
        nrun = sum(1 for ops in case["threads"] for o in ops if o["op"] == "run")
        ninst = sum(1 for ops in case["threads"] for o in ops if o["op"] == "create")
        classes.append("runs:" + ("1-3" if nrun <= 3 else "4-8" if nrun <= 8 else "9-16" if nrun <= 16 else ">16"))
        classes.append("instances:" + ("1-3" if ninst <= 3 else "4-8" if ninst <= 8 else ">8"))
        apis = {o["api"] for ops in case["threads"] for o in ops if o["op"] == "create"}
        classes += ["api:" + a for a in sorted(apis)]
        for w in sorted({o["wl"] for ops in case["threads"] for o in ops if o["op"] == "run"}):
            classes.append("wl:" + w)
        for d in sorted({o["db"] for ops in case["threads"] for o in ops if o["op"] == "load"}):
            classes.append("db:" + d)
        if any(o["op"] == "load" and o["via"] == "string" for ops in case["threads"] for o in ops):
            classes.append("load_via_string")
        for v in sorted({o["via"] for ops in case["threads"] for o in ops if o["op"] == "run"}):
            classes.append("run_via:" + v)
        ctx.extra["harness_executions"] = ctx.extra.get("harness_executions", 0) + nexec + 3 + n + nconc + len(insts)
        ctx.extra["rel_concurrent_iterations"] = ctx.extra.get("rel_concurrent_iterations", 0) + nconc * iters
        ctx.extra["instances_compared"] = ctx.extra.get("instances_compared", 0) + ninst * (nexec + 4 + nconc * iters)
        return {"nontrivial": nt, "classes": classes}
    finally:
        shutil.rmtree(sd, ignore_errors=True)
        if replay:       # a replay process exits without the worker's clean-up: leave no empty scratch directory behind
            try:
                os.rmdir(ctx.scratch)
            except OSError:
                pass


def run(ctx):
    per_shard = -(-BUDGET[ctx.tier] // ctx.nshards)
    ctx.hyp(case_strategy(), lambda c: check_case(c, ctx), per_shard, "sched")
