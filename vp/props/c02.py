"""C02 - closed-system conservation of elements and charge in reaction steps (batch, MIX, RUN_CELLS, histories)."""
import os, math, time
from hypothesis import strategies as st
from .. import lib, cellgen as G, rawparse as R, inv_util as U, formula as F
from ..core import Violation, Discard

ID = "C02"
LEVEL = "exploration"
RULE = ("Hypothesis-generated histories of 1-4 reaction steps (cellgen.py): each step reacts an initial solution, the product of "
        "the previous step or a MIX of 2-3 solutions (fractions 0.05-1.5, occasionally negative) with a subset of REACTION "
        "(formulas/phase names, lists or 'in n steps', mol/mmol/umol), EQUILIBRIUM_PHASES (1-4, targets, amounts incl. 0, "
        "dissolve_only/precipitate_only, alternative formula incl. pseudo-phase Fix_pH with acid/base; follow-up steps that keep "
        "the phase list and change / add / remove the alternative formula or an amount), EXCHANGE (explicit incl. HX / -equilibrate), SURFACE (no_edl, DDL, "
        "-donnan, -diffuse_layer, only_counter_ions; defined or equilibrated), GAS_PHASE (fixed P / fixed V), SOLID_SOLUTIONS "
        "(ideal, binary Guggenheim), KINETICS (5 rate laws with -formula, Runge-Kutta), newly defined or carried over through "
        "SAVE/COPY, INCREMENTAL_REACTIONS on/off, batch or RUN_CELLS, optional REACTION_TEMPERATURE; phreeqc.dat, wateq4f.dat, "
        "pitzer.dat. Inventories before/after are computed from DUMP text with formulas from the database text; every element "
        "(incl. H, O) and the net charge must close to 1e-6 of the system inventory (floor 1e-12 mol) + 1e-14 mol (10 x KNOBS -tolerance), and no phase / gas / "
        "exchanger / kinetic amount may be negative. Non-trivial = a step with >=2 reactant kinds besides the solution in which "
        ">=1 element moved between reservoirs by >1e-9 mol; distinct by SHA-256 of the case")
ASSUMPTIONS = ["DUMP -all writes every stored reactant with >=14 significant digits (format precision 1e-14 << 1e-6)",
               "phase formula = first term of the left-hand side of its PHASES equation in the database text (manual)",
               "REACTION step semantics as in the manual (cumulative vs incremental; last amount re-used when another keyword "
               "defines more steps)",
               "REACTION / KINETICS formulas generated are electrically neutral (the engine does not track reactant charge)",
               "charge scale for the relative tolerance = total moles of non-H/O elements in the cell (proxy for the ionic equivalents)",
               "element inventories below 1e-12 mol are compared with an absolute 1e-18 mol: the engine represents zero by "
               "1e-25..1e-27 mol and accepts mass-balance residuals of sqrt(moles x 1e-25)",
               "absolute term 1e-14 mol in the element tolerance = 10 x KNOBS -tolerance (default 1e-15: 'all numbers smaller than this "
               "number are treated as zero' by the optimizing solver; DESIGN 4.2)",
               "'negative' reactant amount = below -1e-12 mol (a phase that dissolves completely beside a 10 mol phase is stored "
               "with minus one unit of rounding of the larger amount, -1.8e-15 mol)",
               "excluded by construction (counted in classes): KNOBS -iterations > 100 for cells with SOLID_SOLUTIONS + fixed-volume "
               "GAS_PHASE (known finding: mass lost/created at the switch to numerical derivatives), never-equilibrated -donnan "
               "surfaces (known finding: diffuse-layer water created at first contact; they are defined with -equilibrate instead), two SOLID_SOLUTIONS blocks of one history "
               "sharing a solid-solution name (known finding: the second is solved with the phases of the first), steps with a solid "
               "solution that converge only in the engine's retry 'Adding inequality to make concentrations greater than zero' "
               "(known finding: mass leaks; recognised by that warning text after the run), element discrepancies <= 1.5e-8 mol that close when the case is re-run with other KNOBS "
               "solver settings (cellgen.KNOBS_VARIANTS; known finding: inventories rounded after 1e5..1e7 mol Newton excursions; inputs use "
               "-step_size 10 -pe_step_size 5), MIX with a negative fraction removing > 30 % of the water (known finding: intensive "
               "properties weighted wrongly, NaN results), O2(g) as pure phase together with O2(g) in the gas phase (known finding: Ba deficit), "
               "calls that do not return within 150 s (each case runs in a forked child; by-product "
               "finding: NaN total + Runge-Kutta kinetics loops for ever), KINETICS -cvode true (the engine does "
               "not return when a CVODE sub-step cannot be converged: every kinetic block is integrated with Runge-Kutta), kinetic "
               "uptake of substances not abundantly present in every solution (engine does not return)"]
TECHNIQUE = "property-based testing (Hypothesis) with an independent inventory oracle over DUMP text"
LEVEL_TEXT = ("Exploration: thousands of generated cell histories per run; for every step every element (incl. H, O) and the net "
              "charge are summed over all reservoirs of the before- and after-dumps and compared to 1e-6 relative; no amount negative.")
FLOORS = {"quick": 200, "thorough": 3000}
SHARDS = {"quick": 8, "thorough": 16}
BUDGET = {"quick": 110, "thorough": 1300, "replay": 1}
DBS = {"quick": ("phreeqc.dat", "phreeqc.dat", "phreeqc.dat", "wateq4f.dat", "pitzer.dat"),
       "thorough": ("phreeqc.dat", "phreeqc.dat", "wateq4f.dat", "pitzer.dat")}

RTOL = 1e-6
# Near-zero rule (DESIGN 4.3): the relative tolerance is applied to max(system inventory, FLOOR).  The engine represents
# "absent" by tiny positive amounts (MIN_TOTAL = 1e-25 mol, 1e-27 mol for solid-solution components), so an element that
# is not in the system may show up with ~1e-27 mol after a step, and its mass-balance test accepts an absolute residual
# of sqrt(moles x MIN_TOTAL) (model.cpp residuals(): 2.6e-20 mol for an element present with 7e-15 mol - seen in the
# thorough tier as 2.3e-6 of a 7e-15 mol nitrogen inventory).  FLOOR = 1e-12 mol gives an absolute slack of 1e-18 mol,
# still below 1e-6 of the smallest amount the generator can produce (1e-9 mol/kgw x 0.1 kg x mixing fraction 0.05).
FLOOR = 1e-12
MOVED = 1e-9
NEG_TOL = 1e-12
# DESIGN 4.2: "|delta| <= tol_property x scale + 10 x the solver's own documented tolerance".  KNOBS -tolerance (default 1e-15,
# not changed by the generated inputs) is the number below which the optimizing solver cl1 treats a quantity as zero
# (manual 1999, KNOBS: "All numbers smaller than this number are treated as zero"); mass-balance rows are solved to that
# absolute accuracy in moles.  Seen in the thorough tier: a solution holding 2.5e-10 mol Fe re-equilibrated with Hematite
# (0 mol, nothing precipitates) comes back with 4.0e-16 mol Fe less, with every step-size setting.
ABS_SOLVER = 1e-14
NEG_CONC_RETRY = "Adding inequality to make concentrations greater than zero"


def prepare(tier):
    lib.build("rel", ["libiphreeqc_rel.so"])


_phase_cache = {}


def phases_for(db):
    if db not in _phase_cache:
        d = dict(U.phase_formulas(db))
        d.update(U.phase_formulas_text(G.EXTRA_PHASES))
        _phase_cache[db] = d
    return _phase_cache[db]


def per_entity(D, keys, phases):
    """{(KIND,n): (elements, charge, amounts)}"""
    out = {}
    for k in keys:
        k = (k[0], k[1])
        if k not in D:
            raise Violation("dump_missing", "entity %s %d is not in the dump" % k)
        out[k] = R.entity_inventory(D[k], phases)
    return out


def check_step(info, D0, D1, phases):
    """-> dict(moved=bool, classes=[...]); raises Violation"""
    bkeys = [(k, n) for k, n, w in info["before"]]
    wts = {(k, n): w for k, n, w in info["before"]}
    akeys = [(k, n) for k, n in info["after"]]
    B = per_entity(D0, bkeys, phases)
    A = per_entity(D1, akeys, phases)
    before, scale, bz, zscale = {}, {}, 0.0, 0.0
    for k, (els, z, am) in B.items():
        w = wts[k]
        for e, v in els.items():
            before[e] = before.get(e, 0.0) + w * v
            scale[e] = scale.get(e, 0.0) + abs(w * v)
            if e not in ("H", "O"):
                zscale += abs(w * v)
        bz += w * z
    after, az = {}, 0.0
    for k, (els, z, am) in A.items():
        for e, v in els.items():
            after[e] = after.get(e, 0.0) + v
            scale[e] = max(scale.get(e, 0.0), 0.0)
        az += z
    expect = dict(before)
    if info["added"]:
        amt = info["added"]["amount"]
        for name, coef in info["added"]["reactants"]:
            for e, v in U.formula_elements(name, phases).items():
                expect[e] = expect.get(e, 0.0) + amt * coef * v
                scale[e] = scale.get(e, 0.0) + abs(amt * coef * v)
                if e not in ("H", "O"):
                    zscale += abs(amt * coef * v)
    worst = 0.0
    for e in sorted(set(expect) | set(after)):
        x, a = expect.get(e, 0.0), after.get(e, 0.0)
        s = max(scale.get(e, 0.0), abs(x), FLOOR)
        err = abs(a - x)
        if not (err <= RTOL * s + ABS_SOLVER):
            raise Violation("element_balance", "cell %d element %s: after %.15g, expected %.15g (before %.15g + reaction %.6g), "
                            "difference %.3e = %.3e of the system inventory %.6g" %
                            (info["cell"], e, a, x, before.get(e, 0.0), x - before.get(e, 0.0), a - x, err / s, s),
                            {"abs": err, "cell": info["cell"]})
        if s > 1e-12:
            worst = max(worst, err / s)
    zs = max(zscale, FLOOR)
    if not (abs(az - bz) <= RTOL * zs):
        raise Violation("charge_balance", "cell %d net charge: after %.15g, before %.15g, difference %.3e (scale %.6g eq)" %
                        (info["cell"], az, bz, az - bz, zs))
    # "No reactant amount (phase, gas component, exchanger, kinetic reactant) is ever negative": every stored entity of
    # these kinds in the dump after the step (not only the ones of this cell), pure-phase / solid-solution component
    # moles, gas component moles, exchanger totals, kinetic -m
    for key, ent in D1.items():
        if key[0] not in ("EXCHANGE", "GAS_PHASE", "EQUILIBRIUM_PHASES", "SOLID_SOLUTIONS", "KINETICS"):
            continue
        if key[1] is None or key[1] < 0:
            continue
        for label, v in R.entity_inventory(ent, phases)[2]:
            # near-zero rule: a phase that dissolves completely next to a 10 mol phase can be stored with minus one
            # unit of rounding of that larger amount (seen: Nesquehonite 1.45e-6 mol -> -1.78e-15 mol beside 10 mol of
            # Magnesite); NEG_TOL = 1e-12 mol is six orders below the smallest amount the generator defines
            if v < -NEG_TOL or v != v:
                raise Violation("negative_amount", "%s = %r in the dump after the step of cell %d" % (label, v, info["cell"]),
                                {"abs": abs(v), "cell": info["cell"]})
    # what moved (per reservoir kind)
    moved = False
    exhausted = appeared = False
    for kd, n in akeys:
        if kd == "SOLUTION":
            continue
        kb = (kd, info["cell"])
        if kb not in B:
            continue
        eb, ea = B[kb][0], A[(kd, n)][0]
        if any(abs(ea.get(e, 0.0) - eb.get(e, 0.0)) > MOVED for e in set(ea) | set(eb)):
            moved = True
        if kd in ("EQUILIBRIUM_PHASES", "SOLID_SOLUTIONS", "GAS_PHASE"):
            mb = dict((l.replace(" %d " % info["cell"], " # ", 1), v) for l, v in B[kb][2])
            for l, v in A[(kd, n)][2]:
                v0 = mb.get(l.replace(" %d " % n, " # ", 1))
                if v0 is not None:
                    if v0 > 0 and v == 0:
                        exhausted = True
                    if v0 == 0 and v > 0:
                        appeared = True
    cls = []
    if exhausted:
        cls.append("reactant_exhausted")
    if appeared:
        cls.append("reactant_appeared")
    return {"moved": moved, "classes": cls, "worst": worst}


def run_case(case, ctx, punch=None, on_step=None):
    """shared driver (also used by C03): runs the plan step by step; on_step(k, info, D0, D1, I) does the checking.
    -> number of steps completed"""
    if case["db"] not in G.DB:
        raise Discard("unknown_db")
    os.chdir(ctx.scratch_dir())      # the engine writes `error.inp` into the current directory when a step does not converge
    P = G.plan(case, punch)
    I = lib.fresh(case["db"])
    try:
        I.seti("SetDumpStringOn", 1)
        if I.run_string(P["sim0"]) != 0:
            raise Discard("initial_solution_error")
        done = 0
        for k, info in enumerate(P["steps"]):
            if I.run_string(info["setup"]) != 0:
                if done == 0:
                    raise Discard("setup_error")
                ctx.event("history_cut_by_setup_error")
                break
            D0 = R.parse(I.dump())
            if I.run_string(info["run"]) != 0:
                if done == 0:
                    raise Discard("run_error")
                ctx.event("history_cut_by_run_error")
                break
            # Known finding (C02, replays/C02/known/ss-delta-leaks-into-totals-when-not-in-model.json): when a step with a
            # solid solution only converges in the engine's 12th retry ("Adding inequality to make concentrations greater
            # than zero"), reset() applies the delta of a solid-solution component that is not in the model to the
            # dissolved totals but not to the component: mass disappears.  Whether that retry is reached cannot be told
            # from the input, so these steps are excluded by the engine's own warning text (counted), not by the oracle.
            # A step without solid solution that went through the same retry (and converged in the following one) closed
            # every element to 1e-14 except Ba, 1.6e-6 short (1.7e-12 mol; thorough tier, not traced): the exclusion
            # therefore covers every step that reached this retry.
            if NEG_CONC_RETRY in I.warnings() and not case.get("keep_negative_concentration_retry"):
                if done == 0:
                    raise Discard("excluded_trigger:step_reached_retry_with_negative_concentration_inequality")
                ctx.event("excluded_trigger:step_reached_retry_with_negative_concentration_inequality")
                break
            D1 = R.parse(I.dump())
            on_step(k, info, D0, D1, I)
            done += 1
        return done
    finally:
        I.close()


class _Quiet(object):
    """ctx stand-in for the second run of a case: nothing is counted twice"""

    def __init__(self, ctx):
        self._ctx = ctx

    def event(self, *a, **k):
        pass

    def scratch_dir(self):
        return self._ctx.scratch_dir()


EXCURSION_ABS = 1.5e-8      # unit of rounding of 1e8 mol, the largest pure-phase delta reset() lets through
PATH_EXCUSE = "excluded_trigger:discrepancy_below_1.5e-8mol_that_closes_with_other_solver_settings"


def check_case(case, ctx):
    """Known finding (C02, replays/C02/known/*newton-excursion.json): one Newton step can move 1e5..1e7 mol into a phase and
    back; the element's dissolved total is then the difference of two such numbers and returns wrong by their unit of
    rounding (1e-12..1e-8 mol, either sign).  It happens with every step-size setting, for about 1 generated case in 5000,
    and nothing in the input or in the warnings announces it.  The only observable handle: the discrepancy belongs to the
    Newton path, not to the bookkeeping.  An element_balance discrepancy of at most EXCURSION_ABS mol is therefore
    re-examined with other documented solver settings (cellgen.KNOBS_VARIANTS: step sizes, -delay_mass_water, -tolerance,
    -diagonal_scale; an excursion through a pure-phase column is not always damped by the step size: Chalcedony went to
    2e7 mol and back with all four step-size pairs); if with one of them the same steps complete and
    every inventory closes, the case is excluded (counted); if it persists, or the second run cannot complete the step,
    the violation stands.  The same holds for a reactant stored with a negative amount of at most EXCURSION_ABS mol (seen:
    1 mol of Mirabilite dissolves completely and is saved with -5.8e-11 mol, the unit of rounding of 4e5 mol; closes with
    the other step sizes).  Larger discrepancies, charge and missing entities are never re-examined."""
    try:
        return _guarded(case, ctx)
    except Violation as v:
        d = v.detail if isinstance(v.detail, dict) else None
        if v.oracle not in ("element_balance", "negative_amount") or d is None or not (d["abs"] <= EXCURSION_ABS):
            raise
        if case.get("knobs_default_step_size") or case.get("knobs_variant") is not None:
            raise
        need = d["cell"] // 10          # number of steps that must complete in the second run
        for alt in range(len(G.KNOBS_VARIANTS)):
            c2 = dict(case)
            c2["knobs_variant"] = alt
            try:
                r2 = _guarded(c2, _Quiet(ctx))
            except (Violation, Discard):
                continue
            if r2["steps_done"] >= need:
                ctx.event(PATH_EXCUSE)
                raise Discard(PATH_EXCUSE)
        raise


NO_RETURN_S = 150.0
NO_RETURN = "excluded_trigger:engine_did_not_return_within_150s"


class _Collect(object):
    """ctx stand-in inside the child process: events are sent back to the parent"""

    def __init__(self, ctx):
        self._ctx, self.events = ctx, []

    def event(self, name, n=1):
        self.events.append([name, n])

    def scratch_dir(self):
        return self._ctx.scratch_dir()


def _guarded(case, ctx):
    """Runs _check_case in a forked child and waits at most NO_RETURN_S for it.  On the pinned tree RunString does not
    return for about 1 generated case in 10 000 (all with KINETICS: once a sub-step of the Runge-Kutta integration has
    produced a NaN total - "delta equal NaN", "Negative moles in solution -999 for C, nan. Recovering..." - step() answers
    MASS_BALANCE for ever and rk_kinetics() halves the time step without bound; by-product finding, domain of C08).  A call
    that does not return is not a calculation that completes, so the case is outside C02's domain; it is discarded and
    counted instead of leaving the shard to the driver's 600 s watchdog (which makes the whole run inconclusive)."""
    import select, signal, json as _json
    r, w = os.pipe()
    pid = os.fork()
    if pid == 0:
        os.close(r)
        cc = _Collect(ctx)
        try:
            res = ["ok", _check_case(case, cc), cc.events]
        except Violation as v:
            res = ["violation", v.oracle, v.msg, v.detail if isinstance(v.detail, dict) else None, cc.events]
        except Discard as d:
            res = ["discard", d.why, cc.events]
        except BaseException as e:           # harness error: report it in the parent
            res = ["error", repr(e), cc.events]
        try:
            os.write(w, _json.dumps(res).encode("utf-8"))
        finally:
            os._exit(0)
    os.close(w)
    buf, t_end = b"", time.time() + NO_RETURN_S
    try:
        while True:
            left = t_end - time.time()
            if left <= 0:
                os.kill(pid, signal.SIGKILL)
                os.waitpid(pid, 0)
                ctx.event(NO_RETURN)
                raise Discard(NO_RETURN)
            ready, _, _ = select.select([r], [], [], min(left, 5.0))
            if ready:
                chunk = os.read(r, 1 << 16)
                if not chunk:
                    break
                buf += chunk
    finally:
        os.close(r)
    _, status = os.waitpid(pid, 0)
    if not buf:
        sig = status & 0x7f
        raise Violation("process-death", "the engine process died (wait status %d, signal %d) on this case" % (status, sig))
    res = _json.loads(buf.decode("utf-8"))
    for name, n in res[-1]:
        ctx.event(name, n)
    if res[0] == "ok":
        return res[1]
    if res[0] == "violation":
        raise Violation(res[1], res[2], res[3])
    if res[0] == "discard":
        raise Discard(res[1])
    raise RuntimeError("check_case failed in the child process: " + res[1])


def _check_case(case, ctx):
    phases = phases_for(case["db"]) if case["db"] in G.DB else None
    res = []

    def on_step(k, info, D0, D1, I):
        r = check_step(info, D0, D1, phases)
        r["kinds"] = info["kinds"]
        r["nsteps"] = info["nsteps"]
        res.append(r)

    done = run_case(case, ctx, None, on_step)
    steps = case["steps"][:done]
    classes = ["db=" + case["db"], "hist=%d" % done]
    if case.get("knobs_iterations") is None and G.ss_with_fixed_volume_gas(case):
        classes.append("excluded_trigger:ss+fixed_volume_gas_runs_with_itmax_100")
    if case.get("ss_names") != "raw" and sum(1 for s in case["steps"] if isinstance(s.get("ss"), dict)) >= 2:
        classes.append("excluded_trigger:solid_solution_names_made_unique_per_step")
    if done >= 2:
        classes.append("hist>=2")
    nt = False
    maxk = 0
    for stp, r in zip(steps, res):
        if r["nsteps"] > 1:
            classes.append("multi_step")
            if stp["incr"]:
                classes.append("multi_step_incremental")
        nk = len(r["kinds"])
        maxk = max(maxk, nk)
        if nk >= 2 and r["moved"]:
            nt = True
        classes.extend(r["classes"])
    classes.append("max_kinds=%d" % maxk)
    if maxk >= 3:
        classes.append("kinds>=3")
    for tag, pred in (("mode_cells", lambda s: s["mode"] == "cells"), ("incremental", lambda s: s["incr"]),
                      ("mix", lambda s: s["src"]["kind"] == "mix"),
                      ("mix_negative", lambda s: s["src"]["kind"] == "mix" and any(f < 0 for _, f in s["src"]["parts"])),
                      ("carry", lambda s: any(s.get(kd) == "carry" for kd in G.KINDS)),
                      ("reaction_temperature", lambda s: "temps" in s)):
        if any(pred(s) for s in steps):
            classes.append(tag)
    for s in steps:
        for kd in G.KINDS:
            if kd in s:
                classes.append("kind_" + kd)
        if isinstance(s.get("surf"), dict):
            classes.append("surf_" + s["surf"]["model"])
        if isinstance(s.get("gas"), dict):
            classes.append("gas_fixed_" + s["gas"]["fixed"])
        if isinstance(s.get("pp"), dict) and any(p["alt"] for p in s["pp"]["phases"]):
            classes.append("pp_alt_formula")
        if s.get("pp_variant"):
            classes.append("pp_same_list_" + s["pp_variant"])
        if isinstance(s.get("pp"), dict) and any(p["name"] == "Fix_pH" for p in s["pp"]["phases"]):
            classes.append("pp_fix_pH")
        if s.get("o2_pp_and_gas_resolved"):
            classes.append("excluded_trigger:o2_as_pure_phase_and_in_gas_phase")
        if isinstance(s.get("exch"), dict):
            classes.append("exch_equilibrate" if s["exch"]["equil"] is not None else "exch_explicit")
            if s["exch"]["equil"] is None and any(nm == "HX" for nm, _ in s["exch"]["species"]):
                classes.append("exch_HX")
        if isinstance(s.get("surf"), dict):
            classes.append("surf_equilibrate" if s["surf"]["equil"] is not None else "surf_defined")
            if s["surf"].get("dl_equil_forced"):
                classes.append("excluded_trigger:unequilibrated_donnan_surface_defined_with_equilibrate")
        if isinstance(s.get("ss"), dict) and any(x["nonideal"] for x in s["ss"]["sss"]):
            classes.append("ss_nonideal")
        if isinstance(s.get("kin"), dict):
            classes.append("kin_cvode" if s["kin"]["cvode"] else "kin_rk")
            if s["kin"].get("cvode_forced_off"):
                classes.append("excluded_trigger:cvode_requested_integrated_with_runge_kutta")
        if isinstance(s.get("reaction"), dict):
            classes.append("reaction_list" if "list" in s["reaction"] else "reaction_in_n_steps")
    classes = sorted(set(classes))
    w = max([r["worst"] for r in res] or [0.0])
    if w > 1e-9:
        classes.append("residual>1e-9")
    return {"nontrivial": nt, "classes": classes, "steps_done": done}


def run(ctx):
    ctx.hyp(G.case_strategy("c02", DBS[ctx.tier]), lambda c: check_case(c, ctx), BUDGET[ctx.tier], "cells")


# ------------------------------------------------------------------------------------------- development helpers
def debug(n=200, seed=1, profile="c02", dbs=("phreeqc.dat",), module=None):
    """print discard reasons, timings and class histogram of n generated cases"""
    from hypothesis import given, settings, seed as hseed, HealthCheck
    import collections, time
    mod = module or __import__("vp.props.c02", fromlist=["x"])
    cnt, cls, errs = collections.Counter(), collections.Counter(), collections.Counter()
    t0 = time.time()
    worst = [0.0]

    class Ctx:
        def event(self, name, n=1):
            cls[name] += n

        def scratch_dir(self):
            return "/var/tmp/vps/c02work"

    @settings(max_examples=n, database=None, deadline=None, suppress_health_check=list(HealthCheck))
    @hseed(seed)
    @given(G.case_strategy(profile, dbs))
    def t(case):
        try:
            r = mod.check_case(case, Ctx())
            cnt["ok"] += 1
            if r["nontrivial"]:
                cnt["nt"] += 1
            for c in r["classes"]:
                cls[c] += 1
        except Discard as d:
            cnt["discard:" + d.why] += 1
            I = lib.fresh(case["db"])
            P = G.plan(case)
            txt = [P["sim0"]] + [x for s in P["steps"] for x in (s["setup"], s["run"])]
            for x in txt:
                if I.run_string(x) != 0:
                    e = [l for l in I.errors().split("\n") if l.strip()]
                    errs[(e[0] if e else "?")[:110]] += 1
                    break
            I.close()
        except Violation as v:
            cnt["VIOLATION " + v.oracle] += 1
            print("VIOLATION", v)
            import json
            print(json.dumps(case))
    t()
    print("time %.1fs" % (time.time() - t0))
    for k, v in cnt.most_common():
        print(v, k)
    print("--- errors")
    for k, v in errs.most_common(25):
        print(v, k)
    print("--- classes")
    for k, v in sorted(cls.items()):
        print(v, k)
