"""C17 - BASIC programs compute standard arithmetic, string and control-flow semantics.

Generated programs over the documented statement and expression forms are run by the engine in its four hosts
(USER_PUNCH, USER_PRINT, RATES, CALCULATE_VALUES) and by an independent reference interpreter written from the manual
(vp/basicref.py).  Mutated (malformed) programs must give a BASIC error, or - where the reference also accepts the
mutated text - the same values; never a crash, an abort or a hang.  The engine runs in a helper process
(vp/c17_helper.py), malformed programs additionally in the ASan/UBSan build (build/asan/apirunner_asan).
"""
import os, sys, re, json, math, subprocess, select, time, random
from hypothesis import strategies as st
from .. import lib, basicref as br
from ..core import Violation, Discard

ID = "C17"
LEVEL = "exploration"
RULE = ("Hypothesis-generated BASIC programs (grammar over the documented subset: all operator levels, numeric and string "
        "functions, scalar/array/string variables, IF/THEN/ELSE in statement and line-number form, FOR/NEXT/STEP incl. negative, "
        "fractional, computed and zero-trip, WHILE/WEND, GOTO loops, nested GOSUB/RETURN, ON..GOTO/GOSUB, DATA/READ/RESTORE, "
        "PUT/GET/EXISTS, DIM, REM, ':' sequences, END, shuffled line order; intervals tracked so that domain errors are avoided "
        "by construction) evaluated by the engine in USER_PUNCH, USER_PRINT, RATES and CALCULATE_VALUES and by vp/basicref.py; "
        "plus token/line mutations of such programs (malformed leg; also through the ASan build). Non-trivial = the reference "
        "defines the run, >= 1 control-flow construct executed and >= 5 values delivered (valid leg), or a mutated program whose "
        "verdict (error / accepted with equal values) was compared (malformed leg); distinct by SHA-256 of the case")
ASSUMPTIONS = ["reference semantics = PHREEQC-2 manual tables 8/9 + doc/RELEASE + ordinary BASIC where the tables only name a construct (see vp/basicref.py)",
               "relations yield 1/0 and AND/OR/XOR act bitwise on integers (DESIGN C17)",
               "+ - * / SQRT are IEEE-754 double operations in both implementations; Python % formatting equals C printf",
               "constructs the documentation leaves open are excluded and counted (undef:* / avoided:*), see the module's report",
               "four recorded findings (NOT, MOD, TRIM/INSTR argument, unnumbered lines) are excluded by construction and re-run from replays/C17/known"]
TECHNIQUE = "property-based testing (Hypothesis): differential evaluation of generated programs against a reference interpreter in four hosts; mutation fuzzing of program text with an error/agreement oracle and an ASan leg"
LEVEL_TEXT = ("Exploration: thousands of generated programs per run are evaluated by the engine in four hosts and by an independent "
              "reference; every delivered value is compared (1e-12 relative plus the reference's propagated rounding bound, strings exactly). "
              "Mutated programs must fail with a BASIC error or agree with the reference; none may crash, abort or hang.")
FLOORS = {"quick": 500, "thorough": 5000}
SHARDS = {"quick": int(os.environ.get("C17_SHARDS", "8")), "thorough": 16}      # C17_SHARDS: development (sensitivity runs)
BUDGET = {"quick": {"valid": 200, "large": 6, "malformed": 270}, "thorough": {"valid": 1600, "large": 50, "malformed": 2000},
          "replay": {"valid": 1, "large": 1, "malformed": 1}}
ASAN_EVERY = {"quick": 3, "thorough": 2, "replay": 1}
TIMEOUT_S = 60.0
TOL = 1e-12
KSLOTS = 10          # values observed through SAVE in the RATES and CALCULATE_VALUES hosts

PRINT_HEAD = "----------------------------------User print-----------------------------------"
ASAN_BIN = os.path.join(lib.BUILD, "asan", "apirunner_asan")


def prepare(tier):
    lib.build("rel", ["libiphreeqc_rel.so"])
    if os.environ.get("C17_NO_ASAN") or tier == "replay":
        # C17_NO_ASAN: development switch for sensitivity runs in scratch trees (saves the sanitizer build);
        # a replay uses the sanitizer binary only if a run has built it
        return
    try:
        lib.build("asan", ["apirunner_asan"])
    except Exception as e:          # the sanitizer leg is optional; its absence is recorded in the evidence
        sys.stderr.write("note: C17 ASan leg unavailable: %s\n" % str(e)[-300:])


# ------------------------------------------------------------------------------------------ engine processes
class Proc(object):
    """line-oriented child process with a time-out on every answer"""

    def __init__(self, argv, env=None, errpath=None):
        self.argv, self.env, self.errpath = argv, env, errpath
        self.p = None
        self.buf = b""

    def start(self):
        self.stop()
        self.err = open(self.errpath, "wb")
        self.p = subprocess.Popen(self.argv, stdin=subprocess.PIPE, stdout=subprocess.PIPE, stderr=self.err, env=self.env, cwd=lib.VERIF)
        self.buf = b""

    def stop(self):
        if self.p is not None:
            try:
                self.p.kill()
                self.p.wait()
            except Exception:
                pass
            for f in (self.p.stdin, self.p.stdout, self.err):
                try:
                    f.close()
                except Exception:
                    pass
            self.p = None

    def stderr_tail(self, n=3000):
        try:
            self.err.flush()
        except Exception:
            pass
        try:
            with open(self.errpath, "rb") as f:
                return f.read()[-n:].decode("latin-1")
        except Exception:
            return ""

    def readline(self, timeout):
        """-> bytes line | None on time-out | b'' when the process ended"""
        end = time.time() + timeout
        fd = self.p.stdout.fileno()
        while b"\n" not in self.buf:
            left = end - time.time()
            if left <= 0:
                return None
            r, _, _ = select.select([fd], [], [], left)
            if not r:
                return None
            chunk = os.read(fd, 1 << 16)
            if not chunk:
                return b""
            self.buf += chunk
        line, self.buf = self.buf.split(b"\n", 1)
        return line + b"\n"

    def send(self, data):
        try:
            self.p.stdin.write(data)
            self.p.stdin.flush()
            return True
        except (BrokenPipeError, OSError):
            return False


class Engine(object):
    def __init__(self, ctx):
        sd = ctx.scratch_dir()
        env = dict(os.environ, PYTHONPATH=lib.VERIF + ":" + os.environ.get("PYTHONPATH", ""))
        self.h = Proc(["python3-vt", "-m", "vp.c17_helper", sd], env, os.path.join(sd, "helper.err"))
        self.asan = None
        if os.path.exists(ASAN_BIN) and not os.environ.get("C17_NO_ASAN"):
            asd = os.path.join(sd, "asan")
            os.makedirs(asd, exist_ok=True)
            aenv = dict(os.environ, C08_SCRATCH=asd, C08_VERIF=lib.VERIF,
                        ASAN_OPTIONS="detect_leaks=0:abort_on_error=1:allocator_may_return_null=1", UBSAN_OPTIONS="print_stacktrace=1:halt_on_error=1")
            self.asan = Proc([ASAN_BIN, "-"], aenv, os.path.join(sd, "asan.err"))
        self.n_asan = 0

    def run(self, text, output=False, timeout=TIMEOUT_S):
        """-> dict: rc/errors/tables/output | {"died": code, "stderr"} | {"timeout": True}"""
        if self.h.p is None or self.h.p.poll() is not None:
            self.h.start()
        if not self.h.send((json.dumps({"input": text, "output": output}) + "\n").encode("latin-1")):
            rc = self.h.p.wait()
            tail = self.h.stderr_tail()
            self.h.stop()
            return {"died": rc, "stderr": tail}
        line = self.h.readline(timeout)
        if line is None:
            self.h.stop()
            return {"timeout": True}
        if line == b"":
            rc = self.h.p.wait()
            tail = self.h.stderr_tail()
            self.h.stop()
            return {"died": rc, "stderr": tail}
        res = json.loads(line.decode("latin-1"))
        if "harness" in res:
            raise RuntimeError(res["harness"])
        return res

    def run_asan(self, text, timeout=2 * TIMEOUT_S):
        """-> None (ok) | {"died":..} | {"timeout": True}"""
        a = self.asan
        if a is None:
            return "unavailable"
        if a.p is None or a.p.poll() is not None:
            a.start()
            first = a.readline(120)
            if first is None or not first.startswith(b"READY"):
                tail = a.stderr_tail()
                a.stop()
                self.asan = None
                sys.stderr.write("note: apirunner_asan did not start: %r %s\n" % (first, tail[-500:]))
                return "unavailable"
        self.n_asan += 1
        payload = text.encode("latin-1", "replace")
        msg = b"CASE c17_%d\nOP run_string %d\n" % (self.n_asan, len(payload)) + payload + b"\nENDCASE\n"
        if not a.send(msg):
            rc = a.p.wait()
            tail = a.stderr_tail()
            a.stop()
            return {"died": rc, "stderr": tail}
        line = a.readline(timeout)
        if line is None:
            a.stop()
            return {"timeout": True}
        if line == b"":
            rc = a.p.wait()
            tail = a.stderr_tail(60000)
            a.stop()
            k = max(tail.find("ERROR: AddressSanitizer"), tail.find("runtime error:"), tail.find("C08-ORACLE"))
            return {"died": rc, "stderr": tail[max(k - 200, 0):max(k, 0) + 2200] if k >= 0 else tail[-2500:]}
        return None

    def close(self):
        self.h.stop()
        if self.asan is not None:
            self.asan.stop()


_engines = {}


def engine(ctx):
    e = _engines.get(id(ctx))
    if e is None:
        e = _engines[id(ctx)] = Engine(ctx)
    return e


# ------------------------------------------------------------------------------------------ host renderings
def split_line(line):
    """'  120 a = 1 : IF x THEN PUNCH 1 ELSE END' -> (lineno text, [(separator before, statement text), ...]).
    Separators are ':' / 'THEN' / 'ELSE' pieces kept verbatim, so that ''.join gives back the line."""
    m = re.match(r"\s*\d+\s*", line)
    head = m.group(0) if m else ""
    rest = line[len(head):]
    parts = []
    cur = ""
    sep = ""
    i, n = 0, len(rest)
    instr = False
    start_of_stmt = True
    while i < n:
        c = rest[i]
        if instr:
            cur += c
            if c == '"':
                instr = False
            i += 1
            continue
        if c == '"':
            instr = True
            cur += c
            i += 1
            start_of_stmt = False
            continue
        if c == ":":
            parts.append((sep, cur))
            sep, cur = ":", ""
            i += 1
            start_of_stmt = True
            continue
        m = re.match(r"[A-Za-z][A-Za-z0-9_]*\$?", rest[i:])
        if m:
            w = m.group(0)
            u = w.upper()
            if u == "REM" and start_of_stmt:
                cur += rest[i:]
                i = n
                break
            if u == "THEN":
                parts.append((sep, cur + w))
                sep, cur = "", ""
                i += len(w)
                start_of_stmt = True
                continue
            if u == "ELSE":
                parts.append((sep, cur))
                sep, cur = w, ""
                i += len(w)
                start_of_stmt = True
                continue
            cur += w
            i += len(w)
            start_of_stmt = False
            continue
        cur += c
        if not c.isspace():
            start_of_stmt = False
        i += 1
    parts.append((sep, cur))
    return head, parts


def split_items(text):
    items, cur, depth, instr = [], "", 0, False
    for c in text:
        if instr:
            cur += c
            instr = c != '"'
            continue
        if c == '"':
            instr = True
        elif c == "(":
            depth += 1
        elif c == ")":
            depth -= 1
        elif c == "," and depth == 0:
            items.append(cur)
            cur = ""
            continue
        cur += c
    items.append(cur)
    return [x.strip() for x in items]


def static_type(ast):
    t = ast[0]
    if t == "str":
        return "s"
    if t in ("var", "arr"):
        return "s" if ast[1].endswith("$") else "n"
    if t == "par":
        return static_type(ast[1])
    if t == "call":
        return "s" if ast[1] in br.STR_FUNCS else "n"
    if t == "bin" and ast[1] == "+":
        return static_type(ast[2])
    return "n"


def item_type(txt):
    _, toks = br.tokenize_line("1 " + txt)
    return static_type(br.Parser(toks, 1).expr())


def rewrite(lines, on_punch, on_end):
    out = []
    for line in lines:
        head, parts = split_line(line)
        new = head
        for sep, stx in parts:
            s = stx.strip()
            m = re.match(r"[A-Za-z_]+", s)
            w = m.group(0).upper() if m else ""
            if w == "PUNCH" and not s[5:6].isalnum():
                stx = " " + on_punch(split_items(s[5:])) + " "
            elif w == "END" and s.upper() == "END":
                stx = " " + on_end() + " "
            new += (sep + " " if sep.isalpha() else sep) + stx
        out.append(new)
    return out


def last_lineno(lines):
    return max(int(re.match(r"\s*(\d+)", l).group(1)) for l in lines)


def host_punch(lines):
    return ("SOLUTION 1\nSELECTED_OUTPUT 1\n -reset false\n -high_precision true\nUSER_PUNCH 1\n -start\n%s\n -end\nEND\n" % "\n".join(lines))


def host_print(lines):
    body = rewrite(lines, lambda items: "PRINT " + ", ".join(items), lambda: "END")
    return "SOLUTION 1\nUSER_PRINT\n -start\n%s\n -end\nEND\n" % "\n".join(body)


def store_body(lines, base, save_expr):
    """PUNCH a, b$ -> the k-th delivered value goes to global slot base+k (LEN for strings); END saves the count"""
    def on_punch(items):
        out = []
        for it in items:
            e = "LEN(" + it + ")" if item_type(it) == "s" else it
            out.append("zzq = zzq + 1 : PUT(%s, %d + zzq)" % (e, base))
        return " : ".join(out)
    body = rewrite(lines, on_punch, lambda: "SAVE " + save_expr + " : END")
    n = last_lineno(lines)
    body.append("%d SAVE %s" % (n + 1, save_expr))
    return body


def host_rates(lines, slots, pcount):
    """slots: list of (k, power of ten scale) observed; reactant zr<k> integrates |value k| * 10^-p.  Every rate is kept
    O(1) mol/s (count and sign word are scaled too): large rates make the integrator subdivide the step thousands of times"""
    body = store_body(lines, 7000, "-zzq * 1e%d * TIME" % -pcount)
    rates = " zr0\n -start\n%s\n -end\n" % "\n".join(body)
    kin = " zr0\n  -formula Na 0\n  -m0 0\n"
    names = ["zr0"]
    for k, p in slots:
        rates += " zr%d\n -start\n10 SAVE -ABS(GET(%d)) * 1e%d * TIME\n -end\n" % (k, 7000 + k, -p)
        kin += " zr%d\n  -formula Na 0\n  -m0 0\n" % k
        names.append("zr%d" % k)
    sign = ["%d IF GET(%d) < 0 THEN zs = zs + %d" % (10 * (i + 1), 7000 + k, 2 ** i) for i, (k, p) in enumerate(slots)]
    sign.append("%d SAVE -zs * 1e-3 * TIME" % (10 * (len(slots) + 2)))
    rates += " zrs\n -start\n%s\n -end\n" % "\n".join(sign)
    kin += " zrs\n  -formula Na 0\n  -m0 0\n"
    names.append("zrs")
    punch = "10 PUNCH " + ", ".join('KIN("%s")' % n for n in names)
    return ("SOLUTION 1\nRATES\n%sKINETICS 1\n%s -steps 1\nSELECTED_OUTPUT 1\n -reset false\n -high_precision true\nUSER_PUNCH 1\n -start\n%s\n -end\nEND\n"
            % (rates, kin, punch))


def host_calc(lines, nslots):
    body = store_body(lines, 8000, "zzq")
    cv = " zc0\n -start\n%s\n -end\n" % "\n".join(body)
    for k in range(1, nslots + 1):
        cv += " zc%d\n -start\n10 SAVE GET(%d)\n -end\n" % (k, 8000 + k)
    punch = "10 PUNCH " + ", ".join('CALC_VALUE("zc%d")' % k for k in range(0, nslots + 1))
    return ("SOLUTION 1\nCALCULATE_VALUES\n%sSELECTED_OUTPUT 1\n -reset false\n -high_precision true\nUSER_PUNCH 1\n -start\n%s\n -end\nEND\n" % (cv, punch))


# ------------------------------------------------------------------------------------------ comparison
def close(ref, got, extra_rel=0.0):
    if not isinstance(got, (int, float)) or isinstance(got, bool):
        return False
    if got != got:
        return False
    return abs(ref.v - got) <= (TOL + extra_rel) * abs(ref.v) + 4 * ref.e + 1e-300


def show(x):
    return repr(x.v) + ("(+-%.1e)" % x.e if x.e else "") if isinstance(x, br.Num) else repr(x)


def first_error(res):
    return (res.get("errors") or "").strip().replace("\n", " | ")[:600]


def check_alive(res, host, ref_ok):
    if "died" in res:
        raise Violation("crash", "%s host: the engine process ended with status %s while running the program\n%s" % (host, res["died"], res.get("stderr", "")[-1500:]))
    if "timeout" in res:
        if ref_ok:
            raise Violation("hang", "%s host: no answer within %.0f s for a program that terminates in the reference" % (host, TIMEOUT_S))
        return False
    return True


def cmp_punch(flat, res, host="USER_PUNCH"):
    t = res["tables"].get("1")
    row = t[1] if t and len(t) > 1 else []
    if len(row) != len(flat):
        raise Violation("value_count", "%s: %d values delivered, reference delivers %d\nengine %r\nreference %s" %
                        (host, len(row), len(flat), row[:40], [show(x) for x in flat[:40]]))
    for i, (x, y) in enumerate(zip(flat, row)):
        if isinstance(x, br.Num):
            if not close(x, y):
                raise Violation("value", "%s: value %d is %r, reference %s" % (host, i + 1, y, show(x)))
        elif x != y:
            raise Violation("string_value", "%s: value %d is %r, reference %r" % (host, i + 1, y, x))


def cmp_print(groups, res):
    out = res.get("output") or ""
    i = out.find(PRINT_HEAD)
    if i < 0:
        if not groups:
            return
        raise Violation("print_block", "USER_PRINT: no 'User print' block in the output although the reference prints %d lines" % len(groups))
    body = out[i + len(PRINT_HEAD):].split("\n")[2:]
    for gi, vals in enumerate(groups):
        if gi >= len(body):
            raise Violation("print_lines", "USER_PRINT: output ends after %d PRINT lines, reference prints %d" % (gi, len(groups)))
        line = body[gi]
        pos = 0
        for vi, x in enumerate(vals):
            if isinstance(x, br.Num):
                m = re.match(r" *(\S+) ", line[pos:] + " ")
                if not m:
                    raise Violation("print_value", "USER_PRINT line %d item %d: nothing printed, reference %s\nline %r" % (gi + 1, vi + 1, show(x), line))
                tok = m.group(1)
                pos += m.end()
                try:
                    y = float(tok)
                except ValueError:
                    raise Violation("print_value", "USER_PRINT line %d item %d: %r is not a number, reference %s\nline %r" % (gi + 1, vi + 1, tok, show(x), line))
                # PRINT shows integers in full and other numbers with 5 significant digits (%12.4e)
                if not close(x, y, 0.0 if ("e" not in tok.lower() and "." not in tok) else 6e-5):
                    raise Violation("print_value", "USER_PRINT line %d item %d: printed %r, reference %s\nline %r" % (gi + 1, vi + 1, tok, show(x), line))
            else:
                want = x + " "
                if line[pos:pos + len(want)] != want:
                    raise Violation("print_string", "USER_PRINT line %d item %d: printed %r, reference %r\nline %r" % (gi + 1, vi + 1, line[pos:pos + len(want)], x, line))
                pos += len(want)
        if line[pos:].strip() != "":
            raise Violation("print_extra", "USER_PRINT line %d: extra text %r after the %d reference items\nline %r" % (gi + 1, line[pos:], len(vals), line))
    if len(body) > len(groups) and body[len(groups)].strip() != "":
        raise Violation("print_lines", "USER_PRINT: extra output line %r after the %d reference lines" % (body[len(groups)][:120], len(groups)))


def numeric_view(flat):
    """what the SAVE hosts deliver for each value: numbers as they are, strings by their length"""
    return [x if isinstance(x, br.Num) else br.Num(float(len(x))) for x in flat]


def cmp_rates(nv, slots, pcount, res):
    t = res["tables"].get("1")
    if not t or len(t) < 2:
        raise Violation("rates_rows", "RATES: no selected-output row after the kinetic step")
    row = t[-1]
    cnt = br.Num(len(nv) * 10.0 ** (-pcount))
    if not close(cnt, row[0], 2e-13):
        raise Violation("value_count", "RATES: the program delivered %r * 1e%d values (through SAVE, reactant zr0), reference %d" % (row[0], pcount, len(nv)))
    bits = mask = 0
    for i, (k, p) in enumerate(slots):
        x = nv[k - 1]
        ref = br.Num(abs(x.v) * 10.0 ** (-p), x.e * 10.0 ** (-p))
        if not close(ref, row[1 + i], 2e-13):
            raise Violation("value", "RATES: |value %d| * 1e%d integrates to %r, reference %s" % (k, -p, row[1 + i], show(ref)))
        if abs(x.v) <= 4 * x.e:
            mask |= 2 ** i          # sign of a value that is zero within its rounding bound is not defined
        elif x.v < 0:
            bits += 2 ** i
    w = row[1 + len(slots)]
    ok = isinstance(w, float) and w == w
    if ok and mask == 0:
        ok = abs(w * 1000 - bits) <= 1e-9 * max(bits, 1)
    elif ok:
        # an undetermined sign may differ between the evaluations of one step: its bit contributes any fraction
        ok = bits - 1e-9 <= w * 1000 <= bits + mask + 1e-9
    if not ok:
        raise Violation("value", "RATES: sign word of the observed values is %r * 1000, reference %d (undetermined bits %d)" % (w, bits, mask))


def cmp_calc(nv, nslots, res):
    t = res["tables"].get("1")
    row = t[1] if t and len(t) > 1 else []
    if len(row) != nslots + 1:
        raise Violation("calc_rows", "CALCULATE_VALUES: %d cells, expected %d" % (len(row), nslots + 1))
    if not close(br.Num(float(len(nv))), row[0]):
        raise Violation("value_count", "CALCULATE_VALUES: the program delivered %r values, reference %d" % (row[0], len(nv)))
    for k in range(1, nslots + 1):
        if not close(nv[k - 1], row[k]):
            raise Violation("value", "CALCULATE_VALUES: value %d is %r, reference %s" % (k, row[k], show(nv[k - 1])))


CONTROL = ("stmt_for", "stmt_while", "stmt_gosub", "stmt_on_goto", "stmt_on_gosub", "stmt_goto", "stmt_if_lineno", "stmt_if_true", "stmt_if_false", "stmt_read")


def stat_classes(st_):
    cls = []
    for k, name in (("stmt_for", "for"), ("for_zero_trip", "for_zero_trip"), ("for_step_negative", "for_negative_step"),
                    ("for_step_fractional", "for_fractional_step"), ("stmt_while", "while"), ("while_zero_trip", "while_zero_trip"),
                    ("stmt_gosub", "gosub"), ("stmt_on_goto", "on_goto"), ("stmt_on_gosub", "on_gosub"), ("on_out_of_range", "on_out_of_range"),
                    ("stmt_goto", "goto"), ("stmt_if_lineno", "if_lineno"), ("stmt_else_taken", "else_taken"), ("stmt_read", "read"),
                    ("stmt_restore", "restore"), ("restore_line", "restore_line"), ("stmt_put", "put"), ("fn_GET", "get"), ("array_write", "array"),
                    ("op_concat", "string_concat"), ("rel_string", "string_compare"), ("op_^", "power"), ("op_MOD", "mod"),
                    ("op_AND", "and"), ("op_OR", "or"), ("op_XOR", "xor"), ("stmt_end", "end"), ("stmt_rem", "rem")):
        if st_.get(k):
            cls.append("exec:" + name)
    if st_.get("gosub_depth", 0) >= 2:
        cls.append("exec:gosub_nested")
    return cls


# ------------------------------------------------------------------------------------------ oracle: valid programs
def excluded(ctx, kind, name, n=1):
    """exclusion classes are counted as events (evidence histogram, top 80 only) and, complete, as numbers in the coverage"""
    ctx.event(kind + ":" + name, n)
    key = "excluded_%s_%s" % (kind, name)
    ctx.extra[key] = ctx.extra.get(key, 0) + n


def count_meta(case, ctx):
    for k, v in (case.get("avoided") or {}).items():
        excluded(ctx, "avoided", k, v)


def check_valid(case, ctx):
    lines = case["lines"]
    count_meta(case, ctx)
    r = br.run_program(lines)
    if r.status == "undefined":
        excluded(ctx, "undef", r.undefined)
        raise Discard("reference_undefined")
    if r.status == "error":
        ctx.event("generator_error:" + r.error[0].split(" ")[0])
        raise Discard("generator_produced_error")
    flat = [v for g in r.outputs for v in g]
    E = engine(ctx)
    hosts = []
    # 1. USER_PUNCH: full doubles / strings from the selected-output table
    res = E.run(host_punch(lines))
    check_alive(res, "USER_PUNCH", True)
    if res["rc"] != 0:
        raise Violation("valid_rejected", "USER_PUNCH: the engine rejects a program the reference evaluates: %s" % first_error(res))
    cmp_punch(flat, res)
    hosts.append("USER_PUNCH")
    # 2. USER_PRINT: parsed from the output string (printed precision)
    res = E.run(host_print(lines), output=True)
    check_alive(res, "USER_PRINT", True)
    if res["rc"] != 0:
        raise Violation("valid_rejected", "USER_PRINT: the engine rejects a program the reference evaluates: %s" % first_error(res))
    cmp_print(r.outputs, res)
    hosts.append("USER_PRINT")
    huge = any(abs(x.v) >= 1e240 for x in flat if isinstance(x, br.Num))
    nv = numeric_view(flat)
    # 3. CALCULATE_VALUES: SAVE -> CALC_VALUE
    ns = min(KSLOTS, len(nv))
    res = E.run(host_calc(lines, ns))
    check_alive(res, "CALCULATE_VALUES", True)
    if res["rc"] != 0:
        raise Violation("valid_rejected", "CALCULATE_VALUES: the engine rejects a program the reference evaluates: %s" % first_error(res))
    cmp_calc(nv, ns, res)
    hosts.append("CALCULATE_VALUES")
    # 4. RATES: SAVE -> moles of kinetic reactants.  The rate program is evaluated several times per step with the global
    #    PUT store kept, so only programs whose second evaluation equals the first can be expressed in this host.
    r2 = br.run_program(lines, store=dict(r.store))
    flat2 = [v for g in r2.outputs for v in g]
    same = r2.status == "ok" and len(flat2) == len(flat) and all(
        (isinstance(a, br.Num) and isinstance(b, br.Num) and a.v == b.v) or (not isinstance(a, br.Num) and a == b) for a, b in zip(flat, flat2))
    # ... and the store must have reached its fixed point after the first evaluation (then every later one repeats the second)
    same = same and set(r.store) == set(r2.store) and all(r.store[k].v == r2.store[k].v for k in r.store)
    if same:
        # the integral mixes the first and the later evaluations: equal values, the larger of the two rounding bounds
        nv = [br.Num(a.v, max(a.e, b.e)) for a, b in zip(nv, numeric_view(flat2))]
        slots = []
        for k, x in enumerate(nv, 1):
            if len(slots) >= KSLOTS:
                break
            if x.v != 0.0 and 1e-60 < abs(x.v) < 1e60:
                slots.append((k, int(math.floor(math.log10(abs(x.v))))))
            elif x.v == 0.0:
                slots.append((k, 0))
        pcount = int(math.floor(math.log10(len(nv)))) if nv else 0
        res = E.run(host_rates(lines, slots, pcount))
        check_alive(res, "RATES", True)
        if res["rc"] != 0:
            raise Violation("valid_rejected", "RATES: the engine rejects a program the reference evaluates: %s" % first_error(res))
        cmp_rates(nv, slots, pcount, res)
        hosts.append("RATES")
    else:
        ctx.event("host_skipped:rates_put_store_feedback")
    control = sum(1 for k in CONTROL if r.stats.get(k))
    nt = control >= 1 and len(flat) >= 5
    cls = ["leg:" + case["kind"], "hosts=%d" % len(hosts), "values>=5:%s" % (len(flat) >= 5), "lines:%s" % ("<30" if len(lines) < 30 else "30-99" if len(lines) < 100 else ">=100"),
           "strings_delivered:%s" % any(not isinstance(x, br.Num) for x in flat)] + stat_classes(r.stats)
    if "shuffled_lines" in (case.get("features") or []):
        cls.append("shuffled_line_order")
    if huge:
        cls.append("exec:whole_number_1e240_or_more")
    return {"nontrivial": nt, "classes": cls}


# ------------------------------------------------------------------------------------------ malformed programs
TOKEN_RE = re.compile(r'"[^"]*"?|\d+\.?\d*(?:[eE][+-]?\d+)?|\.\d+(?:[eE][+-]?\d+)?|[A-Za-z][A-Za-z0-9_]*\$?|<=|>=|<>|\S')
INSERT_POOL = ["+", "-", "*", "/", "^", "(", ")", ",", ":", "=", "<", ">", "<>", "AND", "OR", "XOR", "NOT", "MOD", "THEN", "ELSE", "TO", "STEP",
               "NEXT", "WEND", "FOR", "WHILE", "GOTO", "GOSUB", "RETURN", "IF", "PUNCH", "READ", "DATA", "DIM", "END", "REM", "LET", "ON", "PUT",
               "1", "0", "2.5", '"s"', "ra", "ia", "sa$", "SQRT", "LEN", "MID$", "STR$", "GET", "RESTORE", "[", "]", "7777"]
KEYWORD_SWAP = {"NEXT": "WEND", "WEND": "NEXT", "FOR": "WHILE", "WHILE": "FOR", "GOTO": "GOSUB", "GOSUB": "GOTO", "THEN": "ELSE", "ELSE": "THEN",
                "RETURN": "END", "TO": "STEP", "READ": "DATA", "AND": "MOD", "PUNCH": "READ", "DIM": "LET"}


def lex_raw(line):
    return TOKEN_RE.findall(line)


def mutate(lines, rnd):
    """-> (new lines, mutation class).  One token- or line-level damage."""
    lines = list(lines)
    kind = rnd.choice(["delete_token", "delete_token", "insert_token", "insert_token", "duplicate_token", "swap_tokens", "drop_paren", "add_paren",
                       "delete_line", "delete_loop_line", "drop_line_number", "undefined_target", "type_mismatch", "type_mismatch", "swap_keyword",
                       "dangling_operator"])
    idx = rnd.randrange(len(lines))
    toks = lex_raw(lines[idx])

    def put(i, tk):
        lines[i] = " ".join(tk)

    if kind == "delete_token" and len(toks) > 1:
        del toks[rnd.randrange(1, len(toks))]
        put(idx, toks)
    elif kind == "insert_token":
        toks.insert(rnd.randrange(1, len(toks) + 1), rnd.choice(INSERT_POOL))
        put(idx, toks)
    elif kind == "duplicate_token" and len(toks) > 1:
        j = rnd.randrange(1, len(toks))
        toks.insert(j, toks[j])
        put(idx, toks)
    elif kind == "swap_tokens" and len(toks) > 2:
        j = rnd.randrange(1, len(toks) - 1)
        toks[j], toks[j + 1] = toks[j + 1], toks[j]
        put(idx, toks)
    elif kind in ("drop_paren", "add_paren"):
        cand = [i for i, l in enumerate(lines) if "(" in l]
        if cand:
            idx = rnd.choice(cand)
            toks = lex_raw(lines[idx])
            ps = [j for j, t in enumerate(toks) if t in "()" and j > 0]
            if ps:
                j = rnd.choice(ps)
                if kind == "drop_paren":
                    del toks[j]
                else:
                    toks.insert(j, toks[j])
                put(idx, toks)
    elif kind == "delete_line" and len(lines) > 1:
        del lines[idx]
    elif kind == "delete_loop_line":
        cand = [i for i, l in enumerate(lines) if re.search(r"(?i)^\s*\d+\s+(FOR|NEXT|WHILE|WEND|RETURN|DIM|DATA)\b", l)]
        if cand and len(lines) > 1:
            del lines[rnd.choice(cand)]
    elif kind == "drop_line_number":
        # recorded finding: an unnumbered line that divides by zero, READs or opens a loop / subroutine ends the process
        # (NULL line record, loop record into freed tokens); unnumbered lines are kept in the leg, those triggers are not
        cand = [i for i, l in enumerate(lines) if "/" not in l and not re.search(r"(?i)\b(READ|FOR|WHILE|GOSUB)\b", l)]
        if cand:
            idx = rnd.choice(cand)
            lines[idx] = re.sub(r"^\s*\d+\s*", "", lines[idx])
            kind = "drop_line_number"
        else:
            kind = "drop_line_number_excluded"
    elif kind == "undefined_target":
        cand = [i for i, l in enumerate(lines) if re.search(r"(?i)\b(GOTO|GOSUB|THEN|ELSE|RESTORE)\s+\d+", l)]
        if cand:
            idx = rnd.choice(cand)
            lines[idx] = re.sub(r"(?i)\b(GOTO|GOSUB|THEN|ELSE|RESTORE)(\s+)\d+", lambda m: m.group(1) + m.group(2) + "99991", lines[idx], count=1)
    elif kind == "type_mismatch" and len(toks) > 1:
        js = [j for j in range(1, len(toks)) if re.match(r'^(\d|\.\d|"|[A-Za-z])', toks[j]) and toks[j].upper() not in br.KEYWORDS]
        if js:
            j = rnd.choice(js)
            t = toks[j]
            if t.startswith('"'):
                toks[j] = "3"
            elif t[0].isdigit() or t[0] == ".":
                toks[j] = '"q"'
            elif t.endswith("$"):
                toks[j] = t[:-1]
            else:
                toks[j] = t + "$"
            put(idx, toks)
    elif kind == "swap_keyword":
        cand = [(i, j) for i, l in enumerate(lines) for j, t in enumerate(lex_raw(l)) if t.upper() in KEYWORD_SWAP]
        if cand:
            i, j = rnd.choice(cand)
            tk = lex_raw(lines[i])
            tk[j] = KEYWORD_SWAP[tk[j].upper()]
            put(i, tk)
    elif kind == "dangling_operator":
        lines[idx] = lines[idx] + " " + rnd.choice(["+", "*", "-", "/", "^", "AND", "=", "<", ",", "("])
    return lines, kind


def mentions_basic(err):
    return "BASIC" in err.upper()


def check_malformed(case, ctx):
    lines = case["lines"]
    r = br.run_program(lines, step_limit=100000)
    E = engine(ctx)
    text = host_punch(lines)
    cls = ["leg:malformed", "mutation:" + case.get("mutation", "?"), "reference:" + r.status]
    if "drop_line_number_excluded" in case.get("mutation", ""):
        excluded(ctx, "avoided", "unnumbered_line_with_division_read_or_loop")
    judged = r.status in ("ok", "error")
    # a mutated program may loop for ever; where the reference gives no verdict the wait is short
    res = E.run(text, timeout=TIMEOUT_S if judged else 10.0)
    alive = check_alive(res, "USER_PUNCH(malformed)", judged)
    if case.get("asan") and alive:
        a = E.run_asan(text, timeout=2 * TIMEOUT_S if judged else 30.0)
        if a == "unavailable":
            ctx.event("asan:unavailable")
        elif a is None:
            ctx.event("asan:clean")
        elif "timeout" in a:
            ctx.event("asan:timeout")
            if r.status in ("ok", "error"):
                raise Violation("hang", "ASan build: no answer within %.0f s for a program that ends in the reference" % (2 * TIMEOUT_S))
        else:
            raise Violation("sanitizer", "ASan/UBSan build ended with status %s on a mutated program\n%s" % (a["died"], a.get("stderr", "")[:2500]))
    if not alive:
        ctx.event("malformed:timeout_reference_undefined")
        return {"nontrivial": False, "classes": cls + ["verdict:timeout_not_judged"]}
    rc, err = res["rc"], res.get("errors") or ""
    if r.status == "undefined":
        excluded(ctx, "undef", r.undefined)
        # the documentation does not say what this text means: only "no crash, no hang" is asserted
        if rc != 0 and not mentions_basic(err):
            ctx.event("malformed:undefined_error_without_BASIC")
        return {"nontrivial": False, "classes": cls + ["verdict:not_crashed", "engine:" + ("error" if rc != 0 else "accepted")]}
    if r.status == "error":
        if rc == 0:
            t = res["tables"].get("1")
            raise Violation("malformed_accepted", "the run succeeds although the program fails in the reference with %r at line %s; values %r" %
                            (r.error[0], r.error[1], (t[1] if t and len(t) > 1 else [])[:20]))
        if not mentions_basic(err):
            raise Violation("error_text", "the run fails but the error text does not mention BASIC: %s (reference: %r at line %s)" % (first_error(res), r.error[0], r.error[1]))
        names_line = r.error[1] is not None and re.search(r"\b%d\b" % r.error[1], err) is not None
        return {"nontrivial": True, "classes": cls + ["verdict:basic_error", "error_names_line:%s" % names_line, "refkind:" + r.error[0].split(":")[0][:28]]}
    # the reference accepts the mutated program: the engine must accept it too and agree
    if rc != 0:
        raise Violation("valid_rejected", "mutated program is valid for the reference but the engine fails: %s" % first_error(res))
    flat = [v for g in r.outputs for v in g]
    cmp_punch(flat, res, "USER_PUNCH(mutated)")
    return {"nontrivial": True, "classes": cls + ["verdict:accepted_and_equal"]}


# ------------------------------------------------------------------------------------------ known findings (fixed replays)
def check_known(case, ctx):
    """replays/C17/known/*.json: minimal programs of the recorded findings; the documented expectation is asserted"""
    lines = case["lines"]
    E = engine(ctx)
    res = E.run(host_punch(lines))
    check_alive(res, "USER_PUNCH", True)
    if case.get("expect") == "basic_error":
        if res["rc"] == 0 or not mentions_basic(res.get("errors") or ""):
            raise Violation("error_text", "malformed program: expected a BASIC error, got rc=%s %s" % (res["rc"], first_error(res)))
        return {"nontrivial": False, "classes": ["leg:known"]}
    if res["rc"] != 0:
        raise Violation("valid_rejected", "the engine rejects the program: %s" % first_error(res))
    t = res["tables"].get("1")
    row = t[1] if t and len(t) > 1 else []
    want = case["expect"]
    ok = len(row) == len(want) and all((isinstance(w, str) and w == g) or (not isinstance(w, str) and isinstance(g, (int, float)) and abs(w - g) <= 1e-12 * abs(w)) for w, g in zip(want, row))
    if not ok:
        raise Violation("value", "delivered %r, documented semantics give %r (%s)" % (row, want, case.get("why", "")))
    return {"nontrivial": False, "classes": ["leg:known"]}


def check_case(case, ctx):
    try:
        k = case.get("kind")
        if k in ("valid", "large"):
            return check_valid(case, ctx)
        if k == "malformed":
            return check_malformed(case, ctx)
        if k == "known":
            return check_known(case, ctx)
        raise RuntimeError("unknown case kind %r" % k)
    finally:
        if ctx.tier == "replay":
            e = _engines.pop(id(ctx), None)
            if e:
                e.close()
            import shutil
            shutil.rmtree(ctx.scratch, ignore_errors=True)


# ------------------------------------------------------------------------------------------ strategies
@st.composite
def valid_case(draw):
    rnd = draw(st.randoms(use_true_random=False))
    size = draw(st.integers(1, 12))
    p = br.generate_program(rnd, size)
    return {"kind": "valid", "lines": p["lines"], "avoided": p["avoided"], "features": p["features"]}


@st.composite
def large_case(draw):
    seed = draw(st.integers(0, 2 ** 40))
    size = draw(st.integers(30, 90))
    rnd = random.Random(seed)
    p = br.generate_program(rnd, size)
    return {"kind": "large", "lines": p["lines"], "avoided": p["avoided"], "features": p["features"]}


@st.composite
def malformed_case(draw, asan_every):
    rnd = draw(st.randoms(use_true_random=False))
    size = draw(st.integers(1, 7))
    p = br.generate_program(rnd, size)
    lines, kind = mutate(p["lines"], rnd)
    if draw(st.integers(0, 5)) == 0:
        lines, k2 = mutate(lines, rnd)
        kind = kind + "+" + k2
    return {"kind": "malformed", "lines": lines, "mutation": kind, "asan": draw(st.integers(0, asan_every - 1)) == 0}


SHRINK_EVALUATIONS = 60


def bounded(ctx):
    """the oracle, with the work spent on shrinking a found violation bounded by a number of evaluations: once a violation
    was seen, SHRINK_EVALUATIONS further candidates are evaluated, later ones pass unevaluated (known failing cases
    fail again, so the reported minimal case stays reproducible).  Without a violation this wrapper does nothing."""
    from ..core import sha
    seen = {}
    state = {"after": 0}

    def f(case):
        if seen:
            h = sha(case)
            if h in seen:
                raise seen[h]
            state["after"] += 1
            if state["after"] > SHRINK_EVALUATIONS:
                return {"nontrivial": False, "classes": ["shrink_budget_exhausted"]}
        try:
            return check_case(case, ctx)
        except Violation as v:
            seen[sha(case)] = v
            raise
    return f


def run(ctx):
    b = BUDGET[ctx.tier]
    try:
        ctx.hyp(valid_case(), bounded(ctx), b["valid"], "valid")
        ctx.hyp(large_case(), bounded(ctx), b["large"], "large")
        ctx.hyp(malformed_case(ASAN_EVERY[ctx.tier]), bounded(ctx), b["malformed"], "malformed")
    finally:
        e = _engines.pop(id(ctx), None)
        if e:
            ctx.extra["asan_cases"] = e.n_asan
            e.close()
