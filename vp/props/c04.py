"""C04 - results depend only on the input text, not on how it is delivered or split."""
import os, re, glob, shutil, itertools, pickle, select, time
from hypothesis import strategies as st
from .. import lib
from ..core import Violation, Discard
from .. import c04gen as G

ID = "C04"
LEVEL = "exploration"
RULE = ("Inputs: the shipped phreeqc3-examples that run error-free and Hypothesis-generated programs of 3-8 simulations whose later "
        "simulations depend on definitions of earlier ones (SELECTED_OUTPUT/USER_PUNCH, RATES, CALCULATE_VALUES, KNOBS, PRINT, "
        "INCREMENTAL_REACTIONS, database additions, SAVE/USE/COPY/MIX/RUN_CELLS chains, PUT/GET memory). Each case = input x cut set over "
        "its END boundaries x delivery per piece (RunString / RunFile / AccumulateLine+RunAccumulated); oracle: selected-output rows per "
        "user number (heading->value, sim column dropped, rows without any value dropped, doubles bitwise), final DUMP -all text (simulation numbers in descriptions "
        "normalised), component list and return values of the split run equal those of one RunString of the whole text on a fresh "
        "instance. Non-trivial = >= 2 pieces and a later piece that punches rows without containing SELECTED_OUTPUT or USEs/runs/mixes/"
        "copies an entity number that is not defined earlier in that same piece; distinct by SHA-256 of the case. Cut sets are "
        "enumerated exhaustively for examples (and a subset of generated programs) with <= 6 boundaries (exhaustive_* counters).")
ASSUMPTIONS = ["the reference (one RunString of the whole text on a fresh instance) is the meaning of the input text",
               "simulations are delimited by lines consisting of the keyword END alone (END inside ';' lines is never a cut point)",
               "the allowed differences are the simulation counter only: 'sim' columns and 'simulation N' in entity descriptions",
               "generated programs never read SIM_NO; examples do not use it",
               "selected-output rows of a split run = concatenation of the tables read after each call",
               "a row without any value is not an observable row (a table without columns reports no rows)",
               "an input whose single-call run kills the process or does not end is not an error-free input (discarded, counted)",
               "chemistry of generated programs comes from vp.cellgen; kinetics without CVODE, moderate amounts (run time)"]
TECHNIQUE = "property-based differential testing (Hypothesis + small-scope enumeration of cut sets): split/re-delivered run vs single-call run"
LEVEL_TEXT = ("Exploration: every shipped example under all (<= 6 boundaries) or sampled cut sets and thousands of generated "
              "multi-simulation programs are executed split over several calls with mixed entry points and compared bitwise with the "
              "single-call run (rows, dump, components, return values).")
FLOORS = {"quick": 150, "thorough": 1500}
SHARDS = {"quick": 8, "thorough": 16}
# per-shard budgets
BUDGET = {"quick": {"gen": 170, "gen_all": 6, "ex": 14}, "thorough": {"gen": 650, "gen_all": 25, "ex": 40}, "replay": {}}

EXDIR = os.path.join(lib.REPO, "phreeqc3-examples")
EX_DB = {"ex15": "ex15.dat", "ex15a": "ex15.dat", "ex15b": "ex15.dat", "ex17": "pitzer.dat", "ex17b": "pitzer.dat",
         "ex20a": "iso.dat", "ex20b": "iso.dat"}
EX_SKIP = {"ex20b": "needs an include file that only the stand-alone program writes (run returns an error)"}
EX_SLOW = {"ex15", "ex15a", "ex15b", "ex21"}          # 2.6-10 s per run: thorough tier only
METHODS = ["S", "F", "A"]
MAX_EXH = 6


def prepare(tier):
    lib.build("rel", ["libiphreeqc_rel.so"])


# ------------------------------------------------------------------------------- text handling
END_RE = re.compile(r"^\s*END\s*(#.*)?$", re.I)


def _content(text):
    return any(l.split("#", 1)[0].strip() for l in text.split("\n"))


def split_sims(text):
    """Cut a text after every line that consists of the keyword END alone; "".join(result) == text."""
    lines = text.split("\n")
    sims, cur = [], []
    for i, l in enumerate(lines):
        last = i == len(lines) - 1
        cur.append(l)
        if END_RE.match(l) and not last and not (i > 0 and lines[i - 1].split("#", 1)[0].rstrip().endswith("\\")):
            sims.append("\n".join(cur) + "\n")
            cur = []
    rest = "\n".join(cur)
    if _content(rest) or not sims:
        sims.append(rest)
    else:
        sims[-1] += rest
    return sims


def example_names():
    return sorted(f for f in os.listdir(EXDIR) if re.match(r"^ex\d+[a-z]*$", f) and f not in EX_SKIP)


_ex_cache = {}


def example(name):
    if name not in _ex_cache:
        text = open(os.path.join(EXDIR, name), "rb").read().decode("latin-1")
        db = EX_DB.get(name, "phreeqc.dat")
        if db == "ex15.dat":
            db = os.path.join(EXDIR, db)
        sims = split_sims(text)
        assert "".join(sims) == text
        _ex_cache[name] = (db, sims)
    return _ex_cache[name]


def prepare_dir(ctx, with_examples):
    """per-worker scratch directory = cwd of every run; for examples it holds copies of their include/data files"""
    sd = ctx.scratch_dir()
    if with_examples and not os.path.exists(os.path.join(sd, ".examples")):
        for f in os.listdir(EXDIR):
            p = os.path.join(EXDIR, f)
            if os.path.isfile(p) and not f.endswith((".out", ".sel")) and os.path.getsize(p) < 2000000:
                shutil.copy(p, os.path.join(sd, f))
        open(os.path.join(sd, ".examples"), "w").close()
    os.chdir(sd)
    return sd


# ------------------------------------------------------------------------------- observation
def _cell(v):
    if isinstance(v, float):
        return ("d", v.hex())
    if isinstance(v, bool):
        return ("l", int(v))
    if isinstance(v, int):
        return ("l", v)
    if isinstance(v, str):
        return ("s", v)
    return ("?", repr(v))


def read_rows(I):
    """{user number: [row, ...]} of the tables the last call left; row = sorted [(heading, type, value)] of the
    non-empty cells, columns headed 'sim' dropped; rows without any value are dropped"""
    out = {}
    for n in I.user_numbers():
        T = I.table(n)
        if T.rows <= 1:
            out[n] = []
            continue
        heads = T.cells[0]
        rows = []
        for r in T.cells[1:]:
            row = sorted((str(h),) + _cell(v) for h, v in zip(heads, r) if v is not None and h != "sim")
            # a row without any value is not observable in general (a table without columns reports no rows at all,
            # e.g. SELECTED_OUTPUT 5 without options): only rows that hold a value are compared
            if row:
                rows.append(row)
        out[n] = rows
    I.set_current(1)
    return out


HDR_RE = re.compile(r"^\s*[A-Z_]+_RAW\s")
SIMN_RE = re.compile(r"simulation \d+")


def final_dump(I):
    I.seti("SetDumpStringOn", 1)
    rc = I.run_string("DUMP\n -all\nEND\n")
    d = I.dump() or ""
    I.seti("SetDumpStringOn", 0)
    if rc != 0:
        return rc, d
    L = []
    for l in d.split("\n"):
        if HDR_RE.match(l):
            l = SIMN_RE.sub("simulation N", l)
        L.append(l)
    return 0, L


def deliver(I, piece, how, sd, k):
    if how == "S":
        return I.run_string(piece)
    if how == "F":
        p = os.path.join(sd, "piece_%d.pqi" % k)
        with open(p, "wb") as f:
            f.write(piece.encode("latin-1", "replace"))
        return I.run_file(p)
    if how == "A":
        lines = piece.split("\n")
        if lines and lines[-1] == "":
            lines = lines[:-1]
        for l in lines:
            if I.accumulate(l) != 0:
                return -99
        return I.run_accumulated()
    raise ValueError(how)


def run_reference(db, text):
    I = lib.fresh(db)
    try:
        rc = I.run_string(text)
        if rc != 0:
            return {"rc": rc, "err": (I.errors() or "")[:300]}
        ref = {"rc": 0, "rows": read_rows(I), "comps": I.components()}
        rcd, ref["dump"] = final_dump(I)
        if rcd != 0:
            return {"rc": rcd, "err": "DUMP call: " + (I.errors() or "")[:300]}
        return ref
    finally:
        I.close()


REF_TIMEOUT = {"ex": 300.0, "gen": 40.0}


def guarded_reference(db, text, kind):
    """run_reference in a forked child.  An input whose *single-call* run kills the process (or never ends) is not an
    error-free input: it lies outside the domain of this property (it is C08's business) and must not take the worker down."""
    r, w = os.pipe()
    pid = os.fork()
    if pid == 0:
        code = 3
        try:
            os.close(r)
            data = pickle.dumps(run_reference(db, text), 2)
            with os.fdopen(w, "wb") as f:
                f.write(data)
            code = 0
        finally:
            os._exit(code)
    os.close(w)
    chunks = []
    deadline = time.time() + REF_TIMEOUT[kind]
    timed_out = False
    try:
        while True:
            left = deadline - time.time()
            if left <= 0:
                timed_out = True
                os.kill(pid, 9)
                break
            if not select.select([r], [], [], min(left, 5.0))[0]:
                continue
            b = os.read(r, 1 << 20)
            if not b:
                break
            chunks.append(b)
    finally:
        os.close(r)
    status = os.waitpid(pid, 0)[1]
    if timed_out:
        return {"rc": "timeout", "err": "single-call run did not end within %d s" % REF_TIMEOUT[kind]}
    if os.WIFSIGNALED(status):
        return {"rc": "signal", "err": "single-call run died with signal %d" % os.WTERMSIG(status)}
    if os.WEXITSTATUS(status) != 0:
        return {"rc": "exit", "err": "reference child exited with %d" % os.WEXITSTATUS(status)}
    return pickle.loads(b"".join(chunks))


def pieces_of(sims, cuts, nl_next=()):
    """consecutive pieces = exact substrings of the text; at a cut listed in nl_next the newline that ends the END line
    is the first character of the next piece instead of the last one of this piece"""
    out, a, carry = [], 0, ""
    for c in list(cuts) + [len(sims) - 1]:
        t = carry + "".join(sims[a:c + 1])
        carry = ""
        if c in nl_next and c != len(sims) - 1 and t.endswith("\n"):
            t, carry = t[:-1], "\n"
        out.append(t)
        a = c + 1
    return out


def run_split(db, sims, cuts, deliv, sd, nl_next=()):
    """-> observation dict; 'per_call' = number of rows each call produced"""
    I = lib.fresh(db)
    try:
        rows, per_call = {}, []
        pieces = pieces_of(sims, cuts, nl_next)
        for k, piece in enumerate(pieces):
            rc = deliver(I, piece, deliv[k % len(deliv)], sd, k)
            if rc != 0:
                return {"rc": rc, "call": k, "err": (I.errors() or "")[:400], "pieces": pieces}
            got = read_rows(I)
            I.components()          # a client may look at the list between calls; the final list must still be current
            per_call.append(sum(len(v) for v in got.values()))
            for n, r in got.items():
                rows.setdefault(n, []).extend(r)
        obs = {"rc": 0, "rows": rows, "comps": I.components(), "per_call": per_call, "pieces": pieces}
        rcd, obs["dump"] = final_dump(I)
        if rcd != 0:
            return {"rc": rcd, "call": len(pieces), "err": "DUMP call: " + (I.errors() or "")[:300], "pieces": pieces}
        return obs
    finally:
        I.close()


def compare(ref, obs, tag):
    if obs["rc"] != 0:
        raise Violation("return_value", "%s: call %d of the split run returned %d although the whole text runs error-free: %s"
                        % (tag, obs["call"], obs["rc"], obs["err"]))
    for n in sorted(set(ref["rows"]) | set(obs["rows"])):
        a, b = ref["rows"].get(n, []), obs["rows"].get(n, [])
        if len(a) != len(b):
            raise Violation("rows", "%s: user number %d: whole run punched %d rows, split run %d (per call %r)"
                            % (tag, n, len(a), len(b), obs["per_call"]))
        for i, (x, y) in enumerate(zip(a, b)):
            if x != y:
                dx = [c for c in x if c not in y][:4]
                dy = [c for c in y if c not in x][:4]
                raise Violation("rows", "%s: user number %d data row %d differs: whole %r / split %r" % (tag, n, i + 1, dx, dy))
    if ref["comps"] != obs["comps"]:
        raise Violation("components", "%s: component list whole %r / split %r" % (tag, ref["comps"], obs["comps"]))
    if ref["dump"] != obs["dump"]:
        a, b = ref["dump"], obs["dump"]
        i = 0
        while i < min(len(a), len(b)) and a[i] == b[i]:
            i += 1
        ent = ""
        for j in range(min(i, len(a) - 1), -1, -1):
            if HDR_RE.match(a[j]):
                ent = a[j].strip()[:60]
                break
        raise Violation("dump", "%s: final DUMP -all differs at line %d (in %s): whole %r / split %r (lines %d / %d)"
                        % (tag, i + 1, ent, a[i][:120] if i < len(a) else None, b[i][:120] if i < len(b) else None, len(a), len(b)))


# ------------------------------------------------------------------------------- non-trivial rule (measured on the pieces)
KINDMAP = [("reaction_temperature", "temp"), ("reaction_pressure", "pres"), ("reaction", "reac"), ("solution", "solu"),
           ("equilibrium_phases", "equi"), ("equilibrium", "equi"), ("equilibria", "equi"), ("pure_phases", "equi"), ("pure", "equi"),
           ("phases", "equi"), ("exchange", "exch"), ("surface", "surf"), ("gas_phase", "gas"), ("gas", "gas"), ("kinetics", "kine"),
           ("mix", "mix"), ("solid_solutions", "ss"), ("solid_solution", "ss"), ("cell", "cell"), ("cells", "cell")]
DEF_RE = re.compile(r"^\s*(SOLUTION|EQUILIBRIUM_PHASES|PURE_PHASES|EXCHANGE|SURFACE|GAS_PHASE|KINETICS|REACTION|MIX|SOLID_SOLUTIONS|"
                    r"REACTION_TEMPERATURE|REACTION_PRESSURE)(_RAW|_MODIFY)?(\s+(\d+)(\s*-\s*(\d+))?)?(\s|$)", re.I)
USE_RE = re.compile(r"^\s*USE\s+([A-Za-z_]+)\s+(\d+)", re.I)
SAVE_RE = re.compile(r"^\s*SAVE\s+([A-Za-z_]+)\s+(\d+)(\s*-\s*(\d+))?", re.I)
COPY_RE = re.compile(r"^\s*COPY\s+([A-Za-z_]+)\s+(\d+)\s+(\d+)(\s*-\s*(\d+))?", re.I)
MIXLINE_RE = re.compile(r"^\s*(\d+)\s+[-+0-9.eE]+\s*$")
CELLS_RE = re.compile(r"^\s*-?cells?\s+([-0-9\s]+)$", re.I)
KEYWORD_RE = re.compile(r"^\s*([A-Z][A-Z_]+)\b")


def _kind(w):
    w = w.lower()
    for k, v in KINDMAP:
        if w == k:
            return v
    for k, v in KINDMAP:
        if k.startswith(w) and len(w) >= 3:
            return v
    return w


def depends_on_earlier(piece):
    """True when the piece uses (USE / MIX / COPY / RUN_CELLS) a numbered entity that no earlier line of the same piece
    defines or saves"""
    have = set()
    block = None
    for raw in piece.split("\n"):
        for l in raw.split("#", 1)[0].split(";"):
            if not l.strip():
                continue
            m = DEF_RE.match(l)
            if m:
                k = _kind(m.group(1))
                a = int(m.group(4)) if m.group(4) else 1
                b = int(m.group(6)) if m.group(6) else a
                for n in range(a, min(b, a + 200) + 1):
                    have.add((k, n))
                block = "MIX" if k == "mix" else None
                continue
            m = USE_RE.match(l)
            if m:
                block = None
                k = _kind(m.group(1))
                if k == "cell":
                    k = "solu"
                if (k, int(m.group(2))) not in have:
                    return True
                continue
            m = SAVE_RE.match(l)
            if m:
                block = None
                a = int(m.group(2))
                b = int(m.group(4)) if m.group(4) else a
                for n in range(a, min(b, a + 200) + 1):
                    have.add((_kind(m.group(1)), n))
                continue
            m = COPY_RE.match(l)
            if m:
                block = None
                k = _kind(m.group(1))
                kinds = ["solu", "equi", "exch", "surf", "gas", "kine", "ss", "reac", "temp", "pres", "mix"] if k == "cell" else [k]
                if k != "cell" and (k, int(m.group(2))) not in have:
                    return True
                if k == "cell" and ("solu", int(m.group(2))) not in have:
                    return True
                a = int(m.group(3))
                b = int(m.group(5)) if m.group(5) else a
                for kk in kinds:
                    for n in range(a, min(b, a + 200) + 1):
                        have.add((kk, n))
                continue
            if block == "MIX":
                m = MIXLINE_RE.match(l)
                if m:
                    if ("solu", int(m.group(1))) not in have:
                        return True
                    continue
            m = KEYWORD_RE.match(l)
            if m and m.group(1).upper() == "RUN_CELLS":
                block = "RUN_CELLS"
                continue
            if block == "RUN_CELLS":
                m = CELLS_RE.match(l)
                if m:
                    for n in re.findall(r"\d+", m.group(1)):
                        if ("solu", int(n)) not in have:
                            return True
                    continue
                if l.strip().startswith("-"):
                    continue
            if m:
                block = None
    return False


SO_RE = re.compile(r"(^|;)\s*SELECTED_OUTPUT\b", re.I | re.M)


def nontrivial(obs):
    pieces = obs["pieces"]
    if len(pieces) < 2:
        return False, False, False
    a = any(obs["per_call"][k] > 0 and not SO_RE.search(pieces[k]) for k in range(1, len(pieces)))
    b = any(depends_on_earlier(pieces[k]) for k in range(1, len(pieces)))
    return a or b, a, b


# ------------------------------------------------------------------------------- the oracle on one case
_ref_cache = {}


def all_cutsets(nb):
    for r in range(nb + 1):
        for c in itertools.combinations(range(nb), r):
            yield list(c)


def check_case(case, ctx):
    try:
        return _check_case(case, ctx)
    finally:
        if ctx.tier == "replay":        # the replay path of the driver does not remove the scratch directory
            os.chdir(lib.VERIF)
            shutil.rmtree(ctx.scratch, ignore_errors=True)


def _check_case(case, ctx):
    sd = prepare_dir(ctx, case["kind"] == "ex")
    for f in glob.glob(os.path.join(sd, "piece_*.pqi")):
        os.unlink(f)
    if case["kind"] == "ex":
        db, sims = example(case["name"])
        key = ("ex", case["name"])
        if key not in _ref_cache:
            _ref_cache[key] = guarded_reference(db, "".join(sims), "ex")
        ref = _ref_cache[key]
    else:
        db, sims = case["db"], case["sims"]
        ref = guarded_reference(db, "".join(sims), "gen")
    if ref["rc"] in ("signal", "timeout"):
        ctx.event("whole_run_" + ref["rc"] + "_outside_domain")
        raise Discard("whole_run_" + ref["rc"])
    if ref["rc"] == "exit":
        raise RuntimeError("reference child failed: " + ref["err"])
    if ref["rc"] != 0:
        raise Discard("whole_run_error")
    nb = len(sims) - 1
    classes = ["kind=" + case["kind"], "sims=%d" % min(len(sims), 9)]
    if case["cuts"] == "all":
        if nb > MAX_EXH:
            raise Discard("too_many_boundaries_for_all")
        cutsets = list(all_cutsets(nb))
        classes.append("cuts=all")
    else:
        cuts = sorted(set(c for c in case["cuts"] if 0 <= c < nb))
        cutsets = [cuts]
    nt = False
    deliv = case["deliv"] or ["S"]
    for ci, cuts in enumerate(cutsets):
        if ci:
            ctx.begin(case)         # heartbeat for the driver's per-case watchdog (an "all" case is up to 64 split runs)
        d = deliv if case["cuts"] != "all" else [deliv[(ci + j) % len(deliv)] for j in range(len(cuts) + 1)]
        d = [d[j % len(d)] for j in range(len(cuts) + 1)]
        obs = run_split(db, sims, cuts, d, sd, case.get("nl_next", ()))
        tag = "cuts=%r deliv=%s" % (cuts, "".join(d))
        compare(ref, obs, tag)
        t, ta, tb = nontrivial(obs)
        nt = nt or t
        if case["cuts"] == "all":
            ctx.extra["exhaustive_cutsets_run"] = ctx.extra.get("exhaustive_cutsets_run", 0) + 1
            if t:
                ctx.extra["exhaustive_cutsets_nontrivial"] = ctx.extra.get("exhaustive_cutsets_nontrivial", 0) + 1
        else:
            classes.append("pieces=%d" % min(len(cuts) + 1, 9))
            classes += ["deliv_has_" + m for m in sorted(set(d))]
            if len(set(d)) > 1:
                classes.append("deliv_mixed")
            if any(d[j] == "A" and d[j + 1] == "A" for j in range(len(d) - 1)):
                classes.append("deliv_A_after_A")
            if ta:
                classes.append("nt_rows_without_selected_output_in_piece")
            if tb:
                classes.append("nt_uses_entity_of_earlier_piece")
            if len(cuts) > 0 and not t:
                classes.append("split_but_trivial")
    if case["kind"] == "gen":
        classes += ["feat=" + f for f in case.get("feats", [])]
    total_rows = sum(len(v) for v in ref["rows"].values())
    classes.append("rows=0" if total_rows == 0 else "rows>0")
    if len(ref["rows"]) >= 2:
        classes.append("user_numbers>=2")
    return {"nontrivial": nt, "classes": classes}


# ------------------------------------------------------------------------------- legs
@st.composite
def cut_and_delivery(draw, nb):
    if nb == 0:
        cuts = []
    else:
        mode = draw(st.integers(0, 5))
        if mode == 0:
            cuts = list(range(nb))
        elif mode == 1:
            cuts = [draw(st.integers(0, nb - 1))]
        else:
            cuts = sorted(draw(st.lists(st.integers(0, nb - 1), min_size=1, max_size=nb, unique=True)))
    deliv = draw(st.lists(st.sampled_from(METHODS), min_size=len(cuts) + 1, max_size=len(cuts) + 1))
    return cuts, deliv


@st.composite
def example_case(draw, names):
    name = draw(st.sampled_from(names))
    nb = len(example(name)[1]) - 1
    cuts, deliv = draw(cut_and_delivery(nb))
    return {"kind": "ex", "name": name, "cuts": cuts, "deliv": deliv}


@st.composite
def gen_case(draw, exhaustive=False):
    prog = draw(G.program(MAX_EXH + 1 if exhaustive else 8))
    nb = len(prog["sims"]) - 1
    nl_next = []
    if draw(st.integers(0, 2)) > 0:       # text layer: the same chemistry in another documented layout
        prog["sims"], lf = draw(G.layout(prog["sims"]))
        prog["feats"] = prog["feats"] + lf
        nl_next = draw(st.lists(st.integers(0, max(nb - 1, 0)), max_size=3, unique=True))
    if exhaustive:
        deliv = draw(st.lists(st.sampled_from(METHODS), min_size=5, max_size=5))
        cuts = "all"
    else:
        cuts, deliv = draw(cut_and_delivery(nb))
    return {"kind": "gen", "db": prog["db"], "sims": prog["sims"], "feats": prog["feats"], "cuts": cuts, "deliv": deliv,
            "nl_next": sorted(nl_next)}


def enumerate_examples(ctx, names):
    """small-scope exhaustive leg: every cut set of every example with <= MAX_EXH boundaries; delivery methods rotate"""
    n = 0
    done = 0
    spaces = []
    for name in names:
        nb = len(example(name)[1]) - 1
        if nb > MAX_EXH:
            continue
        spaces.append("%s:%d" % (name, 2 ** nb))
        for ci, cuts in enumerate(all_cutsets(nb)):
            n += 1
            if n % ctx.nshards != ctx.shard:
                continue
            deliv = [METHODS[(ci + j + ctx.seed) % 3] for j in range(len(cuts) + 1)]
            case = {"kind": "ex", "name": name, "cuts": cuts, "deliv": deliv}
            ctx.begin(case)
            try:
                info = check_case(case, ctx)
                ctx.record(case, info["nontrivial"], info["classes"] + ["leg=examples_exhaustive"])
                done += 1
            except Discard as d:
                ctx.discard(d.why)
            except Violation as v:
                ctx.failures.append({"case": case, "oracle": v.oracle, "message": v.msg[:3000], "test": "examples_exhaustive"})
                return
    ctx.extra["exhaustive_example_cutsets"] = done
    if ctx.shard == 0:
        ctx.extra["exhaustive_example_spaces"] = spaces


def run(ctx):
    b = BUDGET[ctx.tier]
    names = example_names()
    if ctx.tier == "quick":
        names = [n for n in names if n not in EX_SLOW]
    legs = [lambda: enumerate_examples(ctx, [n for n in names if ctx.tier != "quick" or n in QUICK_EXH]),
            lambda: ctx.hyp(example_case(names), lambda c: check_case(c, ctx), b["ex"], "examples"),
            lambda: ctx.hyp(gen_case(False), lambda c: check_case(c, ctx), b["gen"], "generated"),
            lambda: ctx.hyp(gen_case(True), lambda c: check_case(c, ctx), b["gen_all"], "generated_all_cuts")]
    only = os.environ.get("VERIF_C04_LEGS")        # development switch (sensitivity of a single leg), e.g. "23"
    for i, leg in enumerate(legs):
        if only and str(i) not in only:
            continue
        leg()
        if ctx.failures:        # the verdict of this shard is known; do not spend the budget on shrinking more failures
            break


# examples whose whole cut-set space is enumerated in the quick tier as well (cheap ones)
QUICK_EXH = {"ex2b", "ex3", "ex4", "ex7", "ex9", "ex12", "ex19b", "ex20a", "ex22", "ex14", "ex13a", "ex10"}
