"""C07 - loading a database returns the instance to the fresh state.

A case is one whole call history (JSON): steps before the load (loads of other databases, successful
runs from a pool of shipped examples and generated option-changing inputs, setter calls), at most one
failing call, the load, and the follow-up calls.  The history is played on one instance (H); a brand-new
instance (R) gets only what the property lets survive (global output switches, user-set file names),
loads the same database the same way and receives the same follow-up calls.  Every observable channel
after the load must be equal.
"""
import os, re, json, shutil
from hypothesis import strategies as st
from .. import lib
from .. import c07_texts as T
from ..core import Violation, Discard

ID = "C07"
LEVEL = "exploration"
RULE = ("Hypothesis composite history: start database (19 shipped databases, file or string), 0-5 steps of {load another database | "
        "run a shipped example | run a generated input that changes KNOBS/PRINT/SELECTED_OUTPUT/USER_PUNCH/USER_PRINT/RATES/"
        "CALCULATE_VALUES/PUT/TRANSPORT/ADVECTION/INCREMENTAL_REACTIONS/isotopes/PITZER/LLNL parameters/new species/entities | "
        "setter call (global switches, file names, per-number switches, current number, AccumulateLine, AddError/AddWarning, SetBasicCallback/SetBasicFortranCallback with a host function of shim_c07.cpp)}, at most one "
        "failing call (input error, abort in the middle of a calculation, convergence failure, missing input file, failed load), then "
        "LoadDatabase/LoadDatabaseString returning 0, then 0-3 setter calls and 1-5 follow-ups (probe battery written from the member "
        "groups of Phreeqc::init, generated inputs, RunAccumulated). Non-trivial = the history holds a database of another family, an "
        "option-changing run or a failing call, and at least one follow-up run returned 0 and produced output text or table rows; "
        "distinct by SHA-256 of the case")
ASSUMPTIONS = ["the elapsed-time banner (End of Run after ... Seconds. and its two dashed lines) is the only legitimately run-dependent text",
               "default file names embed the instance id; they are compared after replacing the id",
               "file names given with -file in SELECTED_OUTPUT of an earlier input count as user-set names (may survive): names are copied "
               "from the history instance to the new one and only checked to be either the default or a name the history supplied",
               "DUMP -file of an earlier input renames the dump file (IPhreeqc copies the name into DumpFileName); such a name also counts as user-set",
               "a follow-up that fails ends the battery (what happens after a failed run on the same instance is C08's subject)",
               "generated histories avoid, by construction, inputs that crash or hang the pinned tree on a brand-new instance as well "
               "(INVERSE_MODELING without an Alkalinity master species, -interlayer_d without exchange species, PITZER keyword on a non-Pitzer "
               "database, column calculations after kinetic/surface/gas entities were left in the cells)"]
TECHNIQUE = "property-based testing (Hypothesis composite call histories): two-instance differential against a brand-new instance"
LEVEL_TEXT = ("Exploration: generated call histories (other database families, option-changing runs, failing calls) followed by a reload are "
              "compared channel by channel with a new instance on a probe battery derived from the reset list; sensitivity measured by "
              "deleting single reset lines.")
FLOORS = {"quick": 150, "thorough": 1500}
SHARDS = {"quick": 8, "thorough": 16}
BUDGET = {"quick": 150, "thorough": 1200, "replay": 1}

GLOBAL_SW = ["OutputStringOn", "LogStringOn", "DumpStringOn", "ErrorStringOn", "OutputFileOn", "LogFileOn", "DumpFileOn",
             "ErrorFileOn", "ErrorOn"]
GLOBAL_SW_DEFAULT = {"OutputStringOn": 0, "LogStringOn": 0, "DumpStringOn": 0, "ErrorStringOn": 1, "OutputFileOn": 0,
                     "LogFileOn": 0, "DumpFileOn": 0, "ErrorFileOn": 0, "ErrorOn": 1}
GLOBAL_NAMES = ["OutputFileName", "LogFileName", "ErrorFileName", "DumpFileName"]
OBS_NUMS = [1, 2, 3, 5, 10, 7]
HIST_NUMS = [1, 2, 3, 5, 10]


# databases without an Alkalinity master species: INVERSE_MODELING dereferences a null master_alk there (SIGSEGV on the
# unchanged tree, reported as a side finding for C08) -> no inverse block / probe with these
NO_ALK = ["ColdChem.dat", "ex15.dat", "minimum.dat"]


_cb_bound = []


def cb_lib():
    """prototypes of shim/shim_c07.cpp (host BASIC callbacks defined in the shim)"""
    L = lib.lib()
    if not _cb_bound:
        import ctypes
        L.c07_set_basic_callback.argtypes = [ctypes.c_int, ctypes.c_int]
        L.c07_set_basic_callback.restype = ctypes.c_int
        L.c07_callback_calls.argtypes = []
        L.c07_callback_calls.restype = ctypes.c_long
        _cb_bound.append(1)
    return L


def prepare(tier):
    lib.build("rel", ["libiphreeqc_rel.so"])


# =============================================================================== compatibility data
_COMPAT_PATH = os.path.join(os.path.dirname(os.path.dirname(os.path.abspath(__file__))), "c07_compat.json")
try:
    COMPAT = json.load(open(_COMPAT_PATH))
except Exception:  # before the table was generated
    COMPAT = {"examples": {}, "blocks": {}, "slow": []}


COLUMN_RE = re.compile(r"(?im)^\s*(TRANSPORT|ADVECTION|RUN_CELLS)\b")


def ex_for_db(db, slow, loaded=False):
    out = [e for e, dbs in sorted(COMPAT["examples"].items()) if db in dbs and ((e in COMPAT["slow"]) == slow)]
    out = [e for e in out if excluded_history_text(T.example_text(e)) is None]
    if loaded:
        # same rule as for generated blocks: no column calculation on cells that hold what an earlier run of the session left behind
        # (ex4 followed by ex21 on one instance crashes the pinned tree, without any load involved; reported for C08)
        out = [e for e in out if not COLUMN_RE.search(T.example_text(e))]
    return out


# =============================================================================== generated option-changing inputs
KNOB_OPTS = {
    "iterations": ["60", "150", "250"], "convergence_tolerance": ["1e-10", "1e-12", "1e-7"], "tolerance": ["1e-14", "1e-16", "1e-13"],
    "step_size": ["10", "50", "300"], "pe_step_size": ["2", "5", "30"], "scale_pure_phases": ["0.5", "2"], "diagonal_scale": ["true"],
    "logfile": ["true"], "delay_mass_water": ["true"], "numerical_derivatives": ["true"], "tries": ["5", "50"],
    "numerical_fixed_volume": ["true"], "force_numerical_fixed_volume": ["true"], "equi_delay": ["2"],
    "minimum_total": ["1e-20", "1e-28"], "debug_prep": ["true"], "debug_set": ["true"], "debug_model": ["true"],
    "debug_inverse": ["true"], "debug_diffuse_layer": ["true"], "debug_mass_action": ["true"], "debug_mass_balance": ["true"],
}
PRINT_FLAGS = ["gas_phase", "equilibrium_phases", "surface", "exchange", "totals", "eh", "species", "saturation_indices", "other",
               "selected_output", "inverse", "kinetics", "dump", "user_print", "solid_solutions", "headings", "echo_input",
               "initial_isotopes", "isotope_ratios", "isotope_alphas", "alkalinity", "high_precision", "status"]
SO_FLAGS = ["simulation", "state", "solution", "distance", "time", "step", "ph", "pe", "reaction", "temperature", "alkalinity",
            "ionic_strength", "water", "charge_balance", "percent_error", "high_precision"]
SOLS = [
    " temp 25\n pH 7\n Na 10\n K 1\n Ca 2\n Mg 1\n Cl 17 charge\n S(6) 1\n C(4) 2\n",
    " temp 12\n pH 8.1\n Na 100\n K 2\n Ca 5\n Mg 10\n Cl 130 charge\n S(6) 5\n C(4) 1\n",
    " temp 70\n pressure 50\n pH 6.5\n Na 30\n Ca 1\n Cl 32 charge\n C(4) 0.5\n",
    " temp 25\n pH 5.5\n Na 1\n K 0.1\n Ca 0.2\n Cl 1.5 charge\n",
]


def onoff(draw):
    return draw(st.sampled_from(["true", "false"]))


def b_knobs(draw, history=False):
    names = sorted(KNOB_OPTS)
    if history and EXCLUDE_LOGFILE_IN_HISTORY:
        names = [n for n in names if n != "logfile"]
    opts = draw(st.lists(st.sampled_from(names), min_size=1, max_size=8, unique=True))
    return ["KNOBS"] + [" -%s %s" % (o, draw(st.sampled_from(KNOB_OPTS[o]))) for o in opts]


def b_print(draw):
    L = ["PRINT"]
    if draw(st.integers(0, 4)) == 0:
        L.append(" -reset %s" % onoff(draw))
    for f in draw(st.lists(st.sampled_from(PRINT_FLAGS), min_size=1, max_size=8, unique=True)):
        L.append(" -%s %s" % (f, onoff(draw)))
    k = draw(st.integers(0, 5))
    if k == 0:
        L.append(" -warnings %s" % draw(st.sampled_from(["0", "2", "40", "-1"])))
    if k == 1:
        L.append(" -censor_species 1e-6")
    return L


def b_selout(draw):
    n = draw(st.sampled_from(HIST_NUMS))
    L = ["SELECTED_OUTPUT %d" % n]
    if draw(st.integers(0, 3)) == 0:
        L.append(" -reset %s" % onoff(draw))
    for f in draw(st.lists(st.sampled_from(SO_FLAGS), max_size=4, unique=True)):
        L.append(" -%s %s" % (f, onoff(draw)))
    L.append(" -totals Na Cl")
    if draw(st.booleans()):
        L.append(" -molalities Na+ Ca+2")
    if draw(st.integers(0, 2)) == 0:
        L.append(" -file hist_sel_%d.txt" % n)
    if draw(st.integers(0, 2)) > 0:
        L += ["USER_PUNCH %d" % n, "-headings h_a h_b", "10 PUNCH TOT(\"Na\"), zqun, %s" % draw(st.sampled_from(["3", "GET(1)", "zquns$"])),
              "20 zqun = zqun + 7", "30 zquns$ = \"left\"", "40 PUT(%s, 1)" % draw(st.sampled_from(["11", "2.5"])),
              "50 PUT(8, 2, 3)", "60 PUT(GET(5) + 100, 5)"]
    return L


def b_userprint(draw):
    return ["USER_PRINT", "10 PRINT \"history user print\", TOT(\"Na\"), zqun2", "20 zqun2 = zqun2 + 5", "30 PUT(77, 1)"]


def b_kinetics(draw):
    L = ["RATES", "Krxn", "-start", "10 SAVE %s * TIME" % draw(st.sampled_from(["1e-7", "2e-8 * M"])), "-end",
         "KINETICS %d" % draw(st.sampled_from([1, 2, 4])), "Krxn", " -formula NaCl 1", " -m0 1",
         " -steps %s" % draw(st.sampled_from(["100 in 2", "50 100 150", "1000"]))]
    k = draw(st.integers(0, 4))
    if k == 0:
        L.append(" -cvode true")
    if k == 1:
        L += [" -runge_kutta 6", " -step_divide 100", " -bad_step_max 200"]
    return L


def b_calc(draw):
    return ["CALCULATE_VALUES", "cv_hist", "-start", "10 SAVE %s" % draw(st.sampled_from(["42", "TOT(\"Na\") * 2"])), "-end"]


def b_incr(draw):
    return ["INCREMENTAL_REACTIONS true", "REACTION 1", " NaCl 1", " %s" % draw(st.sampled_from(["1 2 3 mmol", "3 mmol in 2 steps"]))]


def b_title(draw):
    return ["TITLE history title %d" % draw(st.integers(0, 9))]


def b_transport(draw, history=False):
    cells = draw(st.integers(2, 4))
    # (a time step is always given: kinetic reactants of an earlier run of the history would otherwise make the block an error)
    L = ["TRANSPORT", " -cells %d" % cells, " -shifts %d" % draw(st.integers(1, 3)),
         " -time_step %s" % draw(st.sampled_from(["100", "20000", "3600 2"]))]
    opts = {
        "boundary_conditions": ["flux constant", "constant closed", "closed flux", "constant constant"],
        "diffusion_coefficient": ["1e-9", "5e-10"], "temperature_retardation_factor": ["3.0"], "lengths": ["0.5", "0.02"],
        "dispersivities": ["0.05", "0.002"], "punch_cells": ["1-2", "2"], "print_cells": ["1", "2-%d" % cells],
        "punch_frequency": ["2"], "print_frequency": ["2"], "correct_disp": ["true"], "initial_time": ["1000", "5e5"],
        "warnings": ["false"], "thermal_diffusion": ["2.0 1e-6"], "multi_d": ["true 1e-9 0.3 0.05 1.0", "true 2e-9 0.5 0.0 2.0"],
        "porosities": ["0.2"], "stagnant": ["1 6.8e-6 0.3 0.1"], "flow_direction": ["back", "diffusion_only", "forward"], "dump": ["c07_tr.dmp"], "dump_frequency": ["2"],
    }
    if history and EXCLUDE_STAGNANT_IN_HISTORY:
        del opts["stagnant"]
    for o in draw(st.lists(st.sampled_from(sorted(opts)), min_size=2, max_size=10, unique=True)):
        L.append(" -%s %s" % (o, draw(st.sampled_from(opts[o]))))
    return L


def b_advection(draw):
    L = ["ADVECTION", " -cells %d" % draw(st.integers(2, 4)), " -shifts %d" % draw(st.integers(1, 3)),
         " -time_step %s" % draw(st.sampled_from(["1000", "5"]))]
    opts = {"initial_time": ["500"], "print_cells": ["1"], "punch_cells": ["2"], "punch_frequency": ["2"],
            "print_frequency": ["3"], "warnings": ["false"]}
    for o in draw(st.lists(st.sampled_from(sorted(opts)), min_size=1, max_size=6, unique=True)):
        L.append(" -%s %s" % (o, draw(st.sampled_from(opts[o]))))
    return L


def b_exchange(draw):
    return ["EXCHANGE %s" % draw(st.sampled_from(["1", "1-4", "3"])), " X 0.05", " -equilibrate 1"]


def b_surface(draw):
    L = ["SURFACE %s" % draw(st.sampled_from(["1", "1-4", "2"])), " Hfo_w 1e-3 600 1", " Hfo_s 2e-5", " -equilibrate 1"]
    k = draw(st.integers(0, 3))
    if k == 0:
        L.append(" -diffuse_layer 1e-8")
    if k == 1:
        L.append(" -donnan 1e-8")
    if k == 2:
        L.append(" -no_edl")
    return L


def b_gas(draw):
    if draw(st.booleans()):
        return ["GAS_PHASE %d" % draw(st.sampled_from([1, 3])), " -fixed_volume", " -volume 2", " CO2(g) 0.02", " H2O(g) 0.01"]
    return ["GAS_PHASE %d" % draw(st.sampled_from([1, 3])), " -fixed_pressure", " -pressure 1.5", " CO2(g) 0.05"]


def b_ss(draw):
    return ["SOLID_SOLUTIONS 1", " CaMgCO3", " -comp Calcite 0.01", " -comp Strontianite 0.001"]


def b_phases(draw):
    return ["EQUILIBRIUM_PHASES %s" % draw(st.sampled_from(["1", "1-4", "6"])), " Calcite 0 1", " CO2(g) %s 1" % draw(st.sampled_from(["-2", "-3.5"]))]


def b_save(draw):
    return ["SAVE solution %s" % draw(st.sampled_from(["1", "5", "2-4"]))]


def b_temp(draw):
    return ["REACTION_TEMPERATURE 1", " %s" % draw(st.sampled_from(["80", "10 40 in 2 steps"])),
            "REACTION_PRESSURE 1", " %s" % draw(st.sampled_from(["300", "1 200 in 2 steps"]))]


def b_pitzer(draw):
    L = ["PITZER"]
    for o in draw(st.lists(st.sampled_from(["macinnes", "use_etheta"]), min_size=1, max_size=3, unique=True)):
        L.append(" -%s %s" % (o, onoff(draw)))
    return L


def b_llnl(draw):
    t = T.db_text("llnl.dat")
    i = t.index("LLNL_AQUEOUS_MODEL_PARAMETERS")
    j = t.index("NAMED_EXPRESSIONS", i)
    return [l for l in t[i:j].split("\n") if l.strip() and not l.strip().startswith("#")]


def b_species(draw):
    return ["SOLUTION_MASTER_SPECIES", " Xq Xq+ 0 Xq 50", "SOLUTION_SPECIES", "Xq+ = Xq+", " log_k 0", "Xq+ + Cl- = XqCl", " log_k 1.0",
            "PHASES", "XqCl_s", " XqCl = Xq+ + Cl-", " log_k -1.0", "SOLUTION 19", " pH 7", " Na 1", " Cl 1", " Xq 0.5"]


def b_isotope(draw):
    return ["SOLUTION 18", " pH 7", " Na 1", " Cl 1", " C(4) 2", " -isotope 13C -12 1", " -isotope 18O -5 0.1"]


def b_inverse(draw):
    return ["SOLUTION 21", " pH 7 charge", " Na 1", " Cl 1", "SOLUTION 22", " pH 7 charge", " Na 2", " Cl 2", "INVERSE_MODELING 1", " -solutions 21 22",
            " -uncertainty 0.1", " -phases", "  Halite", " -balances", "  Na 0.1", "  Cl 0.1", " -tolerance %s" % draw(st.sampled_from(["1e-9", "1e-11"])),
            " -range %s" % draw(st.sampled_from(["500", "2000"])),
            "PHASES", "Halite", " NaCl = Na+ + Cl-", " log_k 1.582"]


def b_dump(draw):
    L = ["DUMP"]
    k = draw(st.integers(0, 3))
    L.append([" -all", " -cells 1-3", " -solution 1 2", " -equilibrium_phases 1\n -exchange 1"][k])
    if draw(st.integers(0, 2)) == 0:
        L.append(" -append %s" % onoff(draw))
    if draw(st.integers(0, 2)) == 0:
        L.append(" -file c07_hist.dmp")
    return L


def b_delete(draw):
    return ["DELETE", draw(st.sampled_from([" -solution 1", " -cells 1-2", " -all", " -solution 3\n -equilibrium_phases 1"]))]


def b_runcells(draw):
    L = ["RUN_CELLS", " -cells %s" % draw(st.sampled_from(["1", "1-3", "2 4"]))]
    k = draw(st.integers(0, 2))
    if k == 0:
        L += [" -time_step 100", " -start_time 50"]
    return L


def b_copy(draw):
    return ["COPY solution 1 %s" % draw(st.sampled_from(["15", "16-17"])), "COPY cell 2 14"]


def b_spread(draw):
    return ["SOLUTION_SPREAD", " -units mmol/kgw", "Number\tpH\tNa\tCl\tK", "31\t7.1\t1.0\t1.5\t0.5", "32\t6.9\t2.0\t2.0\t%s" % draw(st.sampled_from(["0.1", "3"]))]


def b_mixkw(draw):
    L = ["SOLUTION_MIX %d" % draw(st.sampled_from([25, 26])), " 1 0.5", " 2 0.5"]
    if draw(st.booleans()):
        L += ["MIX_EQUILIBRIUM_PHASES 27", " 1 1.0"]
    return L


def b_mix(draw):
    return ["MIX %d" % draw(st.sampled_from([1, 2])), " 1 0.5", " 2 0.5"]


# name -> (function, tag).  "needs" is decided by the generated compatibility table (block x database).
BLOCKS = {
    "knobs": (b_knobs, "knobs"), "print": (b_print, "print"), "selout": (b_selout, "selout"), "userprint": (b_userprint, "basic"),
    "kinetics": (b_kinetics, "kinetics"), "calc": (b_calc, "basic"), "incr": (b_incr, "incr"), "title": (b_title, "print"),
    "transport": (b_transport, "transport"), "advection": (b_advection, "advection"), "exchange": (b_exchange, "entities"),
    "surface": (b_surface, "surface"), "gas": (b_gas, "gas"), "ss": (b_ss, "gas"), "phases": (b_phases, "entities"),
    "save": (b_save, "entities"), "temp": (b_temp, "temp"), "pitzer": (b_pitzer, "model"), "llnl": (b_llnl, "model"),
    "species": (b_species, "species"), "isotope": (b_isotope, "isotopes"), "inverse": (b_inverse, "inverse"), "mix": (b_mix, "entities"),
    "dump": (b_dump, "dump"), "delete": (b_delete, "entities"), "runcells": (b_runcells, "entities"), "copy": (b_copy, "entities"),
    "spread": (b_spread, "entities"), "mixkw": (b_mixkw, "entities"),
}
COLUMN = ["transport", "advection", "runcells"]
LOADING = ["kinetics", "surface", "gas", "ss"]
HEAVY = ["knobs", "print", "selout", "transport", "advection", "incr", "userprint", "kinetics"]
# blocks that do not go together in one simulation (keeps the discard rate low; found by measurement)
EXCLUSIVE = [{"transport", "advection"}, {"transport", "gas"}, {"transport", "ss"}, {"transport", "surface"}, {"transport", "kinetics"},
             {"advection", "kinetics"}, {"transport", "incr"}, {"transport", "temp"}, {"transport", "mix"}, {"advection", "mix"},
             {"transport", "inverse"}, {"gas", "temp"}, {"runcells", "transport"}, {"runcells", "advection"}, {"runcells", "kinetics"},
             {"delete", "runcells"}, {"delete", "save"}, {"delete", "copy"}]

# While the pinned tree keeps a DUMP request across LoadDatabase (dump_info is not re-initialised; reported), DUMP blocks are not
# generated into histories.  Set to False once the defect is repaired in /repo.
EXCLUDE_DUMP_IN_HISTORY = False
# KNOBS -logfile true sets PHRQ_io::log_on of the IPhreeqc object, which UnLoadDatabase does not reset (pr.logfile is reset):
# the log channel stays enabled after the load (reported).  Not generated into histories while True.
EXCLUDE_LOGFILE_IN_HISTORY = False
# A COPY request read by a simulation that then fails (copy_entities never runs) stays in the copier members across the load and is
# executed by the first later simulation that contains a COPY (reported).  No COPY inside the failing call while True.
EXCLUDE_COPY_IN_FAILING_CALL = False
# A RUN_CELLS request read by a simulation that fails before run_as_cells stays in run_info across the load and is executed by the
# load's own test run ("Beginning of run as cells." in the output string right after LoadDatabase; reported).
EXCLUDE_RUNCELLS_IN_FAILING_CALL = False
# TRANSPORT -stagnant settings (stag_data) survive the load (reported): a later TRANSPORT block without -stagnant still has the
# stagnant zone.  Not generated into histories while True.
EXCLUDE_STAGNANT_IN_HISTORY = False
# the PITZER keyword in a run on a non-Pitzer database leaves the instance in a state where later runs of the same history can hang
PITZER_DBS = ["pitzer.dat", "frezchem.dat", "ColdChem.dat"]


def blocks_for_db(db):
    ok = COMPAT["blocks"].get(db)
    if ok is None:
        return ["knobs", "print", "title"]
    return sorted(ok)


@st.composite
def gen_input(draw, db, max_sims=2, history=True, nocopy=False, noruncells=False, loaded=False):
    """-> {"text":..., "tags":[...]}: 1..max_sims simulations, each with SOLUTION 0-12 and 1-4 option/entity blocks"""
    avail = blocks_for_db(db)
    if history and EXCLUDE_DUMP_IN_HISTORY:
        avail = [a for a in avail if a != "dump"]
    if db not in PITZER_DBS:
        avail = [a for a in avail if a != "pitzer"]
    if nocopy:
        avail = [a for a in avail if a != "copy"]
    if noruncells:
        avail = [a for a in avail if a != "runcells"]
    sims, tags, used = [], [], []
    for k in range(draw(st.integers(1, max_sims))):
        # Kinetic reactants / surfaces / gas phases / solid solutions that an earlier simulation or run left in the cells make a later
        # column calculation arbitrarily slow (measured: > 15 min): once such entities exist, no TRANSPORT/ADVECTION/RUN_CELLS until a load
        now = [a for a in avail if not (loaded and a in COLUMN)]
        weighted = now + [a for a in now if a in HEAVY] * 2
        names = draw(st.lists(st.sampled_from(weighted), min_size=1, max_size=5, unique=True))
        keep = []
        for n in names:
            if not any({n, m} in EXCLUSIVE for m in keep):
                keep.append(n)
        L = ["SOLUTION 0-12", draw(st.sampled_from(SOLS)).rstrip("\n")]
        for n in keep:
            L += BLOCKS[n][0](draw, history) if n in ("knobs", "transport") else BLOCKS[n][0](draw)
            tags.append(BLOCKS[n][1])
            used.append(n)
            if n in LOADING:
                loaded = True
        L.append("END")
        sims.append("\n".join(L))
    return {"text": "\n".join(sims) + "\n", "tags": sorted(set(tags)), "blocks": sorted(set(used))}


# =============================================================================== history strategy
NAMES = ["c07_a.txt", "c07_b.txt", "sub_c07.out"]
DB_WEIGHTED = (["phreeqc.dat"] * 6 + ["wateq4f.dat", "Amm.dat", "phreeqc_rates.dat", "minteq.v4.dat", "minteq.dat", "Tipping_Hurley.dat",
               "iso.dat", "pitzer.dat", "pitzer.dat", "frezchem.dat", "ColdChem.dat", "sit.dat", "llnl.dat", "core10.dat", "Kinec_v3.dat",
               "ex15.dat", "small.dat", "minimum.dat", "phreeqc.dat.old"])


def load_step(draw, db=None):
    return {"op": "load", "db": db or draw(st.sampled_from(DB_WEIGHTED)), "how": draw(st.sampled_from(["file", "file", "string"]))}


def setter_step(draw):
    k = draw(st.integers(0, 10))
    if k == 10:
        # SetBasicCallback / SetBasicFortranCallback with a host function of the shim (0 = unregister)
        return {"op": "callback", "mode": draw(st.sampled_from([1, 1, 2, 3, 0])), "tags": ["callback"]}
    if k <= 2:
        return {"op": "seti", "fn": "Set" + draw(st.sampled_from(GLOBAL_SW)), "v": draw(st.integers(0, 1))}
    if k == 3:
        return {"op": "sets", "fn": "Set" + draw(st.sampled_from(GLOBAL_NAMES)), "v": draw(st.sampled_from(NAMES))}
    if k == 4:
        return {"op": "cur", "n": draw(st.sampled_from(OBS_NUMS))}
    if k <= 6:
        return {"op": "seti", "fn": draw(st.sampled_from(["SetSelectedOutputFileOn", "SetSelectedOutputStringOn"])), "v": draw(st.integers(0, 1))}
    if k == 7:
        return {"op": "sets", "fn": "SetSelectedOutputFileName", "v": draw(st.sampled_from(["c07_sel_a.txt", "c07_sel_b.txt"]))}
    if k == 8:
        return {"op": "acc", "lines": draw(st.sampled_from([["SOLUTION 9", " Na 5", " Cl 5"], ["SELECTED_OUTPUT 3", " -totals K"], ["KNOBS", " -iterations 90"]]))}
    return {"op": "sets", "fn": draw(st.sampled_from(["AddError", "AddWarning"])), "v": "c07 user message\n"}


def run_step(draw, db, tier, slow_ok=True, loaded=False):
    how = draw(st.sampled_from(["string", "string", "string", "file", "acc"]))
    k = draw(st.integers(0, 9))
    fast = ex_for_db(db, False, loaded)
    slow = ex_for_db(db, True, loaded)
    if k <= 2 and fast:
        return {"op": "run", "src": "ex:" + draw(st.sampled_from(fast)), "how": how, "tags": ["example"]}
    # examples that take > 0.12 s (and can leave kinetic reactants that make later runs of the history slow): thorough tier only
    if k == 3 and slow and slow_ok and tier != "quick" and draw(st.integers(0, 1)) == 0:
        return {"op": "run", "src": "ex:" + draw(st.sampled_from(slow)), "how": how, "tags": ["example"]}
    g = draw(gen_input(db, loaded=loaded))
    return {"op": "run", "text": g["text"], "how": how, "tags": g["tags"], "blocks": g["blocks"]}


def fail_step(draw, db, loaded=False):
    k = draw(st.integers(0, 11))
    if k == 0:
        return {"op": "run", "how": "file", "path": "c07_no_such_input.pqi", "tags": ["fail"], "fail": "missing_file"}
    if k == 1:
        return {"op": "load", "db": draw(st.sampled_from(["c07_no_such.dat", "gtest:missing_e.dat"])), "how": draw(st.sampled_from(["file", "string"])),
                "fail": "bad_load"}
    name = draw(st.sampled_from(COMPAT.get("fails", {}).get(db) or sorted(T.FAIL_SIMS)))
    kind, sim = T.FAIL_SIMS[name]
    how = draw(st.sampled_from(["string", "string", "file", "acc"]))
    if sim is None:
        return {"op": "run", "src": "gtest:conv_fail.in", "how": how, "tags": ["fail"], "fail": kind}
    pre = ""
    tags = ["fail"]
    if draw(st.booleans()):
        g = draw(gen_input(db, 1, nocopy=EXCLUDE_COPY_IN_FAILING_CALL, noruncells=EXCLUDE_RUNCELLS_IN_FAILING_CALL, loaded=loaded))
        pre = g["text"]
        tags += g["tags"]
    # option blocks inside the failing simulation itself: they are read before the error stops the run
    inner = []
    for n in draw(st.lists(st.sampled_from(["knobs", "print", "title", "incr", "calc", "dump", "delete", "runcells", "copy", "selout", "spread", "mixkw"]), max_size=2, unique=True)):
        if loaded and n in COLUMN:
            continue
        if (n == "dump" and EXCLUDE_DUMP_IN_HISTORY) or (n == "copy" and EXCLUDE_COPY_IN_FAILING_CALL) or \
                (n == "runcells" and EXCLUDE_RUNCELLS_IN_FAILING_CALL):
            continue
        if n in blocks_for_db(db) and not (n == "incr" and "REACTION" in sim) and not (n == "knobs" and "KNOBS" in sim):
            inner += b_knobs(draw, True) if n == "knobs" else BLOCKS[n][0](draw)
            tags.append(BLOCKS[n][1])
    body = sim
    if inner:
        body = sim[:sim.rindex("END\n")] + "\n".join(inner) + "\nEND\n"
    return {"op": "run", "text": pre + body, "how": how, "tags": sorted(set(tags)), "fail": kind, "fail_name": name}


def post_steps(draw, db, hist_tags):
    post = []
    # switches that make the channels visible (later calls, given to both instances)
    for sw in ("OutputStringOn", "LogStringOn", "DumpStringOn"):
        if draw(st.integers(0, 5)) > 0:
            post.append({"op": "seti", "fn": "Set" + sw, "v": 1})
    for n in (1, 2):
        if draw(st.integers(0, 3)) > 0:
            post.append({"op": "cur", "n": n})
            post.append({"op": "seti", "fn": "SetSelectedOutputStringOn", "v": 1})
            if draw(st.integers(0, 4)) == 0:
                post.append({"op": "seti", "fn": "SetSelectedOutputFileOn", "v": 1})
    if draw(st.integers(0, 2)) > 0:
        post.append({"op": "cur", "n": 1})
    for _ in range(draw(st.integers(0, 2))):
        post.append(setter_step(draw))
    # one probe per kind of thing the history changed (in a drawn order), then free choices: every history tag meets a probe
    # that looks at its member group
    rel_tags = [t for t in hist_tags if t in T.RELATED]
    tag_order = list(draw(st.permutations(rel_tags))) if rel_tags else []
    n = draw(st.integers(1, 6))
    chosen = []
    loaded = False  # a generated follow-up left kinetic/surface/gas entities or deleted something: no column probes afterwards
    for i in range(n):
        k = draw(st.integers(0, 9))
        if k == 0:
            g = draw(gen_input(db, 1, history=False, loaded=loaded))
            post.append({"op": "run", "text": g["text"], "how": draw(st.sampled_from(["string", "file", "acc"])), "tags": g["tags"]})
            if set(g["blocks"]) & (set(LOADING) | {"delete"}):
                loaded = True
            continue
        if k == 1:
            post.append({"op": "runacc"})
            continue
        if tag_order and (k <= 7 or not chosen):
            p = draw(st.sampled_from(T.RELATED[tag_order.pop(0)]))
        else:
            p = draw(st.sampled_from(T.PROBE_NAMES))
        if p in chosen or (p == "inverse" and db in NO_ALK):
            continue
        if loaded and (p.startswith(("transport_", "advection_")) or p in ("leftover_cells", "mix_copy")):
            # RUN_CELLS / column probes on cells that hold a surface but no solution crash the pinned tree on a brand-new instance too
            continue
        chosen.append(p)
        post.append({"op": "run", "src": "probe:" + p, "how": draw(st.sampled_from(["string", "string", "string", "file", "acc"]))})
        if draw(st.integers(0, 5)) == 0:
            post.append(setter_step(draw))
    if not any(s["op"] in ("run", "runacc") for s in post):
        post.append({"op": "run", "src": "probe:plain", "how": "string"})
    # probes that are meant to fail on a clean instance go last (a failed follow-up ends the battery)
    last = [s for s in post if s.get("src", "").startswith("probe:leftover_")]
    return [s for s in post if not s.get("src", "").startswith("probe:leftover_")] + last[:1]


@st.composite
def case_strategy(draw, tier="quick"):
    hist = []
    if draw(st.integers(0, 19)) > 0:
        hist.append(load_step(draw))
    db = hist[0]["db"] if hist else None
    loaded = False  # the cells hold kinetic reactants / surfaces / ... or whatever a shipped example left
    for _ in range(draw(st.integers(0, 5))):
        k = draw(st.integers(0, 9))
        if db is None or k <= 1:
            if db is None and k > 4:
                hist.append(setter_step(draw))
            else:
                hist.append(load_step(draw))
                db = hist[-1]["db"]
                loaded = False
        elif k <= 6:
            hist.append(run_step(draw, db, tier, loaded=loaded))
            if "src" in hist[-1] or set(hist[-1].get("blocks", [])) & set(LOADING):
                loaded = True
        else:
            hist.append(setter_step(draw))
    # Sink-toggle pattern: string sinks switched on, a run that fills them (output, log, dump, selected output), sinks switched off
    # again, then the load happens while they are off; the follow-ups switch them back on / read the line views.
    toggled = False
    if db is not None and db != "minimum.dat" and draw(st.integers(0, 3)) == 0:
        toggled = True
        sinks = draw(st.lists(st.sampled_from(["DumpStringOn", "DumpStringOn", "OutputStringOn", "LogStringOn", "ErrorStringOn", "sel"]),
                              min_size=1, max_size=4, unique=True))
        for g in sinks:
            if g == "sel":
                hist.append({"op": "cur", "n": draw(st.sampled_from([1, 2]))})
                hist.append({"op": "seti", "fn": "SetSelectedOutputStringOn", "v": 1})
            else:
                hist.append({"op": "seti", "fn": "Set" + g, "v": 1})
        pre = draw(gen_input(db, 1, loaded=loaded))["text"] if draw(st.booleans()) else ""
        fill = ("SOLUTION 1\n pH 7\n Na 1\n Cl 1\nKNOBS\n -logfile true\nSELECTED_OUTPUT %d\n -totals Na\nDUMP\n -solution 1\n%sEND\n"
                % (draw(st.sampled_from([1, 2])), draw(st.sampled_from(["", " -append true\n"]))))
        hist.append({"op": "run", "text": pre + fill, "how": draw(st.sampled_from(["string", "file", "acc"])), "tags": ["sinks", "dump"]})
        for g in draw(st.lists(st.sampled_from(sinks), min_size=1, max_size=len(sinks), unique=True)):
            if g == "sel":
                hist.append({"op": "seti", "fn": "SetSelectedOutputStringOn", "v": 0})
            else:
                hist.append({"op": "seti", "fn": "Set" + g, "v": 0})
    fail = None
    if not toggled and draw(st.integers(0, 2)) > 0:
        fail = fail_step(draw, db, loaded) if db is not None else {"op": "run", "text": "SOLUTION 1\nEND\n", "how": "string", "tags": ["fail"], "fail": "no_database"}
    final = load_step(draw, draw(st.sampled_from(DB_WEIGHTED + ["phreeqc.dat"] * 12 + ["pitzer.dat"] * 3)))
    tags = sorted({t for s in hist + ([fail] if fail else []) for t in s.get("tags", [])})
    post = post_steps(draw, final["db"], tags)
    return {"hist": hist, "fail": fail, "load": final, "post": post}


# =============================================================================== playing a history
BANNER = re.compile(r"-+\nEnd of Run after [^\n]* Seconds\.\n-+\n")


def mask_text(s, iid):
    if s is None:
        return None
    s = BANNER.sub("<END-OF-RUN>\n", s)
    return mask_name(s, iid)


def mask_line(s, iid):
    """one line of a line view: the elapsed-time banner line and all-dash lines (the banner's underline has a run-dependent length)"""
    if re.fullmatch(r"-+", s or "") or (s or "").startswith("End of Run after "):
        return "<banner>"
    return mask_name(s, iid)


def mask_name(s, iid):
    return re.sub(r"\b(phreeqc|dump|selected_\d+)\.%d\.(out|err|log)\b" % iid, r"\1.ID.\2", s)


def step_text(step):
    if "text" in step:
        return step["text"]
    src = step.get("src")
    if src is None:
        return ""
    if src.startswith("probe:"):
        return T.PROBES[src[6:]]
    return T.pool_text(src)


def do_load(I, step):
    db = step["db"]
    if db.startswith("gtest:"):
        path = os.path.join(T.GTEST, db[6:])
    elif db in T.DBS:
        path = T.db_path(db)
    else:
        path = db  # a name that does not exist
    if step["how"] == "string":
        txt = open(path, encoding="latin-1").read() if os.path.exists(path) else "SOLUTION_MASTER_SPECIES\n nonsense line\n"
        return I.load_db_string(txt)
    return I.L.LoadDatabase(I.id, lib.b(path))


def do_step(I, step, wd, k):
    """-> return code of the call (None for setters)"""
    op = step["op"]
    if op == "load":
        return do_load(I, step)
    if op == "seti":
        I.seti(step["fn"], step["v"])
        return None
    if op == "sets":
        I.sets(step["fn"], step["v"])
        return None
    if op == "cur":
        I.set_current(step["n"])
        return None
    if op == "callback":
        cb_lib().c07_set_basic_callback(I.id, step["mode"])
        return None
    if op == "acc":
        for l in step["lines"]:
            I.accumulate(l)
        return None
    if op == "runacc":
        return I.run_accumulated()
    if op == "run":
        if "path" in step:
            return I.run_file(step["path"])
        txt = step_text(step)
        how = step.get("how", "string")
        if how == "file":
            p = os.path.join(wd, "c07_input_%d.pqi" % k)
            with open(p, "w", encoding="latin-1") as f:
                f.write(txt)
            rc = I.run_file(p)
            os.unlink(p)
            return rc
        if how == "acc":
            for l in txt.split("\n"):
                I.accumulate(l)
            return I.run_accumulated()
        return I.run_string(txt)
    raise ValueError(op)


def table_key(tb):
    return [tb.rows, tb.cols, [[repr(c) for c in row] for row in tb.cells]]


def snapshot(I, wd, rc, calls0=0):
    iid = I.id
    o = {"return_code": rc, "callback_calls": cb_lib().c07_callback_calls() - calls0}
    o["output_string"] = mask_text(I.output(), iid)
    o["log_string"] = mask_text(I.log(), iid)
    o["dump_string"] = mask_text(I.dump(), iid)
    o["error_string"] = mask_text(I.errors(), iid)
    o["warning_string"] = mask_text(I.warnings(), iid)
    o["line_counts"] = [I.geti(g) for g in ("GetOutputStringLineCount", "GetLogStringLineCount", "GetDumpStringLineCount",
                                            "GetErrorStringLineCount", "GetWarningStringLineCount")]
    views = {}
    for name, cnt in zip(("Output", "Log", "Dump", "Error", "Warning"), o["line_counts"]):
        g = "Get%sStringLine" % name
        views[name] = [mask_line(I.gets(g, 0), iid), mask_line(I.gets(g, max(cnt - 1, 0)), iid), mask_line(I.gets(g, cnt // 2), iid)]
    o["line_views"] = views
    o["components"] = I.components()
    cur = I.geti("GetCurrentSelectedOutputUserNumber")
    o["selected_output_state"] = {"count": I.geti("GetSelectedOutputCount"), "numbers": I.user_numbers(), "current": cur}
    names = {}
    for n in OBS_NUMS:
        I.set_current(n)
        tb = I.table()
        o["selected_output_table.%d" % n] = table_key(tb)
        o["selected_output_string.%d" % n] = [I.gets("GetSelectedOutputString"), I.geti("GetSelectedOutputStringLineCount")]
        o["selected_output_switches.%d" % n] = [I.geti("GetSelectedOutputFileOn"), I.geti("GetSelectedOutputStringOn")]
        names["sel.%d" % n] = I.gets("GetSelectedOutputFileName")
    I.set_current(cur)
    o["surviving_switches"] = {g: int(bool(I.geti("Get" + g))) for g in GLOBAL_SW}
    for g in GLOBAL_NAMES:
        names[g] = I.gets("Get" + g)
    o["raw_names"] = names
    o["surviving_names"] = {k: mask_name(v, iid) for k, v in names.items()}
    files = {}
    for root, dirs, fs in os.walk(wd):
        for f in fs:
            p = os.path.join(root, f)
            rel = os.path.relpath(p, wd)
            try:
                files[mask_name(rel, iid)] = mask_text(open(p, "rb").read().decode("latin-1"), iid)
            except OSError:
                files[mask_name(rel, iid)] = "<unreadable>"
            os.unlink(p)
    o["files"] = files
    return o


def clean_dir(wd):
    shutil.rmtree(wd, ignore_errors=True)
    os.makedirs(wd, exist_ok=True)


ORDER = ["return_code", "callback_calls", "error_string", "warning_string", "selected_output_state", "components", "surviving_switches",
         "surviving_names", "dump_string", "log_string", "output_string", "line_counts", "line_views", "files"]


def first_diff(a, b):
    if isinstance(a, str) and isinstance(b, str):
        la, lb = a.split("\n"), b.split("\n")
        for i in range(max(len(la), len(lb))):
            x = la[i] if i < len(la) else "<missing>"
            y = lb[i] if i < len(lb) else "<missing>"
            if x != y:
                return "line %d: history instance %r | new instance %r" % (i, x[:160], y[:160])
    if isinstance(a, dict) and isinstance(b, dict):
        for k in sorted(set(a) | set(b)):
            if a.get(k, "<absent>") != b.get(k, "<absent>"):
                return "%s: %s" % (k, first_diff(a.get(k, "<absent>"), b.get(k, "<absent>")))
    if isinstance(a, list) and isinstance(b, list) and len(a) == len(b):
        for i, (x, y) in enumerate(zip(a, b)):
            if x != y:
                return "[%d]: %s" % (i, first_diff(x, y))
    return "history instance %s | new instance %s" % (repr(a)[:300], repr(b)[:300])


def compare(h, r, where):
    keys = ORDER + sorted(k for k in h if k.startswith("selected_output_") and k != "selected_output_state")
    for k in keys:
        if h[k] != r[k]:
            raise Violation(k.split(".")[0], "%s, channel %s differs: %s" % (where, k, first_diff(h[k], r[k])))


def history_model(case):
    """what the property lets survive, derived from the calls of the history alone: last value of every global
    switch, last user-set name of every global file; plus the set of strings the history offered as names"""
    sw = dict(GLOBAL_SW_DEFAULT)
    names = {}
    offered = set()
    steps = list(case["hist"]) + ([case["fail"]] if case["fail"] else [])
    cur = 1
    selnames = {}
    has_file_opt = False
    for s in steps:
        if s["op"] == "seti" and s["fn"][3:] in sw:
            sw[s["fn"][3:]] = int(bool(s["v"]))
        elif s["op"] == "sets" and s["fn"][3:] in GLOBAL_NAMES:
            names[s["fn"][3:]] = s["v"]
            offered.add(s["v"])
        elif s["op"] == "sets" and s["fn"] == "SetSelectedOutputFileName":
            selnames[cur] = s["v"]
            offered.add(s["v"])
        elif s["op"] == "cur":
            cur = s["n"]
        elif s["op"] == "load":
            cur = 1
        elif s["op"] == "run":
            t = step_text(s)
            for m in re.finditer(r"(?im)^\s*-fi\w*[ \t]+([^\n#;]*)", t):
                has_file_opt = True
                offered.add(m.group(1).strip())
    return sw, names, selnames, offered, has_file_opt


DUMP_RE = re.compile(r"(?im)^\s*DUMP\b")
LOGFILE_RE = re.compile(r"(?im)^\s*-log_?file\b")
COPY_RE = re.compile(r"(?im)^\s*COPY\b")
RUNCELLS_RE = re.compile(r"(?im)^\s*RUN_CELLS\b")
STAG_RE = re.compile(r"(?im)^\s*-stag")


def excluded_history_text(t):
    if EXCLUDE_DUMP_IN_HISTORY and DUMP_RE.search(t):
        return "dump_block_in_history"
    if EXCLUDE_LOGFILE_IN_HISTORY and LOGFILE_RE.search(t):
        return "knobs_logfile_in_history"
    if EXCLUDE_STAGNANT_IN_HISTORY and STAG_RE.search(t):
        return "transport_stagnant_in_history"
    return None


def check_case(case, ctx):
    sd = ctx.scratch_dir()
    wdh, wdr = os.path.join(sd, "H"), os.path.join(sd, "R")
    sw, gnames, selnames, offered, has_file_opt = history_model(case)
    steps = list(case["hist"])
    # ---------------- history instance
    clean_dir(wdh)
    os.chdir(wdh)
    H = lib.Inst()
    R = None
    calls_h = cb_lib().c07_callback_calls()
    try:
        k = 0
        for s in steps:
            k += 1
            why = excluded_history_text(step_text(s)) if s["op"] == "run" else None
            if why:
                raise Discard(why)  # reported defect of the pinned tree; never generated, only reachable through a replay file
            rc = do_step(H, s, wdh, k)
            if rc is not None and rc != 0:
                raise Discard("history_call_failed:%s" % (s.get("src") or s["op"]))
        if case["fail"]:
            s = case["fail"]
            why = excluded_history_text(step_text(s)) if s["op"] == "run" else None
            if why is None and EXCLUDE_COPY_IN_FAILING_CALL and s["op"] == "run" and COPY_RE.search(step_text(s)):
                why = "copy_in_failing_call"
            if why is None and EXCLUDE_RUNCELLS_IN_FAILING_CALL and s["op"] == "run" and RUNCELLS_RE.search(step_text(s)):
                why = "run_cells_in_failing_call"
            if why:
                raise Discard(why)
            rc = do_step(H, s, wdh, k + 1)
            if rc == 0:
                raise Discard("failing_call_succeeded:%s" % s.get("fail_name", s.get("fail")))
        rc = do_load(H, case["load"])
        if rc != 0:
            raise Discard("final_load_failed")
        # files written before the load are not results "observable afterwards" of later calls: start clean
        for root, dirs, fs in os.walk(wdh):
            for f in fs:
                os.unlink(os.path.join(root, f))
        hs = [snapshot(H, wdh, rc, calls_h)]
        # A follow-up that fails ends the battery: what an instance does after a failed run is C08's subject (on the pinned tree a
        # failed run can make the next one crash, also on a brand-new instance).
        post = []
        for j, s in enumerate(case["post"]):
            rc = do_step(H, s, wdh, 100 + j)
            hs.append(snapshot(H, wdh, rc, calls_h))
            post.append(s)
            if rc is not None and rc != 0:
                break
        hid = H.id
        # ---------------- what survives, checked against the calls of the history
        h0 = hs[0]
        if h0["surviving_switches"] != sw:
            raise Violation("surviving_switches", "global switches after the load %r, the history set %r" % (h0["surviving_switches"], sw))
        defaults = {"OutputFileName": "phreeqc.%d.out" % hid, "LogFileName": "phreeqc.%d.log" % hid,
                    "ErrorFileName": "phreeqc.%d.err" % hid, "DumpFileName": "dump.%d.out" % hid}
        for n in OBS_NUMS:
            defaults["sel.%d" % n] = "selected_%d.%d.out" % (n, hid)
        for key, val in h0["raw_names"].items():
            if key in GLOBAL_NAMES:
                want = gnames.get(key, defaults[key])
                if key == "DumpFileName" and has_file_opt and val in offered:
                    continue  # DUMP -file of an earlier input renames the dump file (IPhreeqc copies it into DumpFileName): user-supplied
                if val != want:
                    raise Violation("surviving_names", "%s after the load is %r, expected %r (user-set or default)" % (key, val, want))
            else:
                n = int(key[4:])
                if not has_file_opt:
                    want = selnames.get(n, defaults[key])
                    if val != want:
                        raise Violation("surviving_names", "selected-output file name of %d after the load is %r, expected %r" % (n, val, want))
                elif val != defaults[key] and val not in offered:
                    raise Violation("surviving_names", "selected-output file name of %d after the load is %r: neither default nor supplied by the history" % (n, val))
        # ---------------- the brand-new instance
        clean_dir(wdr)
        os.chdir(wdr)
        R = lib.Inst()
        calls_r = cb_lib().c07_callback_calls()
        for g in GLOBAL_SW:
            if sw[g] != GLOBAL_SW_DEFAULT[g]:
                R.seti("Set" + g, sw[g])
        for key, val in h0["raw_names"].items():
            if val == defaults[key]:
                continue
            if key in GLOBAL_NAMES:
                R.sets("Set" + key, val)
            else:
                R.set_current(int(key[4:]))
                R.sets("SetSelectedOutputFileName", val)
        rc = do_load(R, case["load"])
        if rc != 0:
            raise Violation("return_code", "the load returned 0 after the history but %d on a new instance" % rc)
        for root, dirs, fs in os.walk(wdr):
            for f in fs:
                os.unlink(os.path.join(root, f))
        rs = [snapshot(R, wdr, rc, calls_r)]
        compare(hs[0], rs[0], "right after the load")
        for j, s in enumerate(post):
            rc = do_step(R, s, wdr, 100 + j)
            rs.append(snapshot(R, wdr, rc, calls_r))
            compare(hs[j + 1], rs[j + 1], "after follow-up call %d (%s)" % (j, s.get("src") or s.get("fn") or s["op"]))
    finally:
        os.chdir(sd)
        H.close()
        if R is not None:
            R.close()
    # ---------------- classification
    fam_final = T.DBS.get(case["load"]["db"], "?")
    fams = [T.DBS.get(s["db"], "?") for s in case["hist"] if s["op"] == "load"]
    tags = sorted({t for s in steps + ([case["fail"]] if case["fail"] else []) for t in s.get("tags", [])})
    option_run = any(t != "fail" for t in tags)
    other_family = any(f != fam_final for f in fams)
    computed = 0
    for j, s in enumerate(post):
        o = hs[j + 1]
        if s["op"] in ("run", "runacc") and o["return_code"] == 0:
            rows = sum(o["selected_output_table.%d" % n][0] for n in OBS_NUMS)
            if rows > 1 or len(o["output_string"]) > 200:
                computed += 1
    nt = (option_run or other_family or case["fail"] is not None) and computed > 0
    classes = ["final_family=" + fam_final, "hist_runs=%d" % sum(1 for s in case["hist"] if s["op"] == "run"),
               "hist_loads=%d" % len(fams), "load_how=" + case["load"]["how"],
               "fail=" + (case["fail"]["fail"] if case["fail"] else "none"),
               "followups_computing=%d" % min(computed, 4)]
    if other_family:
        classes.append("other_family_before")
    if case["load"]["db"] in NO_ALK:
        ctx.event("excluded_by_construction:inverse_probe_on_database_without_alkalinity")
    for t in tags:
        classes.append("hist_tag:" + t)
    if len(post) < len(case["post"]):
        classes.append("battery_cut_after_failed_followup")
    for s in post:
        if s["op"] == "run" and s.get("src", "").startswith("probe:"):
            classes.append(s["src"])
        elif s["op"] == "run":
            classes.append("followup:generated")
        elif s["op"] == "runacc":
            classes.append("followup:run_accumulated")
    if any(s["op"] == "run" and s.get("src", "").startswith("ex:") for s in case["hist"]):
        classes.append("hist_example")
    return {"nontrivial": nt, "classes": classes}


def run(ctx):
    tier = ctx.tier if ctx.tier in BUDGET else "quick"
    ctx.hyp(case_strategy(tier), lambda c: check_case(c, ctx), BUDGET[tier], "hist")


# =============================================================================== development helpers
def make_compat():
    """(development, unchanged tree) which examples and which generated blocks run without error on which database;
    written to vp/c07_compat.json and used by the generator to construct runnable histories"""
    import time
    from hypothesis import given, settings, seed
    wd = os.path.join(lib.BUILD, "scratch", "c07dev", "compat")
    os.makedirs(wd, exist_ok=True)
    os.chdir(wd)
    out = {"examples": {}, "blocks": {}, "slow": []}
    dbs = sorted(T.DBS)
    for e in T.EXAMPLES:
        ok = []
        slow = False
        for db in dbs:
            I = lib.Inst()
            if I.load_db(T.db_path(db)) != 0:
                I.close()
                continue
            t0 = time.time()
            rc = I.run_string(T.example_text(e))
            dt = time.time() - t0
            I.close()
            if rc == 0:
                ok.append(db)
                if dt > 0.12:
                    slow = True
        out["examples"][e] = ok
        if slow:
            out["slow"].append(e)
        print(e, slow, ok)
    # blocks: draw 12 renderings of each block alone with each SOLS entry
    import random
    for db in dbs:
        good = []
        for name in sorted(BLOCKS):
            if name == "inverse" and db in NO_ALK:
                continue  # INVERSE_MODELING without an Alkalinity master species crashes the pinned tree (reported; C08's subject)
            samples = []

            @settings(max_examples=12, database=None, deadline=None)
            @seed(7)
            @given(st.data())
            def t(data):
                L = BLOCKS[name][0](data.draw)
                samples.append("\n".join(L))
            t()
            fails = 0
            for i, body in enumerate(samples):
                I = lib.Inst()
                I.load_db(T.db_path(db))
                rc = I.run_string("SOLUTION 0-12\n" + SOLS[i % len(SOLS)] + body + "\nEND\n")
                if rc != 0:
                    fails += 1
                I.close()
            if fails == 0:
                good.append(name)
        out["blocks"][db] = good
        print(db, good)
    out["fails"] = {}
    for db in dbs:
        good = []
        for name in sorted(T.FAIL_SIMS):
            kind, sim = T.FAIL_SIMS[name]
            txt = sim if sim is not None else T.pool_text("gtest:conv_fail.in")
            I = lib.Inst()
            I.load_db(T.db_path(db))
            if I.run_string(txt) != 0:
                good.append(name)
            I.close()
        out["fails"][db] = good
        print(db, "fails", good)
    for f in os.listdir(wd):
        try:
            os.unlink(os.path.join(wd, f))
        except OSError:
            pass
    with open(_COMPAT_PATH, "w") as f:
        json.dump(out, f, indent=1, sort_keys=True)


def debug_discards(n=200, sd=5, tier="quick"):
    from hypothesis import given, settings, seed, HealthCheck
    import collections, time
    from ..core import Ctx
    ctx = Ctx("C07", "dev", 0, 1, sd)
    ctx._journal = False
    cnt = collections.Counter()
    cls = collections.Counter()
    t0 = time.time()
    viol = []

    @settings(max_examples=n, database=None, deadline=None, suppress_health_check=list(HealthCheck))
    @seed(sd)
    @given(case_strategy(tier))
    def t(case):
        try:
            r = check_case(case, ctx)
            cnt["ok"] += 1
            cnt["nt"] += bool(r["nontrivial"])
            for c in r["classes"]:
                cls[c] += 1
        except Discard as d:
            cnt["discard:" + d.why] += 1
        except Violation as v:
            cnt["violation:" + v.oracle] += 1
            viol.append((case, v))
    t()
    print("wall %.1fs" % (time.time() - t0))
    for k, v in cnt.most_common(40):
        print(v, k)
    print(sorted(cls.items(), key=lambda x: -x[1])[:60])
    seen = set()
    for case, v in viol:
        if v.oracle in seen:
            continue
        seen.add(v.oracle)
        print("=" * 100)
        print(v.oracle, v.msg[:1500])
        print(json.dumps(case)[:3000])
    shutil.rmtree(ctx.scratch, ignore_errors=True)
    return viol


if __name__ == "__main__":
    import sys
    if sys.argv[1] == "compat":
        make_compat()
    else:
        debug_discards(int(sys.argv[2]) if len(sys.argv) > 2 else 200, int(sys.argv[1]))
