"""C09 - file, string and line views of each output stream are identical."""
import os, shutil
from hypothesis import strategies as st
from .. import lib, chemgen as cg
from ..core import Violation, Discard

ID = "C09"
LEVEL = "exploration"
TECHNIQUE = ("property-based testing (Hypothesis) of generated call sequences with generated switch vectors, plus small-scope exhaustive "
             "enumeration of the 2^6 core switch vectors; oracle = files on disk vs string getters vs line accessors, directory snapshots, "
             "and a two-instance differential (same inputs, other switch vector)")
LEVEL_TEXT = ("Exploration: every generated case drives two fresh instances through the same 1-3 calls (RunString/RunFile/RunAccumulated, optional good or "
              "failing LoadDatabase in between) under two different switch vectors; after every call each stream's file bytes, string bytes and line accessors "
              "are compared with each other, a directory snapshot shows that disabled sinks created or touched nothing, error-string lines are located in the "
              "error file, and the selected-output tables of the two instances are compared to rel 1e-6. The 2^6 vectors over output/log/dump x file/string "
              "are enumerated exhaustively on a fixed input pool.")
RULE = ("case = (user numbers, current number, custom/default file names, no-database flag, 1-3 run steps each with its own switch vector "
        "{output,log,dump,error} x {file,string} + ErrorOn + per-number selected-output file switch + common selected-output string switch, an alternative "
        "vector for the second instance, a call method and a generated 1-3 simulation input: speciation/reaction/equilibrium phases (solution numbers 0-3), unknown-element warnings, "
        "TITLE, KNOBS -logfile, PRINT -echo_input/-selected_output/-headings/-warnings/-user_print/-dump, USER_PRINT, SELECTED_OUTPUT/USER_PUNCH blocks (incl. string cells of length 2^k-3..2^k+2, k=8..14), DELETE/COPY/SAVE, DUMP with explicit "
        "-append true|false, optional -file for DUMP and SELECTED_OUTPUT, one optional planned error of 6 kinds (parse, tidy, MIX, non-convergence, BASIC at punch "
        "time, no database); optional LoadDatabase(ok|missing file|bad string) steps between runs).  Non-trivial = in some call a stream has both sinks on and "
        "non-empty content, or the switch vector changes between two consecutive run steps; distinct by SHA-256 of the case.  Exhaustive leg: all 64 vectors "
        "over {output,log,dump} x {file,string} x 4 fixed inputs (exhaustive_switch_vectors counts the vectors); the thorough tier also enumerates the three error "
        "switches (2^9 vectors).")
ASSUMPTIONS = ["std::getline semantics of a 'line': pieces between newlines, a trailing piece without newline counts when non-empty",
               "default file names phreeqc.<id>.out/.log/.err, dump.<id>.out, selected_<n>.<id>.out relative to the working directory; -file in DUMP/SELECTED_OUTPUT "
               "renames the destination from the block on and persists (IPhreeqc.hpp, observed)",
               "DUMP -append true appends to file and to the dump string, -append false replaces both; the append setting persists, so every generated DUMP spells it out",
               "an unchanged (inode, size, mtime_ns, bytes) tuple means the file was not written during the call",
               "excluded by construction and counted: mixed per-number selected-output string switches (known finding, DESIGN 9.1); not generated: redefinition of a "
               "SELECTED_OUTPUT number after the first simulation of a call (the file is truncated at the redefinition, see C05) and a second DUMP -file destination inside one call",
               "planned errors are the only errors: a call whose return value disagrees with the plan is discarded",
               "'enabled' is what the harness last SET (model of the setter calls; setters are called only for switches whose wanted value changes, an unchanged "
               "vector means no setter call); a database load resets the per-number selected-output switches (IPhreeqc.hpp) and no global switch; every switch getter "
               "must report the model after every call"]
FLOORS = {"quick": 300, "thorough": 3000}
SHARDS = {"quick": 8, "thorough": 16}
BUDGET = {"quick": 700, "thorough": 5000, "replay": 1}

NUMS = [1, 2, 3, 10, 77]
STREAMS = ["output", "log", "error", "dump", "so"]
CAP = {"output": "Output", "log": "Log", "error": "Error", "dump": "Dump", "so": "SelectedOutput", "warning": "Warning"}
SWKEYS = ["of", "os", "lf", "ls", "df", "ds", "ef", "es", "eo"]
ELEMENTS = {"Na": 0.5, "Cl": 0.5, "Ca": 0.01, "C(4)": 0.01, "K": 0.1, "Mg": 0.01, "S(6)": 0.01}
ERR_KINDS = ["units", "phase", "mix", "noconv", "basic"]
BAD_DB = "SOLUTION_MASTER_SPECIES\nH H+ -1.0 H 1.008\nSOLUTION_SPECIES\nH+ = H+\nFoo+ = Bar+\n log_k 1\nEND\n"
REL_TOL, ABS_FLOOR = 1e-6, 1e-14


def prepare(tier):
    lib.build("rel", ["libiphreeqc_rel.so"])


# ------------------------------------------------------------------------------- generator
def render_so_block(b, fileopt):
    L = ["SELECTED_OUTPUT %d" % b["n"]]
    if fileopt:
        L.append(" -file %s" % fileopt)
    L.append(" -reset %s" % str(b["reset"]).lower())
    L.append(" -high_precision %s" % str(b["hp"]).lower())
    L.append(" -ph true")
    for k, v in b["lists"].items():
        L.append(" -%s %s" % (k, " ".join(v)))
    if b["punch"]:
        items = list(b["punch"])
        L.append("USER_PUNCH %d" % b["n"])
        L.append(" -start")
        if b.get("longstr"):
            # a string cell of a chosen length (buffer-size boundaries of the formatting helpers): doubling, then MID$
            L += [' 1 a$ = "x"', " 2 FOR i = 1 TO 15", " 3 a$ = a$ + a$", " 4 NEXT i"]
            items.insert(b["longstr"][1] % (len(items) + 1), "MID$(a$, 1, %d)" % b["longstr"][0])
        L.insert(len(L) - 1 - (4 if b.get("longstr") else 0), " -headings " + " ".join("u%d_%d" % (b["n"], i) for i in range(len(items))))
        L.append(" 10 PUNCH " + ", ".join(items))
        L.append(" -end")
    return "\n".join(L)


SO_LISTS = {"totals": ["Na", "Cl", "Ca", "C(4)", "K"], "molalities": ["Na+", "Cl-", "OH-", "HCO3-", "Ca+2"],
            "saturation_indices": ["Calcite", "Halite", "CO2(g)"], "activities": ["H+", "Na+"]}
# (SC, RHO, VISCOS, SOLN_VOL, OSMOTIC: quantities that the output-printing code computes as well)
PUNCH_ITEMS = ['TOT("Na")', 'TOT("Cl")', "MU", "TC", 'MOL("Cl-")', '-LA("H+")', "STEP_NO", "SIM_NO", '"zq"', 'SI("Halite")', "1/3",
               "SC", "RHO", "VISCOS", "SOLN_VOL", "OSMOTIC"]


@st.composite
def so_block(draw, n):
    b = {"n": n, "reset": draw(st.booleans()), "hp": draw(st.booleans()), "lists": {}, "punch": []}
    for k in draw(st.lists(st.sampled_from(sorted(SO_LISTS)), max_size=2, unique=True)):
        b["lists"][k] = draw(st.lists(st.sampled_from(SO_LISTS[k]), min_size=1, max_size=3, unique=True))
    if draw(st.booleans()):
        b["punch"] = draw(st.lists(st.sampled_from(PUNCH_ITEMS), min_size=1, max_size=4))
        if draw(st.integers(0, 2)) == 0:
            # string cell whose length sits at 2^k-3 .. 2^k+2, k = 8..14 (stack/heap buffer sizes of the print helpers are 2048, 4096, 8192, ...)
            b["longstr"] = [2 ** draw(st.integers(8, 14)) + draw(st.integers(-3, 2)), draw(st.integers(0, 4))]
    return b


def error_block(kind, n_basic):
    if kind == "units":
        return "SOLUTION 900\n units bogus/kgw"
    if kind == "phase":
        return "EQUILIBRIUM_PHASES 900\n Bogusite 0 1"
    if kind == "mix":
        return "MIX 900\n 999 1"
    if kind == "noconv":
        return "SOLUTION 901\n pH 7\n Na 1 charge\n Ca 10"
    if kind == "basic":
        return ("PRINT\n -selected_output true\nSELECTED_OUTPUT %d\n -reset false\n -ph true\nUSER_PUNCH %d\n -headings bad\n -start\n 10 PUNCH FOO(\n -end"
                % (n_basic, n_basic))
    raise ValueError(kind)


@st.composite
def switches(draw, nums, base=None):
    """one switch vector; with `base` sometimes only a small change of it"""
    mode = draw(st.integers(0, 9))
    if base is not None and mode <= 1:
        return dict(base, sf=dict(base["sf"]))          # unchanged between calls
    if base is not None and mode <= 4:
        sw = dict(base, sf=dict(base["sf"]))
        for k in draw(st.lists(st.sampled_from(SWKEYS[:8] + ["ss"] + ["sf"]), min_size=1, max_size=3, unique=True)):
            if k == "sf":
                for n in sw["sf"]:
                    sw["sf"][n] = not sw["sf"][n]
            else:
                sw[k] = not sw[k]
        return sw
    if mode == 5:
        sw = {k: True for k in SWKEYS}
        sw["ss"] = True
        sw["sf"] = {str(n): True for n in nums}
        return sw
    sw = {k: draw(st.booleans()) for k in SWKEYS[:6]}
    sw["ef"] = draw(st.integers(0, 2)) > 0
    sw["es"] = draw(st.integers(0, 3)) > 0
    sw["eo"] = draw(st.integers(0, 5)) > 0
    sw["ss"] = draw(st.booleans())
    sw["sf"] = {str(n): draw(st.booleans()) for n in nums}
    return sw


@st.composite
def run_step(draw, j, nums, seen, db, prev_sw, excl, state):
    nsim = draw(st.integers(1, 3))
    err_sim, err_kind = None, None
    if not db:
        err_sim, err_kind = -1, "nodb"
    elif draw(st.integers(0, 3)) == 0:
        err_sim = draw(st.integers(0, nsim - 1))
        err_kind = draw(st.sampled_from(ERR_KINDS))
    so_fileopt = draw(st.integers(0, 7)) == 0
    dump_fileopt = "fo_dump%d.dmp" % j if draw(st.integers(0, 7)) == 0 else None
    # where are selected-output blocks placed: sim 0 always allowed, later sims only for a first definition
    place = {}
    for n in nums:
        if n in seen:
            if draw(st.integers(0, 2)) == 0:
                place[n] = 0
        elif draw(st.integers(0, 4)) > 0 or j == 0:
            place[n] = draw(st.integers(0, nsim - 1)) if draw(st.booleans()) else 0
    n_basic = None
    if err_kind == "basic":
        # the erroneous USER_PUNCH needs a number whose block may be (re)defined in that simulation
        cands = [n for n in NUMS if (n not in seen and n not in place) or err_sim == 0]
        if cands:
            n_basic = draw(st.sampled_from(cands))
            place.pop(n_basic, None)
        else:
            err_kind = "units"          # every candidate number is already in use: fall back to a parse error
    sims, dumps, so_opts = [], [], {}
    for k in range(nsim):
        P = []
        if k == 0 and db and state.get("bad_punch") is not None:
            # the erroneous USER_PUNCH of an earlier planned BASIC error persists in the instance: replace it
            P.append("USER_PUNCH %d\n -start\n 10 REM repaired\n -end" % state["bad_punch"])
            state["bad_punch"] = None
        if draw(st.integers(0, 3)) == 0:
            P.append("TITLE run %d simulation %d" % (j, k))
        lf = draw(st.sampled_from([None, None, True, False])) if (j, k) != (0, 0) else draw(st.sampled_from([True, True, None, False]))
        if lf is not None:
            P.append("KNOBS\n -logfile %s" % str(lf).lower())
        pr = []
        for opt in ("echo_input", "selected_output", "headings", "user_print", "dump"):
            val = draw(st.booleans()) if draw(st.integers(0, 5 if opt != "dump" else 9)) == 0 else None
            if val is not None:
                pr.append(" -%s %s" % (opt, str(val).lower()))
        if draw(st.integers(0, 9)) == 0:
            pr.append(" -warnings %d" % draw(st.sampled_from([0, 1, 100])))
        if pr:
            P.append("PRINT\n" + "\n".join(pr))
        num = 0 if draw(st.integers(0, 5)) == 0 else k + 1           # (user number 0 gives integer 0 cells in the soln column)
        sol = draw(cg.simple_solution(num, elements=ELEMENTS, max_el=4))
        if draw(st.integers(0, 3)) == 0:
            sol["extra_lines"] = ["Xx 1"]          # unknown element -> warning
        P.append(cg.render_solution(sol))
        if draw(st.integers(0, 2)) == 0:
            P.append("EQUILIBRIUM_PHASES %d\n Calcite 0 %s\n CO2(g) -2.5 1" % (num, draw(st.sampled_from(["0", "0.01", "1"]))))
        steps = draw(st.integers(0, 2))
        if steps:
            P.append("REACTION %d\n NaCl 1\n %s moles in %d steps" % (num, cg.fmt(draw(cg.logu(1e-5, 1e-2, 2))), steps))
        if draw(st.integers(0, 4)) == 0:
            P.append('USER_PRINT\n -start\n 10 PRINT "user print", TOT("Na"), SIM_NO\n -end')
        for n in nums:
            if place.get(n) == k:
                fo = "fo_so%d.sel" % n if so_fileopt else None
                P.append(render_so_block(draw(so_block(n)), fo))
                if fo:
                    so_opts[str(n)] = [k, fo]
        if draw(st.integers(0, 2)) == 0:
            # entity bookkeeping executed around the DUMP of the same simulation: COPY before it, DELETE after it (order of Phreeqc::run_simulations)
            P.append(draw(st.sampled_from(["DELETE\n -all", "DELETE\n -solution %d" % num, "DELETE\n -solution 0 1 2 3\n -equilibrium_phases 0 1 2 3",
                                           "DELETE\n -cells %d" % num, "COPY solution %d 5" % num, "COPY solution %d 6-8" % num, "SAVE solution 7",
                                           "SAVE equilibrium_phases 7"])))
        # (a DUMP -file always sits in the first simulation too, so that a request left pending by an earlier call cannot be written
        #  to the old destination during this call: one dump destination per call)
        if draw(st.integers(0, 1 if j == 0 and k == 0 else 2)) == 0 or (dump_fileopt and k == 0):
            app = draw(st.booleans())
            what = draw(st.sampled_from(["-all", "-solution %d" % num, "-solution 0 1 2 3\n -equilibrium_phases 0 1 2 3"]))
            P.append("DUMP\n%s %s\n -append %s" % ((" -file %s\n" % dump_fileopt) if dump_fileopt else "", what, str(app).lower()))
            dumps.append([k, app])
        if err_sim == k:
            P.append(error_block(err_kind, n_basic))
        P.append("END")
        sims.append("\n".join(P))
    for n in place:
        seen.add(n)
    if n_basic is not None:
        seen.add(n_basic)
        state["bad_punch"] = n_basic
    sw = draw(switches(nums, prev_sw))
    alt = draw(switches(nums, None))
    altmode = draw(st.integers(0, 3))
    if altmode == 0:      # complement
        alt = {k: not sw[k] for k in SWKEYS}
        alt["eo"] = True
        alt["ss"] = not sw["ss"]
        alt["sf"] = {n: not v for n, v in sw["sf"].items()}
    elif altmode == 1:    # everything off
        alt = {k: False for k in SWKEYS}
        alt["eo"] = True
        alt["ss"] = False
        alt["sf"] = {n: False for n in sw["sf"]}
    # mixed per-number string switches are a known finding: the generator would like them in 1 of 6 steps
    if len(nums) >= 2 and draw(st.integers(0, 5)) == 0:
        excl["mixed_string_switch"] += 1
    return {"op": "run", "how": draw(st.sampled_from(["string", "string", "file", "accum"])), "sw": sw, "alt": alt,
            "input": "\n".join(sims) + "\n",
            "meta": {"nsim": nsim, "err_sim": err_sim, "err_kind": err_kind, "dumps": dumps, "dump_fileopt": dump_fileopt,
                     "so_fileopt": so_opts}}


@st.composite
def case_strategy(draw):
    nums = sorted(draw(st.lists(st.sampled_from(NUMS), min_size=0, max_size=3, unique=True)))
    current = draw(st.sampled_from(nums + [7])) if nums else draw(st.sampled_from([1, 7]))
    custom = {k: draw(st.integers(0, 2)) == 0 for k in STREAMS}
    nodb = draw(st.integers(0, 24)) == 0
    nsteps = draw(st.integers(1, 3))
    steps, seen, db, prev = [], set(), not nodb, None
    excl = {"mixed_string_switch": 0}
    state = {}
    for j in range(nsteps):
        if j > 0 and draw(st.integers(0, 4)) == 0:
            ok = draw(st.booleans())
            steps.append({"op": "load", "ok": ok, "kind": draw(st.sampled_from(["file", "string"]))})
            seen, db = set(), ok
        s = draw(run_step(j, nums, seen, db, prev, excl, state))
        prev = s["sw"]
        steps.append(s)
    return {"kind": "seq", "nums": nums, "current": current, "custom": custom, "nodb": nodb, "steps": steps, "meta": {"excluded": excl}}


# ------------------------------------------------------------------------------- fixed pool for the exhaustive leg
POOL = [
    # 0: two simulations, warning, log, dump, selected output
    ("KNOBS\n -logfile true\nTITLE pool 0\nSOLUTION 1\n pH 7 charge\n Na 1\n Cl 1\n Xx 3\nSELECTED_OUTPUT 1\n -totals Na Cl\n -molalities OH-\n"
     "USER_PUNCH 1\n -headings mu\n -start\n 10 PUNCH MU\n -end\nDUMP\n -all\n -append false\nEND\n"
     "SOLUTION 2\n Ca 2\n C(4) 4\nEQUILIBRIUM_PHASES 2\n Calcite 0 1\n CO2(g) -2 1\nSELECTED_OUTPUT 2\n -reset false\n -ph true\n -saturation_indices Calcite\n"
     "DUMP\n -solution 2\n -append true\nEND\n",
     {"nsim": 2, "err_sim": None, "err_kind": None, "dumps": [[0, False], [1, True]], "dump_fileopt": None, "so_fileopt": {}}),
    # 1: reaction steps, user print, echo off
    ("PRINT\n -echo_input false\nKNOBS\n -logfile true\nSOLUTION 1\n Na 10\n Cl 10\nREACTION 1\n NaCl 1\n 0.01 moles in 3 steps\n"
     'USER_PRINT\n -start\n 10 PRINT "up", TOT("Na")\n -end\nSELECTED_OUTPUT 1\n -high_precision true\n -totals Na\n -step true\nDUMP\n -solution 1\n -append true\nEND\n',
     {"nsim": 1, "err_sim": None, "err_kind": None, "dumps": [[0, True]], "dump_fileopt": None, "so_fileopt": {}}),
    # 2: good simulation with dump, then a parse error
    ("KNOBS\n -logfile true\nSOLUTION 1\n K 1\n Cl 1\nSELECTED_OUTPUT 1\n -totals K\nDUMP\n -all\n -append false\nEND\n"
     "SOLUTION 2\n Na 1\nSOLUTION 900\n units bogus/kgw\nEND\nSOLUTION 3\nEND\n",
     {"nsim": 3, "err_sim": 1, "err_kind": "units", "dumps": [[0, False]], "dump_fileopt": None, "so_fileopt": {}}),
    # 3: BASIC error while a selected-output row is being written
    ("KNOBS\n -logfile true\nSOLUTION 1\n Na 1\n Cl 1\nSELECTED_OUTPUT 1\n -totals Na\nDUMP\n -all\n -append true\nEND\n"
     "SOLUTION 2\n Na 2\nSELECTED_OUTPUT 3\n -reset false\n -ph true\nUSER_PUNCH 3\n -headings bad\n -start\n 10 PUNCH FOO(\n -end\nEND\n",
     {"nsim": 2, "err_sim": 1, "err_kind": "basic", "dumps": [[0, True]], "dump_fileopt": None, "so_fileopt": {}}),
]


def enum_case(v, p, e=None):
    """switch vector v (6 bits: of os lf ls df ds) on pool input p; the other switches vary deterministically,
    or (thorough tier) the error switches ef es eo are enumerated too (e = 3 bits)"""
    sw = {k: bool((v >> i) & 1) for i, k in enumerate(SWKEYS[:6])}
    if e is None:
        e = (v * len(POOL) + p) % 8
        sw["ef"], sw["es"], sw["eo"] = bool(e & 1), bool(e & 2), e != 5
    else:
        sw["ef"], sw["es"], sw["eo"] = bool(e & 1), bool(e & 2), bool(e & 4)
    sw["ss"] = bool((v ^ (v >> 3)) & 1)
    sw["sf"] = {"1": bool((v >> 1) & 1), "2": bool((v >> 4) & 1), "3": bool(v & 1)}
    c = 63 - v
    alt = {k: bool((c >> i) & 1) for i, k in enumerate(SWKEYS[:6])}
    alt.update(ef=not sw["ef"], es=not sw["es"], eo=True, ss=not sw["ss"], sf={n: not x for n, x in sw["sf"].items()})
    text, meta = POOL[p]
    return {"kind": "enum", "nums": [1, 2, 3], "current": [1, 2, 3, 7][v % 4], "custom": {k: bool((v + p + i) % 3 == 0) for i, k in enumerate(STREAMS)},
            "nodb": False, "steps": [{"op": "run", "how": ["string", "file", "accum"][(v + p) % 3], "sw": sw, "alt": alt, "input": text, "meta": meta}],
            "meta": {"excluded": {}, "vector": v, "pool": p}}


# ------------------------------------------------------------------------------- oracle
def pieces(s):
    """std::getline pieces of a string"""
    L = s.split("\n")
    if L and L[-1] == "":
        L = L[:-1]
    return L


def snapshot(d):
    out = {}
    for f in os.listdir(d):
        p = os.path.join(d, f)
        s = os.stat(p)
        with open(p, "rb") as fh:
            out[f] = (s.st_ino, s.st_size, s.st_mtime_ns, fh.read().decode("latin-1"))
    return out


class Run:
    """one instance driven through the steps of a case under one of its two switch vectors"""

    def __init__(self, case, which, d, indir, ctx, info):
        self.case, self.key, self.d, self.indir, self.ctx, self.info = case, which, d, indir, ctx, info
        self.tag = "A" if which == "sw" else "B"
        os.makedirs(d)
        os.chdir(d)
        self.I = lib.Inst()
        self.results = []
        try:
            if not case["nodb"]:
                if self.I.load_db("phreeqc.dat") != 0:
                    raise RuntimeError("LoadDatabase(phreeqc.dat) failed")
            i = self.I.id
            self.name = {"output": "phreeqc.%d.out" % i, "log": "phreeqc.%d.log" % i, "error": "phreeqc.%d.err" % i, "dump": "dump.%d.out" % i}
            self.so_name = {n: "selected_%d.%d.out" % (n, i) for n in set(case["nums"]) | set(NUMS) | {case["current"]}}
            for k in ("output", "log", "error", "dump"):
                if case["custom"].get(k):
                    self.name[k] = "c_%s.txt" % k
                    self.I.sets("Set%sFileName" % CAP[k], os.path.join(d, self.name[k]))
            if case["custom"].get("so"):
                for n in case["nums"]:
                    self.so_name[n] = "c_so_%d.txt" % n
                    self.I.set_current(n)
                    self.I.sets("SetSelectedOutputFileName", os.path.join(d, self.so_name[n]))
            # the instance remembers the dump file name it last used or was given (GetDumpFileName); a database load points the
            # engine's DUMP destination back to it
            self.dump_api = self.name["dump"]
            self.prev_sw = None
            self.model = None          # switches as last set by this harness
            for j, step in enumerate(case["steps"]):
                if step["op"] == "load":
                    self.load(step)
                else:
                    self.run(j, step)
        finally:
            self.I.close()

    def fail(self, oracle, msg):
        raise Violation(oracle, "[instance %s] %s" % (self.tag, msg))

    # -- line accessors vs string
    def lines(self, stream, S, where):
        cap = CAP[stream]
        I = self.I
        P = pieces(S)
        cnt = I.geti("Get%sStringLineCount" % cap)
        if cnt != len(P):
            self.fail("lines_" + stream, "%s: %s line count %d but the string has %d lines" % (where, stream, cnt, len(P)))
        for i, want in enumerate(P):
            got = I.gets("Get%sStringLine" % cap, i)
            if got != want:
                self.fail("lines_" + stream, "%s: %s line %d is %r, line %d of the string is %r" % (where, stream, i, got[:120], i, want[:120]))
        for i in (-1, cnt, cnt + 1, cnt + 7, -2147483648, 2147483647):
            got = I.gets("Get%sStringLine" % cap, i)
            if got != "":
                self.fail("lines_" + stream, "%s: %s line accessor %d outside 0..%d returns %r" % (where, stream, i, cnt - 1, got[:120]))

    def no_lines(self, stream, where):
        cap = CAP[stream]
        cnt = self.I.geti("Get%sStringLineCount" % cap)
        if cnt != 0:
            self.fail("disabled_" + stream, "%s: %s string sink is off but %d lines are reported" % (where, stream, cnt))
        for i in (0, 1, -1):
            if self.I.gets("Get%sStringLine" % cap, i) != "":
                self.fail("disabled_" + stream, "%s: %s string sink is off but line %d is not empty" % (where, stream, i))

    def peek(self, stream):
        """content of a string buffer whose switch may be off (switch temporarily on; the setters only store a flag)"""
        cap = CAP[stream]
        on = self.model[{"output": "os", "log": "ls", "dump": "ds"}[stream]]      # what was set, not what a getter says
        if not on:
            self.I.seti("Set%sStringOn" % cap, 1)
        s = self.I.gets("Get%sString" % cap)
        if not on:
            self.I.seti("Set%sStringOn" % cap, 0)
        return s

    GLOBALS = (("of", "OutputFileOn"), ("os", "OutputStringOn"), ("lf", "LogFileOn"), ("ls", "LogStringOn"), ("df", "DumpFileOn"),
               ("ds", "DumpStringOn"), ("ef", "ErrorFileOn"), ("es", "ErrorStringOn"), ("eo", "ErrorOn"))

    def apply(self, sw):
        """Bring the instance to switch vector `sw` by calling setters ONLY for switches whose wanted value differs from what this
        harness set last (self.model): an unchanged vector means no setter call at all.  'Enabled' is what was set, never what a
        getter reports.  A database load resets the per-number selected-output switches (IPhreeqc.hpp) but no global switch."""
        I, case = self.I, self.case
        first = self.model is None
        if first:
            self.model = {"sf": {}, "ss": {}}
        for k, name in self.GLOBALS:
            if first or self.model[k] != bool(sw[k]):
                I.seti("Set" + name, sw[k])
                self.model[k] = bool(sw[k])
        smap = sw.get("ss_map")       # only in a known-finding replay (mixed per-number string switches)
        # every number that an input may define gets the (common) string switch: see the known finding on per-number string switches
        for n in sorted(set(case["nums"]) | {case["current"]} | set(NUMS)):
            wf = bool(sw["sf"].get(str(n), False))
            ws = bool(smap.get(str(n), False) if smap else sw["ss"])
            if first or self.model["sf"].get(n, False) != wf or self.model["ss"].get(n, False) != ws:
                I.set_current(n)
                if first or self.model["sf"].get(n, False) != wf:
                    I.seti("SetSelectedOutputFileOn", wf)
                if first or self.model["ss"].get(n, False) != ws:
                    I.seti("SetSelectedOutputStringOn", ws)
                self.model["sf"][n], self.model["ss"][n] = wf, ws
        I.set_current(case["current"])

    def check_switches(self, where, per_number):
        """the getters report what was set: neither a run nor a (failing) load changes a global switch"""
        I = self.I
        if self.model is None:
            return
        for k, name in self.GLOBALS:
            got = bool(I.geti("Get" + name))
            if got != self.model[k]:
                self.fail("switch_getter", "%s: Get%s returns %d but the switch was last set to %d" % (where, name, got, self.model[k]))
        if per_number:
            for n in sorted(self.model["sf"]):
                I.set_current(n)
                if bool(I.geti("GetSelectedOutputFileOn")) != self.model["sf"][n]:
                    self.fail("switch_getter", "%s: GetSelectedOutputFileOn of user number %d returns %d, was set to %d"
                              % (where, n, I.geti("GetSelectedOutputFileOn"), self.model["sf"][n]))
                if bool(I.geti("GetSelectedOutputStringOn")) != self.model["ss"][n]:
                    self.fail("switch_getter", "%s: GetSelectedOutputStringOn of user number %d returns %d, was set to %d"
                              % (where, n, I.geti("GetSelectedOutputStringOn"), self.model["ss"][n]))
            I.set_current(self.case["current"])

    # -- LoadDatabase step
    def load(self, step):
        I = self.I
        if step["ok"]:
            rc = I.load_db("phreeqc.dat")
        elif step["kind"] == "file":
            rc = I.load_db(os.path.join(self.d, "no_such_database.dat"))
        else:
            rc = I.load_db_string(BAD_DB)
        if (rc == 0) != bool(step["ok"]):
            raise Discard("unplanned_load_rc")
        self.name["dump"] = self.dump_api
        where = "after %s LoadDatabase" % ("a good" if step["ok"] else "a failing")
        if self.model is not None:
            self.model["sf"], self.model["ss"] = {}, {}      # documented reset of the per-number selected-output switches
        self.check_switches(where, False)
        sw = self.prev_sw
        eo = sw["eo"] if sw else True
        es = sw["es"] if sw else True
        if eo and es:
            self.lines("error", I.gets("GetErrorString"), where)
        self.lines("warning", I.gets("GetWarningString"), where)
        for stream, key in (("output", "os"), ("log", "ls")):
            if sw and sw[key]:
                self.lines(stream, I.gets("Get%sString" % CAP[stream]), where)
        if sw and sw["ds"]:
            self.lines("dump", I.gets("GetDumpString"), where)
        self.info["classes"].add("load_ok" if step["ok"] else "load_failed_" + step["kind"])

    # -- run step
    def run(self, j, step):
        I, case, d, info = self.I, self.case, self.d, self.info
        sw, meta = step[self.key], step["meta"]
        where = "run step %d" % j
        self.apply(sw)
        prevD = self.peek("dump")
        prevO = {"output": self.peek("output"), "log": self.peek("log")}
        before = snapshot(d)
        if step["how"] == "string":
            rc = I.run_string(step["input"])
        elif step["how"] == "file":
            p = os.path.join(self.indir, "%s_%d.pqi" % (self.tag, j))
            with open(p, "w", encoding="latin-1") as fh:
                fh.write(step["input"])
            rc = I.run_file(p)
        else:
            for line in step["input"].split("\n")[:-1]:
                I.accumulate(line)
            rc = I.run_accumulated()
        after = snapshot(d)
        self.check_switches(where, True)
        planned = meta["err_sim"] is not None
        if (rc != 0) != planned:
            raise Discard("unplanned_rc_%s" % ("error" if rc != 0 else "success"))
        es_ = meta["err_sim"]
        if planned and es_ >= 1 and self.tag == "A":
            # the plan says simulations 0..es_-1 complete: an unplanned (convergence) failure in one of them would be masked by the
            # planned error.  Every simulation is self-contained, so a plain fresh instance decides it.
            P = lib.fresh()
            try:
                if P.run_string("END\n".join(step["input"].split("END\n")[:es_]) + "END\n") != 0:
                    raise Discard("unplanned_error_before_planned_error")
            finally:
                P.close()
        read = (lambda k: es_ is None or k <= es_)          # simulation k was read
        done = (lambda k: es_ is None or k < es_)           # simulation k ran to its end (DUMP executed)

        def untouched(name):
            return before.get(name) == after.get(name)

        def content(name):
            return after[name][3] if name in after else None

        # names: -file options that were read rename the destinations from now on
        if meta["dump_fileopt"] and any(read(k) for k, _ in meta["dumps"]):
            self.name["dump"] = meta["dump_fileopt"]
        if sw["df"] and done(0):
            self.dump_api = self.name["dump"]
        for n, (k, fo) in meta["so_fileopt"].items():
            if read(k):
                self.so_name[int(n)] = fo
        enabled = set()
        for stream, key in (("output", "of"), ("log", "lf"), ("error", "ef"), ("dump", "df")):
            if sw[key]:
                enabled.add(self.name[stream])
        for n, v in sw["sf"].items():
            if v:
                enabled.add(self.so_name[int(n)])
        # (a) a disabled file sink receives nothing: nothing but enabled destinations appears or changes in the directory
        for name in sorted(set(before) | set(after)):
            if name not in enabled and not untouched(name):
                self.fail("disabled_file", "%s: file %s was %s although no enabled file sink has that destination (enabled: %s)"
                          % (where, name, "created" if name not in before else "modified", sorted(enabled)))
        both_nonempty = []
        # (b) output and log
        for stream, fk, sk in (("output", "of", "os"), ("log", "lf", "ls")):
            cap = CAP[stream]
            S = I.gets("Get%sString" % cap)
            F = content(self.name[stream])
            if sw[fk] and F is None:
                self.fail("file_missing", "%s: %s file sink is on but %s does not exist" % (where, stream, self.name[stream]))
            if sw[sk]:
                self.lines(stream, S, where)
                if sw[fk]:
                    if F != S:
                        self.fail("file_vs_string_" + stream, "%s: %s file (%d bytes) and string (%d bytes) differ%s"
                                  % (where, stream, len(F), len(S), first_diff(F, S)))
                    if S:
                        both_nonempty.append(stream)
            else:
                if S != "Get%sString: %sStringOn not set.\n" % (cap, cap):
                    self.fail("disabled_" + stream, "%s: %s string sink is off but the getter returns %r" % (where, stream, S[:100]))
                self.no_lines(stream, where)
                pk = self.peek(stream)
                if pk != "" and pk != prevO[stream]:
                    self.fail("disabled_" + stream, "%s: %s string sink is off but its buffer received %d bytes: %r" % (where, stream, len(pk), pk[:100]))
        # (c) error stream and warning lines
        E = I.gets("GetErrorString")
        EF = content(self.name["error"])
        if sw["ef"] and EF is None:
            self.fail("file_missing", "%s: error file sink is on but %s does not exist" % (where, self.name["error"]))
        if not sw["eo"]:
            if E != "GetErrorString: ErrorOn not set.\n":
                self.fail("disabled_error", "%s: ErrorOn is off but GetErrorString returns %r" % (where, E[:100]))
            self.no_lines("error", where)
            if sw["ef"] and EF != "":
                self.fail("disabled_error", "%s: ErrorOn is off but the error file received %r" % (where, EF[:100]))
        elif not sw["es"]:
            if E != "GetErrorString: ErrorStringOn not set.\n":
                self.fail("disabled_error", "%s: error string sink is off but GetErrorString returns %r" % (where, E[:100]))
            self.no_lines("error", where)
        else:
            self.lines("error", E, where)
            if sw["ef"]:
                fl = EF.split("\n")
                pos = 0
                for i, l in enumerate(pieces(E)):
                    try:
                        pos = fl.index(l, pos) + 1
                    except ValueError:
                        self.fail("error_file", "%s: line %d of the error string %r does not occur (in order) in the error file %r" % (where, i, l[:120], EF[:400]))
                if E:
                    both_nonempty.append("error")
        self.lines("warning", I.gets("GetWarningString"), where)
        # (d) dump
        ev = [app for k, app in meta["dumps"] if done(k)]
        dname = self.name["dump"]
        D = self.peek("dump")
        if sw["ds"]:
            self.lines("dump", D, where)
        elif D != prevD:
            self.fail("disabled_dump", "%s: dump string sink is off but its buffer changed (%d -> %d bytes)" % (where, len(prevD), len(D)))
        if not sw["ds"] and I.gets("GetDumpString") != "GetDumpString: DumpStringOn not set.\n":
            self.fail("disabled_dump", "%s: dump string sink is off but the getter returns %r" % (where, I.gets("GetDumpString")[:100]))
        if sw["df"] and sw["ds"]:
            # Both sinks received the same sequence of DUMP outputs (possibly none, possibly one left pending by an earlier call whose
            # dump sinks were off or which failed).  -append false replaces, -append true appends, in both sinks alike; hence one of
            # three relations must hold: nothing received / identical content / identical growth.
            F = content(dname)
            prevF = before[dname][3] if dname in before else ""
            nothing = untouched(dname) and D == prevD
            same = F is not None and F == D
            grown = F is not None and F.startswith(prevF) and D.startswith(prevD) and F[len(prevF):] == D[len(prevD):]
            if not (nothing or same or grown):
                if F is None:
                    self.fail("file_vs_string_dump", "%s: the dump string changed (%d -> %d bytes) but the dump file %s does not exist" % (where, len(prevD), len(D), dname))
                self.fail("file_vs_string_dump", "%s: dump file %s (%d -> %d bytes) and dump string (%d -> %d bytes) received different content%s"
                          % (where, dname, len(prevF), len(F), len(prevD), len(D), first_diff(F, D)))
            if D and not nothing:
                both_nonempty.append("dump")
        # (e) selected output
        defined = I.user_numbers()
        tables = {}
        for n in defined:
            if I.set_current(n) != 0:
                self.fail("set_current", "SetCurrentSelectedOutputUserNumber(%d) failed" % n)
            smap = sw.get("ss_map")
            ss = smap.get(str(n), False) if smap else sw["ss"]
            S = I.gets("GetSelectedOutputString")
            fname = self.so_name.get(n, "selected_%d.%d.out" % (n, I.id))
            if ss:
                self.lines("so", S, "%s, user number %d" % (where, n))
                if sw["sf"].get(str(n), False):
                    F = "" if untouched(fname) else content(fname)
                    if F is None:
                        F = ""
                    if F != S:
                        self.fail("file_vs_string_so", "%s: selected-output file %s of user number %d received %d bytes, its string %d bytes%s"
                                  % (where, fname, n, len(F), len(S), first_diff(F, S)))
                    if S:
                        both_nonempty.append("so")
            else:
                if S != "GetSelectedOutputString: SelectedOutputStringOn not set.\n" and S != "":
                    self.fail("disabled_so", "%s: selected-output string sink is off but the getter returns %r for user number %d" % (where, S[:100], n))
                self.no_lines("so", "%s, user number %d" % (where, n))
            tables[n] = I.table()
        I.set_current(case["current"])
        self.results.append({"rc": rc, "tables": tables, "defined": defined})
        # bookkeeping
        if both_nonempty:
            info["both"].update(both_nonempty)
        if self.prev_sw is not None and self.prev_sw != sw:
            info["switch_change"] = True
        self.prev_sw = sw
        if self.tag == "A":
            c = info["classes"]
            c.add("how_" + step["how"])
            if planned:
                c.add("error_" + meta["err_kind"])
            if len(ev) > 0:
                c.add("dump_append" if all(ev) else "dump_replace")
            if meta["dump_fileopt"] or meta["so_fileopt"]:
                c.add("file_option_in_input")
            if meta["nsim"] > 1:
                c.add("multi_simulation")
            if I.gets("GetWarningString"):
                c.add("warnings")
            if len(defined) >= 2:
                c.add("user_numbers>=2")


def first_diff(a, b):
    n = min(len(a), len(b))
    i = next((k for k in range(n) if a[k] != b[k]), n)
    return "; first difference at byte %d: file %r vs string %r" % (i, a[max(0, i - 20):i + 40], b[max(0, i - 20):i + 40])


def compare_results(A, B, info):
    """switching sinks never changes computed results: selected-output tables of the two instances agree"""
    k = 0
    for j, (a, b) in enumerate(zip(A, B)):
        if (a["rc"] == 0) != (b["rc"] == 0):
            raise Violation("results_rc", "run %d: return value %d under the first switch vector, %d under the second" % (j, a["rc"], b["rc"]))
        if a["defined"] != b["defined"]:
            raise Violation("results_table", "run %d: defined user numbers %r vs %r" % (j, a["defined"], b["defined"]))
        for n in a["defined"]:
            Ta, Tb = a["tables"][n], b["tables"][n]
            if (Ta.rows, Ta.cols) != (Tb.rows, Tb.cols):
                raise Violation("results_table", "run %d user number %d: table shape %dx%d under the first switch vector, %dx%d under the second"
                                % (j, n, Ta.rows, Ta.cols, Tb.rows, Tb.cols))
            exact = True
            for r in range(Ta.rows):
                for c in range(Ta.cols):
                    x, y = Ta.cells[r][c], Tb.cells[r][c]
                    if x == y and type(x) == type(y):
                        continue
                    num = lambda v: isinstance(v, (int, float)) and not isinstance(v, bool)
                    if num(x) and num(y):
                        if x != x and y != y:
                            continue
                        exact = False
                        if abs(x - y) <= REL_TOL * max(abs(x), abs(y)) + ABS_FLOOR:
                            continue
                    raise Violation("results_value", "run %d user number %d cell (%d,%d) heading %r: %r under the first switch vector, %r under the second"
                                    % (j, n, r, c, Ta.cells[0][c], x, y))
            if Ta.rows > 1:
                k += 1
                info["events"].append("tables_bitwise_equal" if exact else "tables_equal_within_tolerance")
    return k


def check_case(case, ctx):
    sd = ctx.scratch_dir()
    os.chdir(sd)
    for f in os.listdir(sd):
        p = os.path.join(sd, f)
        if os.path.isdir(p):
            shutil.rmtree(p)
        else:
            os.unlink(p)
    indir = os.path.join(sd, "in")
    os.makedirs(indir)
    info = {"both": set(), "switch_change": False, "classes": set(), "events": []}
    try:
        A = Run(case, "sw", os.path.join(sd, "a"), indir, ctx, info)
        B = Run(case, "alt", os.path.join(sd, "b"), indir, ctx, info)
        ntab = compare_results(A.results, B.results, info)
    finally:
        os.chdir(sd)
        if ctx.tier == "replay":          # the driver removes worker directories, not the one of a --replay process
            os.chdir(lib.BUILD)
            shutil.rmtree(sd, ignore_errors=True)
    for e in info["events"]:
        ctx.event(e)
    for k, v in case["meta"].get("excluded", {}).items():
        if v:
            ctx.event("excluded_" + k, v)
    classes = sorted(info["classes"])
    nruns = sum(1 for s in case["steps"] if s["op"] == "run")
    classes.append("run_steps=%d" % nruns)
    for s in sorted(info["both"]):
        classes.append("both_sinks_nonempty_" + s)
    if info["switch_change"]:
        classes.append("switch_change_between_runs")
    if case["nodb"]:
        classes.append("no_database")
    if any(case["custom"].values()):
        classes.append("custom_file_names")
    if ntab:
        classes.append("tables_compared")
    return {"nontrivial": bool(info["both"]) or info["switch_change"], "classes": classes}


def run(ctx):
    # exhaustive leg: 64 core vectors x fixed pool (thorough: x 8 error-switch vectors = all 2^9), distributed over the shards
    idx = 0
    for v in range(64):
        for p in range(len(POOL)):
            for e in ([None] if ctx.tier != "thorough" else list(range(8))):
                idx += 1
                if idx % ctx.nshards != ctx.shard:
                    continue
                case = enum_case(v, p, e)
                ctx.begin(case)
                try:
                    r = check_case(case, ctx)
                    ctx.record(case, r["nontrivial"], r["classes"] + ["exhaustive_leg"])
                    if p == 0 and not e:
                        ctx.extra["exhaustive_switch_vectors"] = ctx.extra.get("exhaustive_switch_vectors", 0) + 1
                    if p == 0 and e is not None:
                        ctx.extra["exhaustive_switch_vectors_with_error_switches"] = ctx.extra.get("exhaustive_switch_vectors_with_error_switches", 0) + 1
                    ctx.extra["exhaustive_cases"] = ctx.extra.get("exhaustive_cases", 0) + 1
                except Violation as ex:
                    if sum(1 for f in ctx.failures if f["test"] == "enum") < 3:      # (each recorded failure is replayed 3x by the driver)
                        ctx.failures.append({"case": case, "oracle": ex.oracle, "message": ex.msg[:4000], "test": "enum"})
                except Discard as ex:
                    ctx.discard(ex.why)
    ctx.hyp(case_strategy(), lambda c: check_case(c, ctx), BUDGET[ctx.tier], "seq")


def debug_discards(n=300, seed_=5):
    """development helper: histogram of discard reasons with the first error line"""
    from hypothesis import given, settings, seed
    import collections
    from ..core import Ctx
    cnt = collections.Counter()
    ctx = Ctx("C09", "debug", 90, 1, 0)

    @settings(max_examples=n, database=None, deadline=None)
    @seed(seed_)
    @given(case_strategy())
    def t(case):
        try:
            check_case(case, ctx)
            cnt["ok"] += 1
        except Discard as e:
            cnt[e.why] += 1
            print("DISCARD", e.why, [s["meta"] for s in case["steps"] if s["op"] == "run"])
    t()
    print(cnt)
