"""C14 - numbered reactants behave as a keyed store under COPY/DELETE/SAVE/USE/MODIFY (model-based, stateful)."""
import re, os
from .. import lib, rawparse as rp, inv_util as U, formula as F
from .. import c14gen as G
from ..core import Violation, Discard

ID = "C14"
LEVEL = "exploration"
RULE = ("Hypothesis composite histories of 6-14 simulations on one instance (whole history shrinks as one value): definitions of all "
        "11 reactant kinds (numbers, ranges n-m, absent number, redefinition), explicit and implicit batch reactions with USE/SAVE "
        "(single numbers and ranges), COPY kind / COPY cell (ranges, missing source, hidden negative numbers), DELETE (lists, ranges, "
        "-cells, -all), one-field *_MODIFY of 10 kinds, X_MIX keywords, RUN_CELLS, USE of a missing number, SAVE without reaction, "
        "COPY+DELETE / MODIFY+COPY / reaction+COPY(+DELETE) in one simulation; after every simulation DUMP -all is compared with a "
        "reference map (kind, number) -> content id built from the documented semantics; a history stops at the first simulation "
        "whose calculation fails. Excluded by construction (counted): two definitions of one kind sharing a number in one "
        "simulation (known finding, replays/C14/known), failing simulations that carry COPY/DELETE/RUN_CELLS (outside the "
        "precondition). Non-trivial = at least 5 simulations checked, at "
        "least one COPY that created an entry, one DELETE that removed an entry, and entries of >= 2 kinds; distinct by SHA-256 "
        "of the case")
ASSUMPTIONS = [
    "the DUMP -all text shows every entry with a non-negative number and nothing else (RELEASE.TXT: negative numbers are not dumped)",
    "documentation used for the model: doc/Phreeqc_2_1999_manual.pdf (SAVE, USE, MIX) and phreeqc3-doc/RELEASE.TXT (COPY, DELETE, "
    "RUN_CELLS, *_MODIFY, *_MIX, DUMP, order of final events); the version-3 manual PDF in the repository is empty",
    "GetComponentCount refreshes the workspace line -totals of every KINETICS entry (marked 'workspace variable' in the dump); the "
    "check always reads the component list before DUMP so that this line is in one state",
    "components are compared for elements with an aqueous primary master species other than H and O (the list is built that way by "
    "design; exchange/surface sites, H, O and charge are never listed)",
    "constructs whose result no document fixes are not generated (see vp/c14gen.py docstring)",
    "the RUN_CELLS twins are restored from the DUMP text; that the restored twin holds the same components is checked first "
    "(clause twin_restore_components, added for the fixed EXCHANGE_RAW read-back defect, /repo ec3a664c)",
]
TECHNIQUE = "model-based stateful property testing (Hypothesis): engine store after every simulation vs. reference map; RUN_CELLS vs USE/SAVE on twin instances"
LEVEL_TEXT = ("Exploration: thousands of generated operation histories; after each of their simulations the complete store (key set, "
              "exact text of every entry) is compared with a reference map derived from the documentation, copies and SAVE ranges "
              "must be textually identical, *_MODIFY may differ only in the named quantity, *_MIX and MIX must reproduce the "
              "inventory of the current entries, RUN_CELLS must equal USE+SAVE on twin instances restored from the RAW text, and "
              "the component list must cover every element of every entry.")
FLOORS = {"quick": 200, "thorough": 10000}
SHARDS = {"quick": 8, "thorough": 16}
BUDGET = {"quick": 600, "thorough": 4000, "replay": 1}

DB = "phreeqc.dat"
OBSERVE = "DUMP\n -all\nEND\n"
_HDR = re.compile(r"^([A-Z_]+)_RAW\s+(-?\d+)(?:-(-?\d+))?(.*)$")


def prepare(tier):
    lib.build("rel", ["libiphreeqc_rel.so"])


# --------------------------------------------------------------------------------------------- observation
def split_dump(text):
    """-> {(KIND, n): (description, [body lines])} with the exact text of every entry"""
    out = {}
    cur = None
    for ln in text.split("\n"):
        if ln and not ln[0].isspace():
            m = _HDR.match(ln)
            if m:
                key = (m.group(1), int(m.group(2)))
                if key in out:
                    raise Violation("dump_twice", "entry %s %d is dumped twice" % key)
                if m.group(3) is not None and int(m.group(3)) != key[1]:
                    raise Violation("dump_header", "entry %s %d is dumped with a number range: %r" % (key[0], key[1], ln))
                cur = [m.group(4).strip(), []]
                out[key] = cur
                continue
            cur = None
            continue
        if cur is not None:
            cur[1].append(ln)
    return out


_aq = {}


def aqueous_elements():
    """elements with a primary aqueous master species in the database text (SOLUTION_MASTER_SPECIES, names without valence)"""
    if DB not in _aq:
        text = open(os.path.join(lib.DBDIR, DB), "rb").read().decode("latin-1")
        els, inside = set(), False
        for raw in text.split("\n"):
            line = raw.split("#", 1)[0].strip()
            if not line:
                continue
            first = line.split()[0]
            if first.upper() in U.KEYWORDS:
                inside = first.upper() == "SOLUTION_MASTER_SPECIES"
                continue
            if inside and "(" not in first:
                els.add(first)
        _aq[DB] = els - {"H", "O", "E", "Alkalinity"}
    return _aq[DB]


def elements_present(parsed):
    """{element: (kind, n)} for every listed-type element with a non-zero amount in any entry (from the RAW text + database formulas)"""
    phases = U.phase_formulas(DB)
    aq = aqueous_elements()
    out = {}
    for key, ent in parsed.items():
        if key[0] == "USE":
            continue
        if key[0] == "REACTION":
            els = rp.reaction_stoich(ent, phases)
        else:
            els = rp.entity_inventory(ent, phases)[0]
        for e, v in els.items():
            if e in aq and abs(v) > 1e-20:
                out.setdefault(e, key)
    return out


class Obs(object):
    def __init__(self, I):
        comps = I.components()
        if I.run_string(OBSERVE) != 0:
            raise Violation("observe", "DUMP -all failed: %s" % I.errors()[:300])
        self.text = I.dump()
        self.comps = comps
        self.raw = split_dump(self.text)
        self.parsed = rp.parse(self.text)
        pk = {k for k in self.parsed if k[0] != "USE"}
        if pk != set(self.raw):
            raise Violation("observe", "the two readings of the dump disagree on the key set: %r" % sorted(pk ^ set(self.raw)))
        # contents of hidden (negative-numbered) entries as far as the model can name them: filled by check_case
        self.raw_all = dict(self.raw)
        self.parsed_all = dict(self.parsed)

    def carry_hidden(self, plan, prev):
        """a hidden entry is never dumped; its content is known when the model says it is a copy of something observed"""
        for key, cid in plan.get("hidden", {}).items():
            cid = tuple(cid)
            src = None
            if cid[0] == "P":
                src = (cid[1], cid[2])
            if src is not None and src in prev.raw_all:
                self.raw_all[key] = prev.raw_all[src]
                self.parsed_all[key] = prev.parsed_all[src]


def fresh_instance():
    I = lib.fresh(DB)
    I.seti("SetDumpStringOn", 1)
    if I.run_string(G.PRELUDE) != 0:
        err = I.errors()
        I.close()
        raise RuntimeError("prelude failed: " + err[:300])
    return I


# --------------------------------------------------------------------------------------------- oracle pieces
def resolve_prev(cid):
    """the previous key a content id ultimately refers to, or None"""
    if cid[0] == "P":
        return (cid[1], cid[2])
    return None


def check_store(i, plan, prev, cur):
    exp = plan["expect"]
    got, want = set(cur.raw), set(exp)
    if got != want:
        extra, miss = sorted(got - want), sorted(want - got)
        raise Violation("key_set", "simulation %d: entries %r exist but the model has none; model entries %r are missing" % (i, extra, miss))
    groups = {}
    for key in sorted(exp):
        cid = tuple(exp[key])
        desc, body = cur.raw[key]
        if cid[0] == "P":
            k0 = (cid[1], cid[2])
            if k0 not in prev.raw_all:
                continue                      # copy of a hidden entry whose content was never observable
            d0, b0 = prev.raw_all[k0]
            if k0[0] == "SOLUTION" and k0[1] in plan.get("eq_solutions", ()):
                # trap: the initial exchange/surface/gas calculation writes the freshly calculated viscosity back into the
                # solution named by -equilibrate (kinetics.cpp set_and_run -> Set_viscosity); derived quantity, not compared
                b0, body = strip_viscosity(b0), strip_viscosity(body)
            if body != b0:
                what = "untouched entry changed" if k0 == key else "copy of %s %d differs from its source" % k0
                raise Violation("untouched" if k0 == key else "copy_identical",
                                "simulation %d: %s %d: %s: %s" % (i, key[0], key[1], what, first_diff(b0, body)))
            if k0 == key and desc != d0:
                raise Violation("untouched", "simulation %d: description of untouched %s %d changed %r -> %r" % (i, key[0], key[1], d0, desc))
        elif cid[0] == "N":
            groups.setdefault(cid[1], []).append(key)
        elif cid[0] == "M":
            check_modified(i, key, cid, prev, cur)
    for t, keys in groups.items():
        b0 = cur.raw[keys[0]][1]
        for k in keys[1:]:
            if cur.raw[k][1] != b0:
                raise Violation("range_identical", "simulation %d: %s %d and %s %d were written by one %s but differ: %s" % (
                    i, keys[0][0], keys[0][1], k[0], k[1], t.split("#")[0], first_diff(b0, cur.raw[k][1])))


def strip_viscosity(body):
    return [l for l in body if l.split()[:1] not in (["-viscosity"], ["-viscos_0"])]


def first_diff(a, b):
    for x, y in zip(a, b):
        if x != y:
            return "%r != %r" % (x.strip(), y.strip())
    return "%d lines vs %d lines" % (len(a), len(b))


def check_modified(i, key, cid, prev, cur):
    parent = tuple(cid[1])
    if parent[0] != "P":
        return
    k0 = (parent[1], parent[2])
    md = {"kind": k0[0], "n": k0[1], "field": cid[2], "idx": cid[3], "value": cid[4]}
    if len(cid) > 5 and cid[5]:
        md["force_comp"] = cid[5]
    if k0 not in prev.parsed_all:
        return
    mp = G.mod_plan(md, prev.parsed_all[k0])
    path, allowed, value = mp["path"], mp["allowed"], mp["value"]
    diffs = rp.diff(prev.parsed_all[k0], cur.parsed[key])
    for p, a, b in diffs:
        if not any(p == q or p.startswith(q + "/") or p.startswith(q + "[") or (q.endswith("(") and p.startswith(q)) for q in allowed):
            raise Violation("modify_only_named", "simulation %d: %s_MODIFY %d -%s changed %s: %r -> %r" % (i, k0[0], k0[1], cid[2], p, a, b))
    tot = cur.parsed[key].get("totals") if isinstance(cur.parsed[key].get("totals"), dict) else {}
    for name in mp.get("absent", []):
        stale = [e for e in tot if (e.startswith(name) if name.endswith("(") else e == name)]
        if stale:
            raise Violation("modify_value", "simulation %d: %s_MODIFY %d -totals %s: entries %r are still listed beside the new total" % (
                i, k0[0], k0[1], " ".join(l.strip() for l in mp["lines"][1:]), stale))
    for p2, v2 in mp.get("more", []):
        node = cur.parsed[key]
        for part in p2.strip("/").split("/"):
            node = node.get(part) if isinstance(node, dict) else None
        if not (isinstance(node, float) and close(node, float(v2), 1e-12)):
            raise Violation("modify_value", "simulation %d: %s %d %s is %r after *_MODIFY set it to %r" % (i, key[0], key[1], p2, node, v2))
    node = cur.parsed[key]
    for part in path.strip("/").split("/"):
        if not isinstance(node, dict) or part not in node:
            raise Violation("modify_value", "simulation %d: %s %d has no %s after *_MODIFY" % (i, key[0], key[1], path))
        node = node[part]
    ok = True
    if isinstance(value, list):
        got = node if isinstance(node, list) else [node]
        ok = len(got) == len(value) and all(close(x, y, 1e-12) for x, y in zip(got, value))
    else:
        ok = isinstance(node, float) and close(node, float(value), 1e-12)
    if not ok:
        raise Violation("modify_value", "simulation %d: %s %d %s is %r after *_MODIFY set it to %r" % (i, key[0], key[1], path, node, value))


def close(a, b, rtol, atol=0.0):
    return abs(a - b) <= atol + rtol * max(abs(a), abs(b))


def check_mixlin(i, c, prev, cur):
    """X_MIX reads the current entries: inventory of the result = sum of fraction x inventory of the sources"""
    phases = U.phase_formulas(DB)
    exp, scale, zexp = {}, {}, 0.0
    for s, f, cid in c["parts"]:
        k0 = resolve_prev(tuple(cid))
        if k0 is None:
            return False          # a source created in the same simulation: its content is not observable before the mix
        if k0 not in prev.parsed_all:
            return False
        els, z, _ = rp.entity_inventory(prev.parsed_all[k0], phases)
        for e, v in els.items():
            exp[e] = exp.get(e, 0.0) + f * v
            scale[e] = scale.get(e, 0.0) + abs(f * v)
        zexp += f * z
    got = rp.entity_inventory(cur.parsed[(c["kind"], c["a"])], phases)[0]
    for e in sorted(set(exp) | set(got)):
        x, y = exp.get(e, 0.0), got.get(e, 0.0)
        if abs(x - y) > 1e-9 * max(scale.get(e, 0.0), abs(y)) + 1e-25:
            raise Violation("mix_reads_current", "simulation %d: %s %d: element %s is %r, the current sources give %r" % (
                i, G.MIX_KW[c["kind"]], c["a"], e, y, x))
    # the same per named component (two components may hold the same elements)
    cexp, cscale = {}, {}
    for s, f, cid in c["parts"]:
        for name, m in component_amounts(prev.parsed_all[resolve_prev(tuple(cid))]).items():
            cexp[name] = cexp.get(name, 0.0) + f * m
            cscale[name] = cscale.get(name, 0.0) + abs(f * m)
    cgot = component_amounts(cur.parsed[(c["kind"], c["a"])])
    for name in sorted(set(cexp) | set(cgot)):
        x, y = cexp.get(name, 0.0), cgot.get(name, 0.0)
        if abs(x - y) > 1e-9 * max(cscale.get(name, 0.0), abs(y)) + 1e-25:
            raise Violation("mix_reads_current", "simulation %d: %s %d: component %s holds %r, the current sources give %r" % (
                i, G.MIX_KW[c["kind"]], c["a"], "/".join(name), y, x))
    return True


def component_amounts(ent):
    """{(component path): moles} of the kinds whose components carry an amount of their own"""
    out = {}
    k = ent.get("_kind")
    comps = ent.get("component") if isinstance(ent.get("component"), dict) else {}
    if k in ("EQUILIBRIUM_PHASES", "GAS_PHASE"):
        for name, sub in comps.items():
            out[(name,)] = float(sub.get("moles") or 0.0)
    elif k == "KINETICS":
        for name, sub in comps.items():
            out[(name,)] = float(sub.get("m") or 0.0)
    elif k == "SOLID_SOLUTIONS":
        for sname, ss in (ent.get("solid_solution") or {}).items():
            for name, sub in ((ss.get("component") if isinstance(ss, dict) else None) or {}).items():
                out[(sname, name)] = float(sub.get("moles") or 0.0)
    return out


def check_mixcons(i, c, prev, cur):
    """USE mix n (nothing else) + SAVE solution: the saved solution holds the mixture of the CURRENT solutions"""
    phases = U.phase_formulas(DB)
    exp, scale = {}, {}
    for s, f, cid in c["parts"]:
        k0 = resolve_prev(tuple(cid))
        if k0 is None or k0 not in prev.parsed_all:
            return False
        els = rp.entity_inventory(prev.parsed_all[k0], phases)[0]
        for e, v in els.items():
            exp[e] = exp.get(e, 0.0) + f * v
            scale[e] = scale.get(e, 0.0) + abs(f * v)
    got = rp.entity_inventory(cur.parsed[("SOLUTION", c["a"])], phases)[0]
    for e in sorted(set(exp) | set(got)):
        x, y = exp.get(e, 0.0), got.get(e, 0.0)
        if abs(x - y) > 1e-9 * max(scale.get(e, 0.0), abs(y)) + 1e-15:
            raise Violation("mix_reads_current", "simulation %d: USE mix %d / SAVE solution %d: element %s is %r, the current solutions give %r" % (
                i, c["mix"], c["a"], e, y, x))
    return True


def component_names(ent):
    out = set()
    for opt in ("component", "charge_component", "solid_solution"):
        v = ent.get(opt)
        if isinstance(v, dict):
            for name, sub in v.items():
                out.add((opt, name))
                if opt == "solid_solution" and isinstance(sub, dict) and isinstance(sub.get("component"), dict):
                    out.update(("ss_component", name, c) for c in sub["component"])
    return out


def check_twin(i, c, op, prev, cur, ctx):
    """RUN_CELLS -cells n == USE of every reactant numbered n + SAVE back to n, both on twins restored from the RAW text"""
    B = fresh_instance()
    C = fresh_instance()
    try:
        for T in (B, C):
            if T.run_string(prev.text) != 0:
                ctx.event("twin_restore_failed")
                return False
        # precondition of the comparison: the restored twin holds the same reactants (names of components / solid solutions)
        ob0 = Obs(B)
        for key in sorted(prev.raw):
            if key not in ob0.parsed:
                raise Violation("twin_restore_components", "simulation %d: %s %d is missing after reading the RAW text back" % (i, key[0], key[1]))
            a, b = component_names(prev.parsed[key]), component_names(ob0.parsed[key])
            if a != b:
                raise Violation("twin_restore_components", "simulation %d: %s %d has components %r, after reading its RAW text back %r" % (
                    i, key[0], key[1], sorted(a), sorted(b)))
        rb = B.run_string(G.render(op, prev.parsed))
        rc = C.run_string(G.explicit_cells(c["cells"]))
        if rb != 0 or rc != 0:
            if (rb != 0) != (rc != 0):
                ctx.event("twin_one_side_failed")
            return False
        ob, oc = Obs(B), Obs(C)
        if set(ob.raw) != set(oc.raw):
            raise Violation("run_cells_equals_use_save", "simulation %d: RUN_CELLS %r leaves entries %r, USE+SAVE leaves %r" % (
                i, [x[0] for x in c["cells"]], sorted(set(ob.raw) - set(oc.raw)), sorted(set(oc.raw) - set(ob.raw))))
        diffs = rp.diff(ob.parsed, oc.parsed, rtol=1e-9, atol=1e-30)
        if diffs:
            raise Violation("run_cells_equals_use_save", "simulation %d: RUN_CELLS %r differs from USE+SAVE: %r" % (
                i, [x[0] for x in c["cells"]], diffs[:4]))
        # the history instance itself against the twin: same entries with the same fields (numbers: see DESIGN section 4 rule 7)
        if set(ob.raw) != set(cur.raw):
            raise Violation("run_cells_equals_use_save", "simulation %d: RUN_CELLS on the history instance leaves %r, on the restored twin %r" % (
                i, sorted(set(cur.raw) - set(ob.raw)), sorted(set(ob.raw) - set(cur.raw))))
        loose = rp.diff(cur.parsed, ob.parsed, rtol=1e-6, atol=1e-9)
        if loose:
            ctx.event("twin_vs_history_differs_1e-6")
        return True
    finally:
        B.close()
        C.close()


def check_components(i, cur):
    comps = cur.comps
    if len(set(comps)) != len(comps):
        raise Violation("components_unique", "simulation %d: component list has duplicates: %r" % (i, comps))
    need = elements_present(cur.parsed)
    missing = sorted(e for e in need if e not in comps)
    if missing:
        raise Violation("components_cover", "simulation %d: component list %r lacks %r (present in %s %d)" % (
            i, comps, missing, need[missing[0]][0], need[missing[0]][1]))


# --------------------------------------------------------------------------------------------- the oracle
def check_case(case, ctx):
    I = fresh_instance()
    try:
        M = G.Model()
        prev = Obs(I)
        if prev.raw:
            raise Violation("key_set", "fresh instance holds entries %r" % sorted(prev.raw))
        classes = set()
        if case.get("excluded_overlapping_defs"):
            ctx.event("excluded_by_construction:overlapping_range_definitions", case["excluded_overlapping_defs"])
        done = 0
        kinds_seen = set()
        copy_eff = delete_eff = False
        for i, op in enumerate(case["ops"]):
            try:
                plan = M.apply(op)
            except G.OutOfDomain as e:
                raise Discard("out_of_domain")
            text = G.render(op, prev.parsed)
            rc = I.run_string(text)
            if plan["expect_error"] and "resync" in plan["flags"]:
                cur = Obs(I)
                M.resync(sorted(cur.raw))
            elif plan["expect_error"]:
                cur = Obs(I)
                cur.carry_hidden(plan, prev)
                check_store(i, plan, prev, cur)
                classes.add("use_missing:" + ("error" if rc != 0 else "no_error"))
            else:
                if rc != 0:
                    # outside the domain (calculation did not complete): the history ends here
                    classes.add("ended_by_error")
                    ctx.event("error:" + (I.errors().strip().split("\n")[0][:60] or "?"))
                    break
                cur = Obs(I)
                cur.carry_hidden(plan, prev)
                check_store(i, plan, prev, cur)
                for c in plan["checks"]:
                    if "tag" in c:
                        # the entry written by this request may have been overwritten or deleted later in the same simulation
                        tk = (c["kind"] if c["c"] == "mixlin" else "SOLUTION", c["a"])
                        if tuple(plan["expect"].get(tk, ())) != ("N", c["tag"]):
                            continue
                    if c["c"] == "mixlin":
                        if check_mixlin(i, c, prev, cur):
                            classes.add("mixlin_checked")
                    elif c["c"] == "mixcons":
                        if check_mixcons(i, c, prev, cur):
                            classes.add("mixcons_checked")
                    elif c["c"] == "twin":
                        if check_twin(i, c, op, prev, cur, ctx):
                            classes.add("twin_checked")
            check_components(i, cur)
            after = set(M.keys())
            fl = plan["flags"]
            classes.update(fl)
            if "copy" in fl:           # set by the model only when a COPY wrote at least one entry
                copy_eff = True
            if "delete" in fl:
                delete_eff = True
            kinds_seen.update(k for k, n in after)
            prev = cur
            done += 1
        if done == 0:
            raise Discard("first_simulation_failed")
        nt = done >= 5 and copy_eff and delete_eff and len(kinds_seen) >= 2
        out = sorted(classes) + ["sims=%s" % ("<5" if done < 5 else "5-8" if done <= 8 else ">8"),
                                 "kinds=%s" % ("<4" if len(kinds_seen) < 4 else "4-7" if len(kinds_seen) <= 7 else ">7")]
        return {"nontrivial": nt, "classes": out}
    finally:
        I.close()


def run(ctx):
    n = BUDGET[ctx.tier]
    ctx.hyp(G.history(), lambda c: check_case(c, ctx), n, "history")
