"""C13 - instance registry and C/C++/Fortran-glue bindings behave as one consistent API."""
import os, ctypes, itertools
from hypothesis import strategies as st
from .. import lib
from ..core import Violation, Discard

ID = "C13"
LEVEL = "exploration"
TECHNIQUE = "model-based (stateful) property testing: generated call histories over several instances against a reference model, cross-binding differential after every step; small-scope exhaustive enumeration of depth-4 histories"
LEVEL_TEXT = ("Exploration: random call histories (length <= 40) plus the exhaustive space of depth<=4 histories over a reduced alphabet are "
              "executed through the C, C++ and Fortran-glue entry points; after every step the full observable state of every live instance is read "
              "through all bindings and compared with each other, with the reference model (settings) and with the pre-step state (isolation).")
RULE = ("case = list of operations (create via C/F/C++, destroy, double destroy, calls on ids never issued / negative / destroyed, every setter with "
        "valid and invalid arguments incl. NULL and empty file names and negative user numbers, accumulate/clear/run, load, AddError/AddWarning) each applied "
        "through a generated binding; non-trivial = at some point >=2 live instances and (an invalid-id call or a destroy that is not the last operation); "
        "distinct by SHA-256 of the operation list.  Exhaustive leg: all sequences of length 1..4 over an 8-operation alphabet (exhaustive_sequences counts them).")
ASSUMPTIONS = ["the reference model encodes IPhreeqc.h/IPhreeqc.hpp: defaults phreeqc.<id>.out/.err/.log, dump.<id>.out, selected_<n>.<id>.out, all switches off except error string/error on, "
               "setters are simple stores, NULL/empty file names are ignored, negative user numbers are rejected with IPQ_INVALIDARG, a database load resets current user number and per-number selected-output switches",
               "return values of count/string getters on a bad id are not documented uniformly: only 'no instance changes' is asserted there",
               "the Fortran 90 module itself cannot be compiled (no Fortran compiler): the C-callable *F glue is exercised from C++"]
FLOORS = {"quick": 500, "thorough": 5000}
SHARDS = {"quick": 8, "thorough": 16}
BUDGET = {"quick": 4000, "thorough": 40000}

MINIDB = """SOLUTION_MASTER_SPECIES
H        H+     -1.0 H 1.008
H(0)     H2      0   H
H(1)     H+     -1.0 0
E        e-      0   0.0 0
O        H2O     0   O 16.0
O(0)     O2      0   O
O(-2)    H2O     0   0
Na       Na+     0   Na 22.9898
Cl       Cl-     0   Cl 35.453
SOLUTION_SPECIES
H+ = H+
 -gamma 9 0
e- = e-
H2O = H2O
Na+ = Na+
 -gamma 4 0.075
Cl- = Cl-
 -gamma 3.5 0.015
H2O = OH- + H+
 -analytic 293.29227 0.1360833 -10576.913 -123.73158 0 -6.996455e-5
 -gamma 3.5 0
2 H2O = O2 + 4 H+ + 4 e-
 log_k -86.08
 delta_h 134.79 kcal
2 H+ + 2 e- = H2
 log_k -3.15
 delta_h -1.759 kcal
PHASES
Halite
 NaCl = Cl- + Na+
 log_k 1.57
END
"""
GOOD_INPUT = "SOLUTION 1\n Na 1\n Cl 1\nSELECTED_OUTPUT 1\n -totals Na\nSELECTED_OUTPUT 3\n -totals Cl\nEND\n"
BAD_INPUT = "SOLUTION 1\n Zz 1\n pH 7 nonsense_phase\nEND\n"
ACC_BLOCK = "SOLUTION 2\n Cl 2\n Na 2\nEND"

INT_SETTERS = ["SetOutputFileOn", "SetOutputStringOn", "SetErrorFileOn", "SetErrorStringOn", "SetErrorOn", "SetLogFileOn", "SetLogStringOn",
               "SetDumpFileOn", "SetDumpStringOn", "SetSelectedOutputFileOn", "SetSelectedOutputStringOn"]
STR_SETTERS = ["SetOutputFileName", "SetErrorFileName", "SetLogFileName", "SetDumpFileName", "SetSelectedOutputFileName"]
BADINSTANCE, INVALIDARG = -6, -3


def prepare(tier):
    lib.build("rel", ["libiphreeqc_rel.so"])


_L = None


def L():
    global _L
    if _L is None:
        _L = lib.lib()
        _L.shim13_state.argtypes = [ctypes.c_int, ctypes.c_void_p, ctypes.c_int, ctypes.c_int]
        _L.shim13_state.restype = ctypes.c_void_p
        _L.shim13_call.argtypes = [ctypes.c_int, ctypes.c_void_p, ctypes.c_int, ctypes.c_char_p, ctypes.c_int, ctypes.c_char_p]
        _L.shim13_call.restype = ctypes.c_int
    return _L


def state(id_, ptr, binding, settings_only=0):
    p = L().shim13_state(id_, ptr, binding, settings_only)
    s = ctypes.string_at(p).decode("latin-1")
    L().shim_free(p)
    return s


def fnv(s):
    h = 1469598103934665603
    for ch in s.encode("latin-1"):
        h ^= ch
        h = (h * 1099511628211) & 0xFFFFFFFFFFFFFFFF
    return "%x" % h


def sval(s):
    return "%d:%s:%s" % (len(s), fnv(s), "".join("|" if ord(c) < 32 else c for c in s[:60]))


# ------------------------------------------------------------------------------ reference model
class Model:
    def __init__(self, id_):
        self.id = id_
        self.sw = {"OutputFileOn": 0, "OutputStringOn": 0, "ErrorFileOn": 0, "ErrorStringOn": 1, "ErrorOn": 1, "LogFileOn": 0,
                   "LogStringOn": 0, "DumpFileOn": 0, "DumpStringOn": 0}
        self.names = {"OutputFileName": "phreeqc.%d.out" % id_, "ErrorFileName": "phreeqc.%d.err" % id_,
                      "LogFileName": "phreeqc.%d.log" % id_, "DumpFileName": "dump.%d.out" % id_}
        self.cur = 1
        self.so_file, self.so_str, self.so_name = {}, {}, {}
        self.db = False
        self.acc_nonempty = False
        self.acc_clear_next = False

    def render(self):
        d = dict(("%s" % k, str(v)) for k, v in self.sw.items())
        d["SelectedOutputFileOn"] = str(int(self.so_file.get(self.cur, 0)))
        d["SelectedOutputStringOn"] = str(int(self.so_str.get(self.cur, 0)))
        d["CurrentSelectedOutputUserNumber"] = str(self.cur)
        for k, v in self.names.items():
            d[k] = sval(v)
        d["SelectedOutputFileName"] = sval(self.so_name.get(self.cur, "selected_%d.%d.out" % (self.cur, self.id)))
        return d

    def on_load(self):
        self.cur = 1
        self.so_file, self.so_str = {}, {}
        self.acc_nonempty = False
        self.acc_clear_next = False


def parse_state(txt):
    d = {}
    seq = []
    for line in txt.split("\n"):
        if not line:
            continue
        k, _, v = line.partition("=")
        seq.append((k, v))
        d.setdefault(k, v)
    return d, seq


# ------------------------------------------------------------------------------ generator
def op_strategy():
    inst = st.integers(0, 5)
    bind = st.integers(0, 2)
    badid = st.sampled_from([-1, -7, 12345, 2147483647, -2147483648, "dead"])
    return st.one_of(
        st.builds(lambda b: {"op": "create", "bind": b}, st.sampled_from([0, 1, 2])),
        st.builds(lambda i: {"op": "destroy", "inst": i}, inst),
        st.builds(lambda i: {"op": "destroy_dead", "inst": i}, inst),
        st.builds(lambda i, b, n, v: {"op": "seti", "inst": i, "bind": b, "name": n, "v": v}, inst, bind, st.sampled_from(INT_SETTERS), st.sampled_from([0, 1, 1, 2, -1])),
        st.builds(lambda i, b, n, s: {"op": "sets", "inst": i, "bind": b, "name": n, "s": s}, inst, bind, st.sampled_from(STR_SETTERS),
                  st.sampled_from(["a.txt", "b b.out", "x" * 70, "", None, "sub/none.txt"])),
        st.builds(lambda i, b, n: {"op": "setcur", "inst": i, "bind": b, "n": n}, inst, bind, st.sampled_from([-5, -1, 0, 1, 2, 3, 77])),
        st.builds(lambda i, b, k: {"op": "load", "inst": i, "bind": b, "kind": k}, inst, bind, st.sampled_from(["string", "string", "badstring", "missingfile"])),
        st.builds(lambda i, b, k: {"op": "run", "inst": i, "bind": b, "kind": k}, inst, bind, st.sampled_from(["good", "good", "bad"])),
        st.builds(lambda i, b: {"op": "acc", "inst": i, "bind": b}, inst, bind),
        st.builds(lambda i, b: {"op": "clearacc", "inst": i, "bind": b}, inst, bind),
        st.builds(lambda i, b: {"op": "runacc", "inst": i, "bind": b}, inst, bind),
        st.builds(lambda i, b, w: {"op": "adderr", "inst": i, "bind": b, "warn": w}, inst, bind, st.booleans()),
        st.builds(lambda x, b, n: {"op": "bad", "id": x, "bind": b, "name": n}, badid, st.sampled_from([0, 2]),
                  st.sampled_from(INT_SETTERS + STR_SETTERS + ["SetCurrentSelectedOutputUserNumber", "AccumulateLine", "RunString", "RunAccumulated",
                                                               "LoadDatabaseString", "LoadDatabase", "RunFile", "AddError", "AddWarning", "ClearAccumulatedLines", "Destroy"])),
    )


def case_strategy():
    creates = st.lists(st.sampled_from([0, 1, 2]), min_size=0, max_size=3).map(lambda bs: [{"op": "create", "bind": b} for b in bs])
    return st.tuples(creates, st.lists(op_strategy(), min_size=1, max_size=40)).map(lambda t: {"kind": "hist", "ops": t[0] + t[1]})


# ------------------------------------------------------------------------------ executor / oracle
class World:
    def __init__(self, ctx):
        self.insts = []   # dicts: id, ptr, alive, model
        self.max_id = -1
        self.dead_ids = []
        self.ctx = ctx
        self.max_live = 0
        self.saw_bad = False
        self.mid_destroy = False

    def live(self):
        return [x for x in self.insts if x["alive"]]

    def full_states(self):
        return {x["id"]: state(x["id"], x["ptr"], 0, 0) for x in self.live()}

    def cleanup(self):
        for x in self.live():
            if x["ptr"]:
                L().shim_delete(x["ptr"])
            else:
                L().DestroyIPhreeqc(x["id"])
            x["alive"] = False


def call(x, bind, name, iarg=0, sarg=None, id_override=None):
    ptr = x["ptr"] if x is not None else None
    if bind == 1 and not ptr:
        bind = 0
    id_ = id_override if id_override is not None else x["id"]
    s = None if sarg is None else (sarg.encode("latin-1"))
    r = L().shim13_call(id_, ptr, bind, name.encode(), iarg, s)
    if r == -2147483647:
        raise RuntimeError("shim13_call: unknown name " + name)
    return r


def expect(cond, oracle, msg):
    if not cond:
        raise Violation(oracle, msg)


def apply_op(W, op, step):
    """apply one operation; returns the id of the instance it may legitimately change (or None)"""
    kind = op["op"]
    live = W.live()
    if kind == "create":
        if len(live) >= 6:
            return None
        b = op["bind"]
        if b == 1:
            ptr = L().shim_new()
            id_ = L().shim_id(ptr)
        else:
            ptr = None
            id_ = L().shim13_call(0, None, b, b"Create", 0, None)
        expect(id_ >= 0, "create", "create returned %d" % id_)
        # register first: the instance must be cleaned up even when the id oracle fails (a leaked instance would
        # change what later cases of this process see and make the shrunk case irreproducible)
        prev_max = W.max_id
        W.max_id = max(W.max_id, id_)
        W.insts.append({"id": id_, "ptr": ptr, "alive": True, "model": Model(id_)})
        expect(id_ > prev_max, "id_unique", "new id %d is not greater than every id issued before (max %d): ids must never be reused" % (id_, prev_max))
        return id_
    if kind == "bad":
        W.saw_bad = True
        id_ = op["id"]
        if id_ == "dead":
            if not W.dead_ids:
                return None
            id_ = W.dead_ids[-1]
        if any(x["id"] == id_ for x in live):
            return None
        name = op["name"]
        r = L().shim13_call(id_, None, op["bind"], name.encode(), 1, b"SOLUTION 1\nEND\n")
        expect(r == BADINSTANCE, "bad_id", "%s on id %d (not live) returned %d, expected IPQ_BADINSTANCE" % (name, id_, r))
        return None
    if not W.insts:
        return None
    x = W.insts[op["inst"] % len(W.insts)]
    if kind == "destroy_dead":
        if x["alive"]:
            return None
        W.saw_bad = True
        r = L().DestroyIPhreeqc(x["id"])
        expect(r == BADINSTANCE, "double_destroy", "second destroy of id %d returned %d" % (x["id"], r))
        return None
    if not x["alive"]:
        # any call on a destroyed instance by id
        W.saw_bad = True
        r = L().shim13_call(x["id"], None, 0, b"SetOutputStringOn", 1, None)
        expect(r == BADINSTANCE, "bad_id", "setter on destroyed id %d returned %d" % (x["id"], r))
        return None
    m = x["model"]
    bind = op.get("bind", 0)
    if kind == "destroy":
        if x["ptr"] and step % 2 == 0:
            L().shim_delete(x["ptr"])
        else:
            r = L().DestroyIPhreeqc(x["id"])
            expect(r == 0, "destroy", "destroy of live id %d returned %d" % (x["id"], r))
        x["alive"] = False
        x["ptr"] = None
        W.dead_ids.append(x["id"])
        W.mid_destroy = True
        return x["id"]
    if kind == "seti":
        r = call(x, bind, op["name"], op["v"])
        expect(r == 0, "setter_ret", "%s(%d) returned %d" % (op["name"], op["v"], r))
        key = op["name"][3:]
        v = 1 if op["v"] != 0 else 0
        if key == "SelectedOutputFileOn":
            m.so_file[m.cur] = v
        elif key == "SelectedOutputStringOn":
            m.so_str[m.cur] = v
        else:
            m.sw[key] = v
    elif kind == "sets":
        r = call(x, bind, op["name"], 0, op["s"])
        expect(r == 0, "setter_ret", "%s(%r) returned %d" % (op["name"], op["s"], r))
        if op["s"]:
            key = op["name"][3:]
            if key == "SelectedOutputFileName":
                m.so_name[m.cur] = op["s"]
            else:
                m.names[key] = op["s"]
    elif kind == "setcur":
        r = call(x, bind, "SetCurrentSelectedOutputUserNumber", op["n"])
        if op["n"] < 0:
            expect(r == INVALIDARG, "setcur", "negative user number %d returned %d" % (op["n"], r))
        else:
            expect(r == 0, "setcur", "user number %d returned %d" % (op["n"], r))
            m.cur = op["n"]
    elif kind == "load":
        if op["kind"] == "string":
            r = call(x, bind, "LoadDatabaseString", 0, MINIDB)
            expect(r == 0, "load", "LoadDatabaseString(minidb) returned %d: %s" % (r, lib.u(L().GetErrorString(x["id"]))[:300]))
            m.db = True
        elif op["kind"] == "badstring":
            r = call(x, bind, "LoadDatabaseString", 0, "SOLUTION_SPECIES\nQq+ = Qq+\n log_k 0\n")
            expect(r != 0, "load", "LoadDatabaseString(bad) returned 0")
            m.db = False
        else:
            r = call(x, bind, "LoadDatabase", 0, "no_such_dir/no_such.dat")
            expect(r != 0, "load", "LoadDatabase(missing file) returned 0")
            m.db = False
        m.on_load()
    elif kind == "run":
        r = call(x, bind, "RunString", 0, GOOD_INPUT if op["kind"] == "good" else BAD_INPUT)
        if not m.db or op["kind"] == "bad":
            expect(r != 0, "run", "RunString returned 0 (db loaded=%s, input=%s)" % (m.db, op["kind"]))
        else:
            expect(r == 0, "run", "RunString(good) returned %d: %s" % (r, lib.u(L().GetErrorString(x["id"]))[:300]))
    elif kind == "acc":
        r = call(x, bind, "AccumulateLine", 0, ACC_BLOCK)
        expect(r == 0, "acc", "AccumulateLine returned %d" % r)
        m.acc_nonempty = True
        m.acc_clear_next = False
    elif kind == "clearacc":
        r = call(x, bind, "ClearAccumulatedLines")
        expect(r == 0, "acc", "ClearAccumulatedLines returned %d" % r)
        m.acc_nonempty = False
    elif kind == "runacc":
        r = call(x, bind, "RunAccumulated")
        if not m.db:
            expect(r != 0, "run", "RunAccumulated without database returned 0")
        elif m.acc_nonempty:
            expect(r == 0, "run", "RunAccumulated(valid block) returned %d: %s" % (r, lib.u(L().GetErrorString(x["id"]))[:300]))
    elif kind == "adderr":
        r = call(x, bind, "AddWarning" if op["warn"] else "AddError", 0, "user message\n")
        expect(r >= 1, "adderr", "AddError/AddWarning returned %d" % r)
    return x["id"]


def strip_strings(seq):
    return [(k, v) for k, v in seq if not k.endswith("String") or k.endswith("OnString")]


def check_all(W, before, target, step, op):
    for x in W.live():
        sC = state(x["id"], x["ptr"], 0, 0)
        dC, qC = parse_state(sC)
        sF = state(x["id"], x["ptr"], 2, 0)
        dF, qF = parse_state(sF)
        expect("FPROBLEM" not in dF, "fortran_glue", "step %d %r: id %d: %s" % (step, op, x["id"], dF.get("FPROBLEM")))
        wholes = ("OutputString", "LogString", "DumpString", "ErrorString", "WarningString", "SelectedOutputString")
        qC2 = [(k, v) for k, v in qC if k not in wholes]
        if qC2 != qF:
            diff = [(a, b) for a, b in zip(qC2, qF) if a != b][:3]
            raise Violation("c_vs_f", "step %d %r: id %d: C and Fortran-glue views differ: %r (lengths %d/%d)" % (step, op, x["id"], diff, len(qC2), len(qF)))
        if x["ptr"]:
            sP = state(x["id"], x["ptr"], 1, 0)
            if sP != sC:
                dP, qP = parse_state(sP)
                diff = [(a, b) for a, b in zip(qC, qP) if a != b][:3]
                raise Violation("c_vs_cpp", "step %d %r: id %d: C and C++ views differ: %r" % (step, op, x["id"], diff))
        want = x["model"].render()
        for k, v in want.items():
            if dC.get(k) != v:
                raise Violation("model", "step %d %r: id %d: %s is %r, reference model says %r" % (step, op, x["id"], k, dC.get(k), v))
        if x["id"] != target and x["id"] in before and before[x["id"]] != sC:
            d0, q0 = parse_state(before[x["id"]])
            diff = [(a, b) for a, b in zip(q0, qC) if a != b][:3]
            raise Violation("isolation", "step %d %r changed instance %d which it does not address: %r" % (step, op, x["id"], diff))


def run_history(ops, ctx):
    sd = ctx.scratch_dir()
    os.chdir(sd)
    os.makedirs(os.path.join(sd, "sub"), exist_ok=True)
    W = World(ctx)
    try:
        for step, op in enumerate(ops):
            before = W.full_states()
            target = apply_op(W, op, step)
            W.max_live = max(W.max_live, len(W.live()))
            check_all(W, before, target, step, op)
        nt = W.max_live >= 2 and (W.saw_bad or (W.mid_destroy and ops[-1]["op"] != "destroy"))
        return {"nontrivial": nt, "classes": ["max_live=%d" % W.max_live] + (["bad_id_call"] if W.saw_bad else []) + (["destroy"] if W.mid_destroy else [])}
    finally:
        W.cleanup()
        for f in os.listdir(sd):
            p = os.path.join(sd, f)
            if os.path.isfile(p):
                os.unlink(p)


def check_case(case, ctx):
    return run_history(case["ops"], ctx)


ALPHABET = [
    {"op": "create", "bind": 0},
    {"op": "create", "bind": 1},
    {"op": "destroy", "inst": 0},
    {"op": "seti", "inst": 0, "bind": 2, "name": "SetOutputStringOn", "v": 1},
    {"op": "sets", "inst": 1, "bind": 0, "name": "SetSelectedOutputFileName", "s": "so.txt"},
    {"op": "bad", "id": "dead", "bind": 0, "name": "SetDumpFileName"},
    {"op": "load", "inst": 0, "bind": 1, "kind": "string"},
    {"op": "run", "inst": 0, "bind": 0, "kind": "good"},
    {"op": "setcur", "inst": 1, "bind": 2, "n": 3},
]


def run(ctx):
    ctx.hyp(case_strategy(), lambda c: check_case(c, ctx), BUDGET[ctx.tier], "hist")
    # small-scope exhaustive leg (quick: depth 3, thorough: depth 4), split over the shards
    depth = 3 if ctx.tier == "quick" else 4
    n = 0
    done = 0
    for d in range(1, depth + 1):
        for seq in itertools.product(range(len(ALPHABET)), repeat=d):
            n += 1
            if n % ctx.nshards != ctx.shard:
                continue
            case = {"kind": "hist", "ops": [ALPHABET[i] for i in seq]}
            ctx.begin(case)
            try:
                info = check_case(case, ctx)
                ctx.record(case, info["nontrivial"], ["exhaustive"])
                done += 1
            except Violation as v:
                ctx.failures.append({"case": case, "oracle": v.oracle, "message": v.msg[:3000], "test": "exhaustive"})
                break
    ctx.extra["exhaustive_sequences"] = done
    ctx.extra["exhaustive_depth"] = depth if ctx.shard == 0 else 0
