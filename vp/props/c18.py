"""C18 - every reported inverse model is a genuine, admissible mole-balance model.

Generator (vp/c18gen.py): forward-simulated evolutions - 1-3 initial waters are mixed and reacted with known amounts of phases
(REACTION / EQUILIBRIUM_PHASES, ion-exchange pairs, evaporation or dilution, user PHASES with fractional formulas; redox problems:
pyrite oxidation, sulfate reduction, denitrification with loss of N2(g), O2(g) ingassing, H2(g); reciprocal salt pairs that give
several equally good models, -phases order permuted); the saved final water is then inverted with the true phases plus decoys, so that
at least one exact model exists unless a perturbation, a contradicting constraint or a missing phase removes it on purpose.

Oracle, for every model row of the selected-output string (-high_precision, 13 digits) and its printed tables:
  (a) every element balance is feasible:  |sum_i alpha_i T_i,e + sum_p x_p c_p,e - T_f,e| <= sum_q alpha_q u_q,e |T_q,e| (+ slack),
      T = total moles read back through USER_PUNCH (full doubles), c = stoichiometry parsed from the database / input TEXT,
      valence states summed; water (H, O) balanced with the formula weight of H2O of the database text (models without redox transfers)
  (b) printed Input = the analyses, |Delta| <= declared uncertainty (per row, -balances > element > -uncertainty, pH separately),
      Input + Delta rows balance element by element (and alkalinity, with the phase alkalinity computed from the text) at print precision;
      MaxFracErr (13 digits) <= largest allowed relative adjustment; every valence-state row with a redox transfer of its own (O(0),
      H(0), N(0), N(3), N(-3), S(-2), C(-4), Fe(3)): sum +-alpha (Input+Delta) + sum x_p atoms_p,row = reported redox mole transfer,
      atoms from the phase reaction as written (N2(g), O2(g), H2(g): 2 atoms per mole)
  (c) mixing fractions >= 0, final fraction 1, dissolve-only x >= 0, precipitate-only x <= 0
  (d) -range: min <= value <= max, asserted in the robust form forced by F3 (below); per interval for ABSENT members: a phase / initial
      solution with value 0 (|value| <= 1e-9) that is not forced must have a reported interval containing 0 (the engine reports 0, 0)
  (e) -minimal: no reported model's set of phases and solutions strictly contains another one's
Slack: 1e-9 relative + 10..20 * tolerance per constraint row (cl1 accepts residuals up to 10 * tol by construction) + print precision.

FINDINGS in the L1 solver cl1 and its callers (strict replays: replays/C18/fixed-*.json pass since the fixes, replays/C18/known fail):
  F1  FIXED (2118ab56)  minimal_solve() ignored the result of its last solve_with_mask(): a model was printed from a failed LP
  F4  FIXED (2da01197)  cl1's final verification of the sign restrictions compared with zero-filled x_arg / res_arg (dead code)
  F2  known  range(): "Error in subroutine range. Kode = 1" is printed and the failed LP's numbers are reported as minimum / maximum
  F3  known  cl1() returns kode 0 at a vertex that is not optimal (an exact solver on the identical LP finds the optimum): a reported
             range can be too narrow, miss the model's own value, or be inverted; no notice
  F5  known  cl1() accepts points that violate its own equality / bound rows (residuals are read from the tableau, pivots as small as
             the tolerance): reported adjustments that do not balance, typically on the razor edge of feasibility; the water row
             (55 mol/kg) shows residuals up to ~4e-5 relative
  F6  new    solve_inverse() / minimal_solve() take an LP that cl1 REJECTED for round-off ("CL1: Roundoff errors in optimization", more
             frequent since the F4 fix) for an infeasible one and save_bad() it; subset_bad() then declares every subset infeasible:
             a model is declared minimal although a reported model is a proper subset of it
What is still excluded, per model and per clause, each counted in the evidence:
  * F2: clause (d) is skipped for a model whose block is preceded by "Error in subroutine range" (`excluded:range_of_model_*`);
  * F3: single intervals are counted (`known_F3:*`); (d) is asserted per model as "at least 3 and ALL proper intervals are inverted or miss
    their value";
  * F5: violations of the balance / adjustment clauses (element_balance, printed_balance, delta_limit, max_frac_err, water_balance) and
    range_majority are reported only if reproduced by two reformulations of the same problem (reversed phase order; all amounts x 1.7 +
    rotated order) and two neighbouring problems (relative uncertainties 1.3 % wider / narrower) (`not_reproduced_*`); a water-row residual
    below 2e-4 relative is counted (`known_F5:*`);
  * F6: a model printed after a round-off notice of a non-range LP (anywhere earlier in the run: the rejected mask stays in the list of
    "infeasible" sets and poisons its subsets) is not used as the CONTAINING model of clause (e) (`known_F6:*`);
  * the sign clauses (c), fraction_final and (e) otherwise are immediate (no reproduction filter); sign slack = 10 * tolerance, what the
    solver's own (now live) verification accepts;
  * generator domain: linearly independent phase lists, -tolerance default or (with limits >= 1 %) 1e-9 / 1e-8, no global uncertainty of
    exactly 0, waters not proportional (degenerate / razor-edge LPs are where F3, F5 strike).
"""
import os, re, math
from hypothesis import strategies as st
from .. import lib, chemgen as cg, dbparse, formula as F, c18gen as G
from ..core import Violation, Discard

ID = "C18"
LEVEL = "exploration"
RULE = ("Hypothesis-generated forward simulations (1-3 initial waters, mixing fractions, 1-5 known phase transfers through REACTION / "
        "EQUILIBRIUM_PHASES, ion-exchange pairs, evaporation/dilution, user PHASES with fractional formulas; 17 % redox problems (pyrite "
        "oxidation, sulfate reduction, denitrification with N2(g) loss, O2(g) ingassing, H2(g)); 8 % reciprocal salt pairs with several "
        "equally good models) whose saved final water is inverted with the true phases + 0-8 decoys (linearly independent "
        "stoichiometries), dissolve/precipitate constraints (consistent or contradicting), global / per-solution / per-element / absolute / "
        "zero uncertainties, -balances incl. pH and Alkalinity, -range, -minimal, -tolerance, -mineral_water, -uncertainty_water, force; "
        "analyses perturbed inside / outside their uncertainty. Every reported model is re-verified from the selected-output string "
        "(13 digits), the printed Input/Delta tables, totals read back as full doubles and stoichiometry parsed from the database / input "
        "text. Non-trivial = a run that reports at least one model with >= 2 non-zero phase transfers (every reported model is verified); "
        "distinct by SHA-256 of the case")
ASSUMPTIONS = ["TOTMOLE / ALK / TOT(\"water\") of USER_PUNCH report the totals the solution objects hand to the inverse code (independent read-out path)",
               "solver tolerance (-tolerance, default 1e-10; cl1 accepts constraint residuals up to 10*tol) is part of the documented model: "
               "absolute slack of 10..20*tol per constraint row; transfers <= 1e-9 count as zero (engine's comparison tolerance)",
               "values beyond +-(range maximum) are outside the documented domain of -range",
               "per-row uncertainty = -balances entry of that valence state, else of its element, else -uncertainty of the solution (manual)",
               "phase stoichiometry / alkalinity / water = formula and reaction as written in the database or input text (balanced equations)",
               "known findings F2, F3, F5, F6 (LP solver; F1, F4 fixed): per-model / per-clause exclusions, reproduction filter for the "
               "F5-affected clauses, robust form of the range clause - see module docstring; each is counted in the evidence"]
TECHNIQUE = "property-based testing (Hypothesis): forward-simulated inverse problems, every reported model re-verified by an independent mole-balance oracle"
LEVEL_TEXT = ("Exploration: thousands of generated inverse problems per run; each reported model is recomputed element by element from "
              "independent totals and database-text stoichiometry. Completeness of the model search is not asserted; four remaining solver "
              "defects (F2, F3, F5, F6) are excluded by detection, per model and clause, and counted.")
FLOORS = {"quick": 150, "thorough": 1500}
SHARDS = {"quick": 8, "thorough": 16}
BUDGET = {"quick": 250, "thorough": 700, "replay": 1}

SKIP_EL = ("H", "O", "e")


def prepare(tier):
    lib.build("rel", ["libiphreeqc_rel.so"])


# ------------------------------------------------------------------------------------------------ parsing
def parse_models_so(text):
    """selected-output string -> (headings, [row of floats])"""
    lines = text.split("\n")
    hi = None
    for i, l in enumerate(lines):
        if "Sum_resid" in l:
            hi = i
    if hi is None:
        return None, []
    heads = [h.strip() for h in lines[hi].split("\t")]
    while heads and heads[-1] == "":
        heads.pop()
    rows = []
    for l in lines[hi + 1:]:
        cells = [c.strip() for c in l.split("\t")]
        while cells and cells[-1] == "":
            cells.pop()
        if not cells:
            continue
        try:
            rows.append([float(c) for c in cells])
        except ValueError:
            raise Discard("layout_non_numeric")
    return heads, rows


ROW = re.compile(r"^\s*(\S+)\s+(\S+)\s+\+\s*(\S+)\s+=\s*(\S+)\s*$")


def parse_models_out(out):
    """printed models -> list of dict(sol={number: {row: (input, delta, sum)}}, fractions={number: (v,min,max)}, redox={name: v},
    sums=(resid, scaled, maxfrac), range_error=bool)"""
    k = out.find("Beginning of inverse modeling")
    if k < 0:
        return [], {}
    lines = out[k:].split("\n")
    models = []
    cur = None
    sec = None
    qn = None
    summary = {}
    # notices of the optimiser between two model blocks belong to the next model block (known findings F1/F2):
    #   "CL1: Roundoff errors in optimization"  - an LP failed its own verification (harmless for trial masks; the final
    #                                             LP of minimal_solve is used although it failed)
    #   "Error in subroutine range"             - a range LP failed; the minimum/maximum printed next are not optima
    #   "WARNING: Roundoff errors in minimal calculation"
    gap = {"cl1": 0, "range": 0, "minwarn": 0}
    fresh_notice = False
    seen_notice = False          # a round-off rejection of a non-range LP anywhere earlier in the run (it enters the "bad" list, F6)
    for l in lines:
        s = l.strip()
        m = re.match(r"^Solution\s+(\d+):", s)
        if m and not s.startswith("Solution fractions"):
            if cur is None:
                seen_notice = seen_notice or gap["cl1"] > 0 or gap["minwarn"] > 0
                cur = {"sol": {}, "fractions": {}, "redox": {}, "sums": [None, None, None], "order": [],
                       "lp_notice": gap["cl1"] > 0 or gap["minwarn"] > 0, "lp_notice_before": seen_notice,
                       "range_error": gap["range"] > 0}
                gap = {"cl1": 0, "range": 0, "minwarn": 0}
            qn = int(m.group(1))
            cur["sol"][qn] = {}
            cur["order"].append(qn)
            sec = "sol"
            continue
        if cur is None:
            if s.startswith("CL1: Roundoff errors in optimization"):
                gap["cl1"] += 1
                fresh_notice = True
                summary["cl1_notice"] = summary.get("cl1_notice", 0) + 1
            elif s.startswith("Try using -multiple_precision") or s == "":
                pass
            elif s.startswith("Error in subroutine range"):
                gap["range"] += 1
                if fresh_notice:
                    gap["cl1"] -= 1          # the notice printed immediately before belongs to this range LP
                fresh_notice = False
                summary["range_error"] = summary.get("range_error", 0) + 1
            elif "Roundoff errors in minimal calculation" in s:
                gap["minwarn"] += 1
                fresh_notice = False
                summary["minwarn"] = summary.get("minwarn", 0) + 1
            else:
                fresh_notice = False
        if s.startswith("Number of models found:"):
            summary["found"] = int(s.split(":")[1])
        if s.startswith("Number of minimal models found:"):
            summary["minimal"] = int(s.split(":")[1])
        if cur is None:
            continue
        if s.startswith("Isotopic composition of phases"):
            sec = "iso"
        elif s.startswith("Solution fractions:"):
            sec = "frac"
        elif s.startswith("Phase mole transfers:"):
            sec = "phase"
        elif s.startswith("Redox mole transfers:"):
            sec = "redox"
        elif s.startswith("Sum of residuals"):
            cur["sums"][0] = float(s.split(":")[1])
            sec = "sums"
        elif s.startswith("Sum of delta/uncertainty limit:"):
            cur["sums"][1] = float(s.split(":")[1])
        elif s.startswith("Maximum fractional error in element concentration:"):
            cur["sums"][2] = float(s.split(":")[1])
            models.append(cur)
            cur = None
            sec = None
        elif sec == "sol":
            m = ROW.match(l)
            if m:
                try:
                    cur["sol"][qn][m.group(1)] = (float(m.group(2)), float(m.group(3)), float(m.group(4)))
                except ValueError:
                    pass
        elif sec == "frac":
            t = s.split()
            if len(t) == 5 and t[0] == "Solution":
                cur["fractions"][int(t[1])] = (float(t[2]), float(t[3]), float(t[4]))
        elif sec == "redox":
            t = s.split()
            if len(t) == 2:
                try:
                    cur["redox"][t[0]] = float(t[1])
                except ValueError:
                    pass
    return models, summary


# ------------------------------------------------------------------------------------------------ chemistry from text
class Chem(object):
    """stoichiometry and alkalinity of phases from the database text + the PHASES block of the input (independent of /repo's reader)"""

    def __init__(self, case):
        self.db = dbparse.load(case["db"])
        self.user = {}
        if case.get("user_phases"):
            udb = dbparse.parse_text("\n".join(G.render_user_phases(case)) + "\n", "input")
            for n, p in udb.phases.items():
                self.user[n.lower()] = p
        self._alk = {}

    def phase(self, name):
        p = self.user.get(name.lower())
        if p is not None:
            return p
        p = self.db.phase(name)
        if p is not None:
            return p
        for n, s in self.db.exchange_species.items():
            if n.lower() == name.lower():
                return s
        return None

    def elements(self, name):
        p = self.phase(name)
        if p is None:
            raise KeyError(name)
        return dict(p.elements)

    def species_alk(self, name, depth=0):
        """alkalinity contribution of one mole of an aqueous species: the master table value for master species, else the sum
        over its defining reaction"""
        name = F.canonical(name)
        if name in self._alk:
            return self._alk[name]
        if name in ("H2O", "e-"):
            return 0.0
        if name == "H+":
            return -1.0
        ms = self.db.master_of_species.get(name)
        if ms:
            # secondary entry wins over the "Alkalinity" pseudo element (CO3-2 is master of C(4) and of Alkalinity)
            cand = [m for m in ms if m.element != "Alkalinity"]
            v = (cand or ms)[0].alk
            self._alk[name] = v
            return v
        sp = self.db.species.get(name) or self.db.exchange_species.get(name)
        if sp is None or depth > 12:
            raise KeyError(name)
        v = 0.0
        for c, n in sp.lhs:
            v += c * self.species_alk(n, depth + 1)
        for c, n in sp.rhs[1:]:
            v -= c * self.species_alk(n, depth + 1)
        v /= sp.rhs[0][0]
        self._alk[name] = v
        return v

    def phase_alk(self, name):
        """alkalinity released per mole of phase dissolved, from its dissolution reaction as written"""
        p = self.phase(name)
        if isinstance(p, dbparse.Species):          # exchange species: cations + X-
            return sum(c * self.species_alk(n) for c, n in p.lhs if not n.startswith("X"))
        v = 0.0
        for c, n in p.rhs:
            v += c * self.species_alk(n)
        for c, n in p.lhs[1:]:
            v -= c * self.species_alk(n)
        return v

    def species_h2o(self, name, depth=0):
        """water molecules in one mole of an aqueous species written in master species (H2O = 1, master species = 0)"""
        name = F.canonical(name)
        key = ("w", name)
        if key in self._alk:
            return self._alk[key]
        if name == "H2O":
            return 1.0
        if name in ("e-", "H+") or self.db.master_of_species.get(name):
            return 0.0
        sp = self.db.species.get(name) or self.db.exchange_species.get(name)
        if sp is None or depth > 12:
            raise KeyError(name)
        v = 0.0
        for c, n in sp.lhs:
            v += c * self.species_h2o(n, depth + 1)
        for c, n in sp.rhs[1:]:
            v -= c * self.species_h2o(n, depth + 1)
        v /= sp.rhs[0][0]
        self._alk[key] = v
        return v

    def phase_h2o(self, name):
        """moles of water released per mole of phase dissolved (dissolution reaction as written, in master species)"""
        p = self.phase(name)
        if isinstance(p, dbparse.Species):
            return 0.0
        v = 0.0
        for c, n in p.rhs:
            v += c * self.species_h2o(n)
        for c, n in p.lhs[1:]:
            v -= c * self.species_h2o(n)
        return v

    def species_rows(self, name, depth=0):
        """{balance row: atoms} of one mole of an aqueous species: a master species belongs to the row of its valence state
        (NO3- -> N(5), N2 -> N(0) with 2 atoms, Ca+2 -> Ca), any other species is resolved through its defining reaction"""
        name = F.canonical(name)
        key = ("r", name)
        if key in self._alk:
            return self._alk[key]
        if name in ("H2O", "H+", "e-"):
            return {}
        for em in self.db.exchange_master.values():
            if F.canonical(em.species) == name:
                return {em.element: 1.0}          # X- : the exchanger row
        ms = [m for m in (self.db.master_of_species.get(name) or []) if m.element != "Alkalinity"]
        if ms:
            sec = [m for m in ms if not m.primary]
            m = (sec or ms)[0]
            out = {m.element: F.elements(name).get(m.base, 0.0)}
            self._alk[key] = out
            return out
        sp = self.db.species.get(name) or self.db.exchange_species.get(name)
        if sp is None or depth > 12:
            raise KeyError(name)
        out = {}
        for c, n in sp.lhs:
            F.add(out, self.species_rows(n, depth + 1), c / sp.rhs[0][0])
        for c, n in sp.rhs[1:]:
            F.add(out, self.species_rows(n, depth + 1), -c / sp.rhs[0][0])
        self._alk[key] = out
        return out

    def phase_rows(self, name):
        """{balance row: atoms released per mole of phase dissolved}, valence states kept apart (reaction as written)"""
        p = self.phase(name)
        out = {}
        if isinstance(p, dbparse.Species):
            for c, n in p.lhs:
                F.add(out, self.species_rows(n), c)
            return out
        for c, n in p.rhs:
            F.add(out, self.species_rows(n), c)
        for c, n in p.lhs[1:]:
            F.add(out, self.species_rows(n), -c)
        return out

    def own_redox_rows(self, element):
        """valence-state rows of `element` that have a redox transfer of their own: all but the one of the primary master species"""
        prim = self.db.master.get(element)
        return [k for k, m in self.db.master.items() if m.base == element and not m.primary and (prim is None or m.species != prim.species)]

    def rows_of(self, element):
        rows = [k for k, m in self.db.master.items() if m.base == element and not m.primary]
        return rows or [element]


def norm(name):
    return name.replace("(+", "(")


def uncertainty(inv, row, q):
    """declared uncertainty of balance row `row` ("Ca", "S(6)", "Alkalinity") for the q-th solution of -solutions"""
    g = inv["unc"]
    ug = g[min(q, len(g) - 1)] if g else 0.05
    exact = prim = None
    base = dbparse.base_element(row)
    for name, us in inv["balances"]:
        if not us or name == "pH":
            continue
        nm = norm(name)
        v = us[min(q, len(us) - 1)]
        if nm == row:
            exact = v
        elif nm == base:
            prim = v
    if exact is not None:
        return exact
    if prim is not None:
        return prim
    return ug


def ph_uncertainty(inv, q):
    u = None
    for name, us in inv["balances"]:
        if name == "pH" and us:
            u = us[min(q, len(us) - 1)]
    return 0.05 if u is None else u


def limit(u, total):
    return abs(u * total) if u > 0 else abs(u)


# ------------------------------------------------------------------------------------------------ the oracle
def verify(case, comps, numbers, heads, rows, printed, summary, toler, chem, ctx):
    inv = case["inv"]
    soft = bool(os.environ.get("C18_SOFT"))

    def fail(oracle, msg):
        if soft:
            ctx.event("soft:" + oracle)
            ctx.extra.setdefault("soft", []).append(oracle)
            return
        raise Violation(oracle, msg)
    nq = len(numbers)
    phases = [p[0] for p in inv["phases"]]
    nph = len(phases)
    # ---- layout of the selected-output row
    if len(heads) != 3 + 3 * nq + 3 * nph:
        raise Discard("layout_columns")
    for j, n in enumerate(numbers):
        if heads[3 + 3 * j] != "Soln_%d" % n:
            raise Discard("layout_solution_heading")
    for j, p in enumerate(phases):
        if heads[3 + 3 * nq + 3 * j].lower() != p.lower():
            raise Discard("layout_phase_heading")
    stoich = [chem.elements(p) for p in phases]
    # elements with a mole-balance equation: those of the phases and of -balances
    E = set()
    for s in stoich:
        E |= set(s)
    for name, _ in inv["balances"]:
        if name not in ("pH", "Alkalinity"):
            E.add(dbparse.base_element(norm(name)))
    E -= set(SKIP_EL)
    E = sorted(E)
    rng = inv["range"] is not None
    rmax = 1000.0 if inv["range"] in (None, "") else abs(float(inv["range"]))
    tol10 = 10.0 * toler
    supports = []
    info = {"nt": False, "max_transfers": 0, "adjusted": 0, "excluded": 0, "verified": 0}
    for mi, r in enumerate(rows):
        if len(r) != len(heads):
            raise Discard("layout_row_length")
        alpha = [r[3 + 3 * j] for j in range(nq)]
        amin = [r[4 + 3 * j] for j in range(nq)]
        amax = [r[5 + 3 * j] for j in range(nq)]
        x = [r[3 + 3 * nq + 3 * j] for j in range(nph)]
        xmin = [r[4 + 3 * nq + 3 * j] for j in range(nph)]
        xmax = [r[5 + 3 * nq + 3 * j] for j in range(nph)]
        for v in r:
            if not math.isfinite(v):
                fail("finite", "model %d reports a non-finite value: %r" % (mi, r))
        tag = "model %d (fractions %r, transfers %r)" % (mi + 1, alpha, dict(zip(phases, x)))
        # ---- known finding F2: the ranges printed after "Error in subroutine range" are not verified (per model, counted)
        strict = bool(case.get("no_exclusions"))
        pmx = printed[mi] if printed is not None else None
        range_failed = pmx["range_error"] if pmx is not None else bool(summary.get("range_error"))
        info["verified"] += 1
        # ---- (c) admissible signs.  Slack: what the solver's own verification accepts (10 * tolerance, cl1.cpp check_toler)
        sgn_slack = float(os.environ.get("C18_SIGN_SLACK") or 0.0) or (tol10 * 1.05 + 1e-13)
        for j in range(nq - 1):
            if alpha[j] < -sgn_slack:
                fail("fraction_sign", "%s: mixing fraction of solution %d is negative: %r" % (tag, numbers[j], alpha[j]))
            elif alpha[j] < -1e-12:
                ctx.event("sign_within_solver_tolerance")
        if abs(alpha[-1] - 1.0) > 1e-9:
            fail("fraction_final", "%s: fraction of the final solution is %r, not 1" % (tag, alpha[-1]))
        for j, (p, con, force) in enumerate(inv["phases"]):
            bad = -x[j] if con == "dis" else (x[j] if con == "pre" else 0.0)
            if bad > sgn_slack:
                fail("dissolve_only" if con == "dis" else "precipitate_only", "%s: %s-only phase %s has transfer %r" % (
                    tag, "dissolve" if con == "dis" else "precipitate", p, x[j]))
            elif bad > 1e-12:
                ctx.event("sign_within_solver_tolerance")
        # ---- (d) value inside its range
        if rng:
            # a phase / initial solution that is absent from the model (value 0, or |value| <= 1e-9 which the engine takes for 0) and
            # not forced into the range calculation takes no part in it: its reported interval must contain 0 (the engine reports
            # 0, 0).  F3 (too narrow intervals) concerns members of the model only, F2 leaves these entries untouched as well.
            fsol = inv["force_solutions"] or []
            for j in range(nq - 1):
                forced = fsol[min(j, len(fsol) - 1)] if fsol else False
                if abs(alpha[j]) <= 1.0000001e-9 and not forced and (amin[j] > 2 * tol10 or amax[j] < -2 * tol10):
                    fail("range_absent", "%s: solution %d is not in the model (fraction %r) but its reported range is [%r, %r]" % (
                        tag, numbers[j], alpha[j], amin[j], amax[j]))
            for j, (p, con, force) in enumerate(inv["phases"]):
                if abs(x[j]) <= 1.0000001e-9 and not force and (xmin[j] > 2 * tol10 or xmax[j] < -2 * tol10):
                    fail("range_absent", "%s: phase %s is not in the model (transfer %r) but its reported range is [%r, %r]" % (
                        tag, p, x[j], xmin[j], xmax[j]))
        if rng and range_failed and not strict:
            ctx.event("excluded:range_of_model_after_range_lp_failure")
        elif rng:
            items = [("fraction of solution %d" % numbers[j], alpha[j], amin[j], amax[j]) for j in range(nq)]
            items += [("transfer of %s" % phases[j], x[j], xmin[j], xmax[j]) for j in range(nph)]
            # Known finding F3: the range LPs of the pinned tree often stop at a vertex that is not optimal, without any notice
            # (independent check: HiGHS on the identical LP); a reported interval may then miss the model's own value or even be
            # inverted.  Single items are therefore counted, and the clause is asserted per model in its robust form: the ranges
            # of a model are wrong if MOST of its intervals are inverted / miss their value (what a wrong range computation does).
            n_items = n_bad = n_nd = 0
            first_bad = None
            for what, v, lo, hi in items:
                if max(abs(v), abs(lo), abs(hi)) >= 0.999 * rmax:
                    ctx.event("range_beyond_maximum")
                    continue
                if lo == 0.0 and hi == 0.0 and abs(v) <= 1.0000001e-9:
                    # the engine's comparisons take |x| <= 1e-9 for zero: such a phase / solution is "not in the model" and gets no range
                    if v != 0.0:
                        ctx.event("tiny_value_counted_as_zero")
                    continue
                if what.startswith("fraction of solution %d" % numbers[-1]):
                    continue          # the final solution: 1, 1, 1 by definition
                s = 1e-9 * max(abs(v), abs(lo), abs(hi)) + 2 * tol10
                ctx.event("range_items")
                n_items += 1
                inverted = lo > hi + s
                outside = v < lo - s or v > hi + s
                if inverted or outside or hi - lo > s:
                    n_nd += 1                   # an interval that is not a single point
                if inverted or outside:
                    n_bad += 1
                    if first_bad is None:
                        first_bad = "%s = %r, reported range [%r, %r]" % (what, v, lo, hi)
                    if strict:
                        fail("range_order" if inverted else "range", "%s: %s = %r lies outside its reported range [%r, %r]" % (tag, what, v, lo, hi))
                    ctx.event("known_F3:interval_inverted" if inverted else "known_F3:value_outside_reported_range")
            if n_bad:
                ctx.event("range_bad_intervals=%dof%d" % (n_bad, n_nd))
            if n_bad >= 3 and n_bad >= n_nd:
                fail("range_majority", "%s: %d of the %d reported proper intervals are inverted or miss the reported value, e.g. %s" % (
                    tag, n_bad, n_nd, first_bad))
        # ---- (a) necessary feasibility of every element balance (13-digit values, independent totals and stoichiometry)
        for e in E:
            vrows = chem.rows_of(e)
            terms = []
            bound = 0.0
            for q in range(nq):
                c = comps[q]
                t = c.get("m_" + e, 0.0) or 0.0
                sgn = 1.0 if q < nq - 1 else -1.0
                terms.append(sgn * alpha[q] * t)
                for vr in vrows:
                    tv = (c.get("m_" + vr, 0.0) or 0.0) if len(vrows) > 1 else t
                    bound += abs(alpha[q]) * limit(uncertainty(inv, vr, q), tv)
            for j in range(nph):
                cj = stoich[j].get(e, 0.0)
                if cj and x[j]:
                    terms.append(x[j] * cj)
            resid = math.fsum(terms)
            slack = 1e-9 * math.fsum(abs(t) for t in terms) + 2 * tol10 * (1 + nq * len(vrows))
            if abs(resid) > bound + slack:
                fail("element_balance",
                                "%s: %s balance: sum(alpha*T) + sum(x*c) - T_final = %.6e but the declared uncertainties allow at most %.6e "
                                "(+ slack %.1e); terms %r" % (tag, e, resid, bound, slack, terms))
        # ---- (a-water) hydrogen and oxygen are balanced as water: sum(alpha*W)/M_w + water of the phases = W_final/M_w
        #      (+- uncertainty_water); M_w is the formula weight of H2O from the element weights of the database text
        mw = chem.db.formula_weight("H2O") / 1000.0
        wt = []
        for q in range(nq):
            wt.append((1.0 if q < nq - 1 else -1.0) * alpha[q] * comps[q]["water"] / mw)
        if inv["mineral_water"] is not False:
            wt += [x[j] * chem.phase_h2o(phases[j]) for j in range(nph) if x[j]]
        resid = math.fsum(wt)
        slack = 1e-9 * math.fsum(abs(t) for t in wt) + 2 * tol10 + abs(inv["u_water"] or 0.0) * (1 + 1e-9)
        no_redox = printed is not None and not printed[mi]["redox"]      # redox transfers carry water of their own, not reported
        if no_redox and abs(resid) > slack and not strict and abs(resid) <= slack + 2e-4 * math.fsum(abs(t) for t in wt):
            # known finding F5: the water row (55 mol per kg) is where the solver's unverified equality residuals are largest
            ctx.event("known_F5:water_row_residual_below_2e-4_relative")
        elif no_redox and abs(resid) > slack:
            fail("water_balance", "%s: water balance (mol): terms %r: residual %.6e exceeds uncertainty_water + slack = %.3e" % (
                tag, wt, resid, slack))
        # ---- MaxFracErr (13 digits): the largest relative adjustment of a printed row cannot exceed the largest allowed one
        pm = printed[mi] if printed is not None else None
        if pm is not None:
            top = 0.0
            for q in range(nq):
                blk = pm["sol"].get(numbers[q])
                if blk is None or alpha[q] <= 0:
                    continue
                for row in blk:
                    if row == "pH":
                        continue
                    key = "alk" if row == "Alkalinity" else "m_" + row
                    t = abs(comps[q].get(key, 0.0) or 0.0)
                    if t <= 0.99e-14:
                        continue
                    lim = limit(uncertainty(inv, row, q), t)
                    if lim < toler * (1 - 1e-9):
                        continue          # "uncertainty limits less than tol are assumed to be zero"
                    top = max(top, (lim + 2.2 * tol10 / alpha[q]) / t)
            if r[2] > top * (1 + 1e-9) + 1e-12:
                fail("max_frac_err", "%s: MaxFracErr %r exceeds the largest adjustment the declared uncertainties allow, %r" % (tag, r[2], top))
        # ---- (b) printed tables
        if pm is not None:
            adjusted = 0
            for q in range(nq):
                blk = pm["sol"].get(numbers[q])
                if blk is None:
                    continue
                for row, (vi, vd, vs) in blk.items():
                    if row == "pH":
                        lim = ph_uncertainty(inv, q)
                        ref = comps[q]["pH"]
                    else:
                        key = "alk" if row == "Alkalinity" else "m_" + row
                        if key not in comps[q]:
                            continue
                        ref = comps[q][key] or 0.0
                        lim = limit(uncertainty(inv, row, q), ref)
                    if abs(vi - ref) > 1.1e-3 * abs(ref) + 2e-14:
                        fail("printed_input", "%s: solution %d row %s: printed Input %r but the solution holds %r" % (
                            tag, numbers[q], row, vi, ref))
                    if vd != 0.0:
                        adjusted += 1
                    sl = 1.1e-3 * abs(vd) + 1e-9 * lim + 2.2 * tol10 / max(alpha[q], 1e-300) + 1e-14
                    if abs(vd) > lim + sl:
                        fail("delta_limit", "%s: solution %d row %s: |Delta| = %r exceeds the declared uncertainty %r "
                                        "(Input %r, u %r)" % (tag, numbers[q], row, abs(vd), lim, vi,
                                                              ph_uncertainty(inv, q) if row == "pH" else uncertainty(inv, row, q)))
                    if abs(vi + vd - vs) > 1.1e-3 * (abs(vi) + abs(vd)) + 2e-14:
                        fail("printed_sum", "%s: solution %d row %s: %r + %r printed as %r" % (tag, numbers[q], row, vi, vd, vs))
            info["adjusted"] = max(info["adjusted"], adjusted)
            balance_rows = list(E)
            if not pm["redox"]:
                balance_rows.append("Alkalinity")
            for e in balance_rows:
                vrows = chem.rows_of(e) if e != "Alkalinity" else ["Alkalinity"]
                terms = []
                extra = 0.0
                usable = True
                for q in range(nq):
                    blk = pm["sol"].get(numbers[q])
                    sgn = 1.0 if q < nq - 1 else -1.0
                    if blk is None:
                        key = "alk" if e == "Alkalinity" else "m_" + e
                        extra += abs(alpha[q] * (comps[q].get(key, 0.0) or 0.0))
                        continue
                    for vr in vrows:
                        if vr not in blk:
                            usable = False
                            break
                        terms.append(sgn * alpha[q] * blk[vr][2])
                if not usable:
                    ctx.event("printed_row_missing")
                    continue
                for j in range(nph):
                    if not x[j]:
                        continue
                    cj = stoich[j].get(e, 0.0) if e != "Alkalinity" else chem.phase_alk(phases[j])
                    if cj:
                        terms.append(x[j] * cj)
                resid = math.fsum(terms)
                slack = 1.2e-3 * math.fsum(abs(t) for t in terms) + extra + 2 * tol10 * (1 + nq * len(vrows)) + 1e-13
                if abs(resid) > slack:
                    fail("printed_balance", "%s: printed Input+Delta rows of %s do not balance: residual %.4e, print-precision "
                                    "slack %.2e; terms %r" % (tag, e, resid, slack, terms))
            # valence-state rows with a redox transfer of their own (O(0), H(0), N(0), N(3), N(-3), S(-2), C(-4), Fe(3), ...):
            #   sum_q +-alpha_q (Input+Delta)_q,row + sum_p x_p * atoms_p,row = reported redox mole transfer of the row
            # atoms_p,row from the phase reaction as written in the text (N2(g), O2(g), H2(g): 2 atoms per mole)
            for e in sorted(set(E) | {"O", "H"}):
                for vr in chem.own_redox_rows(e):
                    terms = []
                    extra = 0.0
                    usable = True
                    for q in range(nq):
                        blk = pm["sol"].get(numbers[q])
                        if blk is None:
                            extra += abs(alpha[q] * (comps[q].get("m_" + vr, 0.0) or 0.0))
                            continue
                        if vr not in blk:
                            usable = False
                            break
                        terms.append((1.0 if q < nq - 1 else -1.0) * alpha[q] * blk[vr][2])
                    if not usable:
                        continue
                    try:
                        for j in range(nph):
                            if x[j]:
                                cj = chem.phase_rows(phases[j]).get(vr, 0.0)
                                if cj:
                                    terms.append(x[j] * cj)
                    except KeyError:
                        ctx.event("phase_rows_unknown_species")
                        continue
                    terms.append(-pm["redox"].get(vr, 0.0))
                    resid = math.fsum(terms)
                    slack = 1.2e-3 * math.fsum(abs(t) for t in terms) + extra + 2 * tol10 * (1 + nq) + 1e-9 + 1e-13
                    if abs(resid) > slack:
                        fail("valence_row_balance", "%s: row %s: sum(alpha*(Input+Delta)) + phase transfers - reported redox transfer = %.4e, "
                             "print-precision slack %.2e; terms %r" % (tag, vr, resid, slack, terms))
        nz = sum(1 for v in x if abs(v) > 0)
        info["max_transfers"] = max(info["max_transfers"], nz)
        if nz >= 2:
            info["nt"] = True
        hi_set = frozenset([("s", j) for j in range(nq - 1) if alpha[j] != 0.0] + [("p", j) for j in range(nph) if x[j] != 0.0])
        # "certainly non-zero": above the engine's zero test (1e-9) and above what the solver tolerance lets slip (10*tol per row)
        zthr = max(2.1e-9, 2.1 * tol10)
        lo_set = frozenset([("s", j) for j in range(nq - 1) if abs(alpha[j]) > zthr] + [("p", j) for j in range(nph) if abs(x[j]) > zthr])
        supports.append((hi_set, lo_set, tag, bool(pmx["lp_notice_before"]) if pmx is not None else bool(summary.get("cl1_notice") or summary.get("minwarn"))))
    # ---- (e) -minimal: no reported model strictly contains another one
    if inv["minimal"]:
        for a in range(len(supports)):
            for b in range(len(supports)):
                if a == b:
                    continue
                if supports[b][0] <= supports[a][1] and len(supports[a][1] - supports[b][0]) > 0:
                    if supports[a][3] and not bool(case.get("no_exclusions")):
                        # known finding F6: an LP was rejected for round-off ("CL1: Roundoff errors in optimization" printed earlier in
                        # the run); solve_inverse / minimal_solve take that for "infeasible", keep the mask in their list of infeasible
                        # sets and treat every subset of it as infeasible too
                        ctx.event("known_F6:not_minimal_after_lp_roundoff_notice")
                        continue
                    fail("minimal", "with -minimal, %s strictly contains %s" % (supports[a][2], supports[b][2]))
    return info


# ------------------------------------------------------------------------------------------------ one case
def table_rows(I):
    I.set_current(1)
    T = I.table()
    return T.dicts() if T.rows > 1 else []


def composition(d):
    c = {}
    for k, v in d.items():
        if k in ("water", "pH", "pe", "tc", "alk") or k.startswith("m_"):
            c[k] = v if isinstance(v, (int, float)) else 0.0
    return c


def error_kind(err):
    e = err.strip().split("\n")[0] if err.strip() else "rc"
    e = re.sub(r"[-+]?\d+\.?\d*([eE][-+]?\d+)?", "#", e)
    return e[:70]


def execute(case, ctx):
    """runs the forward simulation and the inverse calculation; -> dict(text_a, text_b, comps, numbers, out, so, warn)"""
    sd = ctx.scratch_dir()
    os.chdir(sd)
    chem = Chem(case)
    db = chem.db
    names = G.punch_names(case, db) + ["O(0)", "H(0)"]
    I = lib.fresh(case["db"])
    try:
        for n in (1, 2):
            I.set_current(n)
            I.seti("SetSelectedOutputStringOn", 1)
            I.seti("SetSelectedOutputFileOn", 0)
        I.set_current(2)
        I.seti("SetOutputStringOn", 1)
        I.seti("SetOutputFileOn", 0)
        text_a = G.render_forward(case, names)
        rc = I.run_string(text_a)
        if rc != 0:
            ctx.event("discard:forward:" + error_kind(I.errors()))
            raise Discard("forward_error")
        rows = table_rows(I)
        k = len(case["sols"])
        if len(rows) != k + 1:
            raise Discard("forward_rows")
        comp_true = [composition(d) for d in rows]       # k initial waters, then the final water
        numbers = [s["number"] for s in case["sols"]] + [G.FINAL]
        comps = list(comp_true)
        # perturbed analyses: the water is defined again, explicitly, with the changed totals
        aq = [(e, G.AQ[e][0]) for e in sorted(G.AQ)] + [(e, n) for e, n in sorted(case.get("extra_aq", {}).items())]
        pert = {}
        for p in case["perturb"]:
            pert.setdefault(p["sol"], {})[p["el"]] = 1.0 + p["rel"]
        text_b = []
        redefined = []
        for q in sorted(pert):
            if not any(comp_true[q].get("m_" + e, 0.0) for e in pert[q]):
                continue
            num = 20 + q
            text_b.append(G.render_explicit(num, comp_true[q], aq, pert[q]))
            redefined.append(q)
            numbers[q] = num
        if text_b:
            text_b.append("END")
        text_b = "\n".join(text_b) + ("\n" if text_b else "") + G.render_inverse(case, numbers)
        rc = I.run_string(text_b)
        if rc != 0:
            kind = error_kind(I.errors())
            ctx.event("discard:inverse:" + kind)
            raise Discard("inverse_error")
        if redefined:
            rows_b = table_rows(I)
            if len(rows_b) != len(redefined):
                raise Discard("redefinition_rows")
            for q, d in zip(redefined, rows_b):
                comps[q] = composition(d)
        out = I.output()
        I.set_current(2)
        so = I.gets("GetSelectedOutputString")
        warn = I.warnings()
    finally:
        I.close()
    return {"text_a": text_a, "text_b": text_b, "comps": comps, "numbers": numbers, "out": out, "so": so, "warn": warn, "chem": chem}


def reformulate(case, variant):
    """the same inverse problem written differently (1: phases listed in reverse order;  2: every amount scaled by 1.7 - water masses,
    reactant moles, absolute uncertainties - and the phase list rotated) or a neighbouring problem (3, 4: relative uncertainties
    1.3 % wider / narrower).  Used to tell a reproducible violation from a sporadic failure of the LP solver."""
    import copy
    c = copy.deepcopy(case)
    inv = c["inv"]
    if variant == 1:
        inv["phases"] = list(reversed(inv["phases"]))
        return c
    if variant in (3, 4):
        # a neighbouring problem: every relative uncertainty 1.3 % wider / narrower (a model that exists only on the razor edge of
        # feasibility - where the solver returns infeasible points as optimal, F5 - does not survive both)
        g = 1.013 if variant == 3 else 0.987
        sc = lambda u: float("%.12g" % (u * g)) if u > 0 else u
        inv["unc"] = [sc(u) for u in inv["unc"]] if inv["unc"] else [sc(0.05)]
        inv["balances"] = [[b, [sc(u) for u in us]] for b, us in inv["balances"]]
        if not any(b == "pH" and us for b, us in inv["balances"]):
            inv["balances"].append(["pH", [sc(0.05)]])
        return c
    f = 1.7
    k = (len(inv["phases"]) + 1) // 2
    inv["phases"] = inv["phases"][k:] + inv["phases"][:k]
    for sol in c["sols"]:
        sol["water"] = float("%.12g" % (sol.get("water", 1.0) * f))
    c["rxn"] = [[r, float("%.12g" % (a * f))] for r, a in c["rxn"]]
    c["eq"] = [[p, si, float("%.12g" % (m * f))] for p, si, m in c["eq"]]
    inv["unc"] = [u if u >= 0 else float("%.12g" % (u * f)) for u in inv["unc"]]
    inv["balances"] = [[b, [u if (u >= 0 or b == "pH") else float("%.12g" % (u * f)) for u in us]] for b, us in inv["balances"]]
    if inv["u_water"]:
        inv["u_water"] = float("%.12g" % (inv["u_water"] * f))
    return c


CONFIRM = set((os.environ.get("C18_CONFIRM") or "element_balance printed_balance valence_row_balance delta_limit max_frac_err water_balance range_majority").split())


def check_case(case, ctx):
    strict = bool(case.get("no_exclusions")) or bool(os.environ.get("C18_NO_CONFIRM"))
    try:
        return check_once(case, ctx, True)
    except Violation as v:
        if strict or v.oracle not in CONFIRM:
            raise
        # clauses that known finding F5 can break (cl1 returns a point that violates its own rows as "optimal", typically on the
        # razor edge of feasibility): such a violation counts only if it is reproducible - it does not survive a reformulation of
        # the same problem or a 1.3 % change of the uncertainty limits, a wrong set-up does
        for variant in (1, 2, 3, 4):
            try:
                check_once(reformulate(case, variant), ctx, False)
            except Violation:
                continue
            except Discard:
                pass
            ctx.event("not_reproduced_under_reformulation:" + v.oracle)
            return {"nontrivial": False, "classes": ["sporadic_solver_failure"]}
        raise


def check_once(case, ctx, first):
    X = execute(case, ctx)
    comps, numbers, out, so, warn, chem = X["comps"], X["numbers"], X["out"], X["so"], X["warn"], X["chem"]
    heads, mrows = parse_models_so(so)
    printed, summary = parse_models_out(out)
    inv = case["inv"]
    toler = inv["tolerance"] if inv["tolerance"] is not None else 1e-10
    classes = ["solutions=%d" % len(numbers), "phases=%s" % bucket(len(inv["phases"]), [2, 4, 6, 9]),
               "range=%s" % ("no" if inv["range"] is None else "yes"), "minimal=%s" % inv["minimal"],
               "perturb=%s" % case["meta"].get("perturb", "?")]
    cons = [p[1] for p in inv["phases"]]
    classes.append("constraints=%s" % ("none" if not any(cons) else "some"))
    true = case["meta"].get("true", {})
    bad = 0
    for p, con, _ in inv["phases"]:
        a = true.get(p)
        if con and a is not None and ((con == "dis") != (a > 0)):
            bad += 1
    if bad:
        classes.append("constraint_contradicts_truth")
    classes.append("decoys=%s" % bucket(sum(1 for p in inv["phases"] if p[0] not in true), [0, 1, 3, 5]))
    if case["meta"].get("dropped_true"):
        classes.append("true_phase_missing")
    if case.get("eq"):
        classes.append("forward_equilibrium_phases")
    if case.get("user_phases"):
        classes.append("user_phases")
    if any(p[2] for p in inv["phases"]) or inv["force_solutions"]:
        classes.append("force")
    if inv["tolerance"] is not None:
        classes.append("tolerance_set")
    classes.append("uncertainty=%s" % case["meta"].get("umode", "?"))
    if case["meta"].get("flavour"):
        classes.append("flavour=%s" % case["meta"]["flavour"])
    if "Roundoff errors in minimal calculation" in warn:
        classes.append("warning_roundoff_minimal")
    if summary.get("range_error"):
        classes.append("range_lp_failed")
    if summary.get("cl1_notice"):
        classes.append("lp_failure_notice")
    if heads is None:
        # no heading line: the inverse calculation did not run
        raise Discard("no_inverse_heading")
    classes.append("models=%s" % bucket(len(mrows), [0, 1, 2, 4, 8]))
    if "found" in summary and summary["found"] != len(mrows):
        raise Discard("layout_model_count")       # how many rows there are is C05's subject, not C18's
    if len(printed) != len(mrows):
        classes.append("tables_unpaired")
        printed = None
    info = verify(case, comps, numbers, heads, mrows, printed, summary, toler, chem, ctx if first else _Quiet(ctx))
    if mrows:
        classes.append("verified_models=%s" % bucket(info["verified"], [0, 1, 2, 4, 8]))
        classes.append("max_transfers=%s" % bucket(info["max_transfers"], [0, 1, 2, 4, 6]))
        classes.append("adjusted_rows=%s" % bucket(info["adjusted"], [0, 1, 3, 6]))
    return {"nontrivial": info["nt"], "classes": classes}


class _Quiet(object):
    """context of a confirmation run: events are not counted twice"""

    def __init__(self, ctx):
        self.extra = ctx.extra

    def event(self, name, n=1):
        pass


def bucket(n, edges):
    """label n by the last edge <= n: bucket(5, [0,1,3]) -> '3+'... ; exact for the edges themselves when adjacent"""
    lab = None
    for i, e in enumerate(edges):
        if n >= e:
            nxt = edges[i + 1] if i + 1 < len(edges) else None
            lab = str(e) if nxt == e + 1 else ("%d-%d" % (e, nxt - 1) if nxt is not None else "%d+" % e)
    return lab if lab is not None else "<%d" % edges[0]


def run(ctx):
    n = BUDGET[ctx.tier]
    ctx.hyp(G.problem(), lambda c: check_case(c, ctx), n, "fwd")
