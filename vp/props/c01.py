"""C01 - speciation results satisfy the database's equilibrium and balance equations.

Oracle = independent evaluation of the database *text* (vp/dbparse.py, vp/formula.py); one clause per sentence of the property:
  mass_action        every aqueous species' equation as written in the database, with a Python log K(T) (1e-9 log units)
  lk_species/lk_phase  LK_SPECIES / LK_PHASE read-outs = that Python log K(T)
  element_total, charge_balance, ionic_strength, alkalinity
                     sums over the reported species distribution = every reported value (BASIC read-out and built-in column), rel 1e-7
  pH, la_lm_lg, mol_lm, saturation_index, saturation_ratio, builtin_vs_basic, readout
                     pH = -LA(H+), LA = LM + LG, MOL = 10^LM, SI = sum(nu*LA) - log K(T), SR = 10^SI, -molalities/-activities/
                     -saturation_indices columns = BASIC read-outs
Nothing else is asserted (in particular not the relation between the SOLUTION input and the totals: unit conversion is C15's).
"""
import math, re, hashlib, os
from hypothesis import strategies as st
from .. import lib, chemgen as cg, dbparse, formula as F
from ..core import Violation, Discard

ID = "C01"
LEVEL = "exploration"
RULE = ("Hypothesis-generated initial solutions on a shipped ion-association database (1-8 elements of that database, "
        "log-uniform 1e-9..3 molal, pH 2-12 or charge, pe inside the water stability field, 0-100 C (LLNL grid respected), -water, "
        "18 unit spellings, as/gfw, charge- and phase-adjusted elements, valence-specific totals, -redox couples), in half of the "
        "cases a second simulation (REACTION, EQUILIBRIUM_PHASES, MIX with a second solution, REACTION_TEMPERATURE), in a quarter "
        "of the cases database additions (SOLUTION_SPECIES / PHASES blocks in the run input after LoadDatabase, or as a correction "
        "block at the end of the database text via LoadDatabaseString) that re-define 1-3 existing species and 0-2 phases with the "
        "same reaction and a new constant (log_k alone, log_k + delta_h with unit, a new analytical expression; i.e. also dropping "
        "an analytical expression / delta_h the database had) and add a brand-new ion pair / salt phase; the oracle reads database "
        "text + additions in order with the same independent parser; 1 atm; a "
        "generated USER_PUNCH reads LA/LM/LG/MOL/LK_SPECIES of every species of the database whose elements are present and "
        "SI/SR/LK_PHASE of <= 40 phases; every selected-output row (= one solution calculation) is checked. Thorough adds four "
        "more databases (Thermoddem, Kinec_v3, sit, pitzer) and a deterministic sweep that puts every species of 17 databases "
        "into a solution. Non-trivial = >=3 elements besides H/O, >=10 mass-action equations evaluated, and (T != 25 C or a "
        "non-default unit / charge / phase-adjusted / valence-specific / redox-couple option or a reacted state); distinct by "
        "SHA-256 of the case")
ASSUMPTIONS = ["vp/dbparse.py + vp/formula.py read the database text as the PHREEQC manual defines it (databases with parse "
               "problems are refused; per-database sweep coverage is reported)",
               "log K(T) at 1 atm: analytic expression if any coefficient is non-zero, else van 't Hoff with R = 8.31470 J/mol/K, "
               "Tref = 298.15 K, 1 cal = 4.184 J, delta_h default unit kJ; add_logk adds coef * named expression",
               "LA(\"H2O\") and LA(\"e-\") are read from the engine (activity of water, -pe)",
               "initial solutions with valence-specific totals or -redox couples are deliberately not in redox equilibrium: "
               "equations with an electron carrier (e-, O2, H2) or a species defined through one are skipped for those elements (counted)",
               "species reported with LA = -99.99 are not part of the model (read-out convention); MOL below 1e-38 counts as zero",
               "database text with two readings is accepted under either: (a) a species that is master species of an element line "
               "AND of a valence line that list different alkalinities (only minteq.dat: 'Fe Fe+3 0' / 'Fe(+3) Fe+3 -2'). The "
               "PHREEQC-2 manual (SOLUTION_MASTER_SPECIES p.154-155: 'alkalinity -- alkalinity contribution of the master species; "
               "the contribution of non-master species will be calculated from the alkalinities assigned to the master species'; "
               "p.24-25: reference state 'for each element or element valence state', species alkalinity 'from the association "
               "reaction and the alkalinity contributions of the master species') does not say which of two conflicting lines "
               "applies; the PHREEQC-3 manual file in /repo/doc is empty. The tree uses the valence line (calc_alk: secondary "
               "first); a change of that choice is therefore not detectable from the statement. (b) unbalanced -no_check species "
               "without -mole_balance (minteq.v4.dat polysulfides)",
               "excluded and counted: H/O totals of an initial solution that enters a minor isotope of H/O (iso.dat ISOTOPES layer "
               "re-labels them after the speciation); total of an element that is foreign to a master species (Thermoddem CN- as N(-5)); "
               "states with a species above 1000 mol/kgw (discarded)",
               "a later definition of a species / phase replaces the earlier one completely (structures.cpp s_store/phase_store "
               "re-initialise; manual: input definitions supersede the database); re-definitions only change constants, and no "
               "C01 clause depends on -gamma/-Vm/-dw, so the reset-to-default of those options is not asserted either way",
               "only 1 atm (molar-volume terms vanish)"]
TECHNIQUE = "property-based testing (Hypothesis) against an independent reference evaluation of the database text"
LEVEL_TEXT = ("Exploration: thousands of generated solutions per run on 10 (thorough: 14) databases; every mass-action equation, "
              "log K, balance sum and read-out relation of every species present is re-evaluated in Python from the database text. "
              "A deterministic sweep (thorough) covers every species of 17 databases at least once. Not a proof: temperatures, "
              "compositions and reaction steps are sampled.")
FLOORS = {"quick": 300, "thorough": 3000}
SHARDS = {"quick": 8, "thorough": 16}
BUDGET = {"quick": 800, "thorough": 4000, "replay": 1}

# database -> sampling weight
DATABASES = [("phreeqc.dat", 5), ("wateq4f.dat", 3), ("minteq.v4.dat", 2), ("minteq.dat", 2), ("Amm.dat", 2), ("llnl.dat", 2),
             ("core10.dat", 2), ("Tipping_Hurley.dat", 1), ("phreeqc_rates.dat", 1), ("iso.dat", 1)]
# thorough tier only (Pitzer / SIT files: the mass-action, balance and read-out clauses do not depend on the activity model)
THOROUGH_EXTRA = [("PHREEQC_ThermoddemV1.10_15Dec2020.dat", 2), ("Kinec_v3.dat", 1), ("sit.dat", 1), ("pitzer.dat", 1)]
SWEEP_DATABASES = [d for d, _ in DATABASES] + [d for d, _ in THOROUGH_EXTRA] + ["Kinec.v2.dat", "frezchem.dat", "ColdChem.dat"]
MAX_SPECIES = 400
MAX_PHASES = 40
ABSENT = -99.99
# sensitivity experiments only: VERIF_C01_OFF=lk_species,lk_phase switches the named oracle clauses off, to see whether the
# remaining clauses (e.g. mass action alone) still detect a seeded mutant.  Never set in a normal run (recorded in the evidence).
_OFF = {x for x in os.environ.get("VERIF_C01_OFF", "").split(",") if x}
TOL_MA = 1e-9
TOL_REL = 1e-7

UNITS = ["mol/kgw", "mmol/kgw", "umol/kgw", "mg/kgw", "ug/kgw", "g/kgw", "ppm", "ppb", "ppt", "mol/kgs", "mmol/kgs", "mg/kgs",
         "mol/L", "mmol/L", "umol/L", "mg/L", "ug/L", "g/L"]
CHARGE_ELEMENTS = ["Na", "K", "Li", "Cl", "Br", "Ca", "Mg", "Sr", "Ba"]
REACTANTS = ["NaCl", "KCl", "CaCl2", "MgCl2", "HCl", "NaOH", "KOH", "Na2SO4", "CaSO4", "NaHCO3", "CO2", "NaNO3", "H2SO4",
             "CaCO3", "FeCl2", "FeCl3", "O2", "CH2O", "NaF", "NaBr", "NH3", "H2S", "Na2S", "ZnCl2", "CuSO4", "Ca(OH)2"]


def prepare(tier):
    lib.build("rel", ["libiphreeqc_rel.so"])


# ----------------------------------------------------------------------------------------------- database views
_INFO = {}


class DbInfo(object):
    """what generator and oracle need to know about a database (all from the independent parser)"""

    def __init__(self, name, additions=None):
        db = dbparse.load(name)
        if additions:
            # definitions that reach the engine after the database text (run input or correction block): read by the same
            # independent parser as a continuation of the database text; a later definition replaces the earlier one completely
            db = dbparse.parse_text(additions, name + "+additions", base=db)
        if db.problems:
            raise RuntimeError("database %s not read completely: %r" % (name, db.problems[:3]))
        self.db = db
        self.name = name
        self.hplus = db.master["H"].species
        self.eminus = db.master["E"].species
        self.water = db.master["O"].species
        self.o2 = db.master["O(0)"].species if "O(0)" in db.master else None
        self.h2 = db.master["H(0)"].species if "H(0)" in db.master else None
        self.carriers = {x for x in (self.eminus, self.o2, self.h2) if x}
        # species that are NOT master species but are defined (directly or through other such species) by an equation with an
        # electron carrier, e.g. minteq.dat "SeO4-2 + 2e- + 3H+ = HSeO3- + H2O" and everything built from HSeO3-: in a
        # redox-decoupled initial solution their activities carry the pe of one particular couple, like an electron carrier
        masters = set(db.master_of_species)
        self.redox_derived = set()
        grown = True
        while grown:
            grown = False
            for s in db.species.values():
                if s.name in masters or s.name in self.redox_derived:
                    continue
                if any(n != s.name and (n in self.carriers or n in self.redox_derived) for _, n in s.reaction):
                    self.redox_derived.add(s.name)
                    grown = True
        skip = {"H", "O", "E", "Alkalinity"}
        # elements that can be entered as totals; an element needs its master species defined as an aqueous species
        self.totals = [m.element for m in db.master.values()
                       if m.primary and m.element not in skip and m.species in db.species and m.gfw]
        self.valence = [m.element for m in db.master.values()
                        if not m.primary and m.element not in ("H(1)", "O(-2)") and m.species in db.species and m.gfw
                        and (m.base in self.totals or m.base in ("H", "O"))]
        self.master_charge = {}
        for e in self.totals + self.valence:
            self.master_charge[e] = db.species[db.master[e].species].charge
        # usable species / phases: every participant is a defined aqueous species
        self.usable = {}
        for s in db.species.values():
            if all(n in db.species for _, n in s.reaction) and "add_constant" not in s.options:
                self.usable[s.name] = s
        self.usable_phases = {}
        for p in db.phases.values():
            if p.formula and all(n in db.species for _, n in p.reaction):
                self.usable_phases[p.name] = p
        # alkalinity per mole of species.  Where one species is master species of a primary AND a secondary entry that list
        # different alkalinities (minteq.dat: "Fe Fe+3 0" / "Fe(+3) Fe+3 -2") the database text has two readings; the format
        # description does not say which line counts, so the oracle accepts the sum under either reading.
        self.alk = self._alkalinities("secondary")
        alt = self._alkalinities("primary")
        self.alk_alt = alt if alt != self.alk else None
        # ISOTOPES block: the engine re-labels part of total H / O of an INITIAL solution as minor isotopes after the speciation
        # (only when a minor isotope of H or O - D, T, [18O] in iso.dat - is among the entered constituents)
        self.ho_isotopes = {dbparse.base_element(i) for e, L in db.isotopes.items() if dbparse.base_element(e) in ("H", "O") for i in L}
        # stoichiometry: -mole_balance formula if given, else the formula in the species name.  For a -no_check species whose
        # equation is not balanced and that has no -mole_balance (10 polysulfide species of minteq.v4.dat) the text has two
        # readings ("stoichiometry from the chemical equation" vs. the name); the oracle accepts the sum under either.
        self.alt_elements = self._alt_stoichiometry()
        # known finding (tidy.cpp tidy_species: "next_secondary[j].coef /= master_ptr->coef" is applied again at every re-tidy):
        # a SOLUTION_SPECIES / PHASES / ... block in a RUN input makes the engine tidy the species a second time, which divides
        # the -mole_balance coefficients once more by the number of atoms in the element's master species (iso.dat: D -> D2O,
        # T -> T2O).  Databases with such species get their additions only as a correction block in the database text.
        self.retidy_sensitive = False
        for tab in (db.species, db.exchange_species, db.surface_species):
            for sp in tab.values():
                for k in (sp.mb_elements or {}):
                    m = db.master.get(k) or db.master.get(dbparse.base_element(k))
                    if m is not None and m.species in db.species:
                        if abs(db.species[m.species].elements.get(m.base, 1.0) - 1.0) > 1e-9:
                            self.retidy_sensitive = True
        # master species that contain an element other than their own (+H, O): Thermoddem "N(-5) CN-", iso.dat "[15N](0) N[15N]".
        # The engine books such a species (and everything built from it) under its own element only, so species with the
        # foreign element exist although that element was never entered and its reported total does not count them: the
        # oracle observes these species too (closure) and does not assert the foreign element's total (counted).
        self.foreign = {}
        for m in db.master.values():
            if m.element in ("E", "Alkalinity") or m.species not in db.species:
                continue
            extra = set(db.species[m.species].elements) - {m.base, "H", "O", "e"}
            if extra and m.base not in ("H", "O"):
                self.foreign.setdefault(m.base, set()).update(extra)
        self.coefs = {}
        self.coefs_alt = {}
        for s in db.species.values():
            for e, c in s.elements.items():
                self.coefs.setdefault(e, []).append((s.name, c))
            for e, c in self.alt_elements.get(s.name, s.elements).items():
                self.coefs_alt.setdefault(e, []).append((s.name, c))
        self.by_element = {e: [n for n, _ in L] for e, L in self.coefs.items()}

    def _alt_stoichiometry(self):
        db = self.db
        alt = {}
        for _ in range(6):
            changed = False
            for s in db.species.values():
                if s.mole_balance is not None or s.is_identity:
                    continue
                cself = sum(c for c, n in s.reaction if n == s.name)
                if cself == 0:
                    continue
                acc = {}
                ok = True
                for c, n in s.reaction:
                    if n == s.name:
                        continue
                    if n in alt:
                        els = alt[n]
                    elif n in db.species:
                        els = db.species[n].elements
                    else:
                        try:
                            els = F.elements(n)
                        except F.FormulaError:
                            ok = False
                            break
                    F.add(acc, els, -c / cself)
                if not ok:
                    continue
                acc = {e: v for e, v in acc.items() if e != "e" and abs(v) > 1e-9}
                name_els = {e: v for e, v in s.elements.items() if e != "e" and abs(v) > 1e-9}
                same = set(acc) == set(name_els) and all(abs(acc[e] - name_els[e]) < 1e-9 for e in acc)
                if not same and alt.get(s.name) != acc:
                    alt[s.name] = acc
                    changed = True
            if not changed:
                break
        return alt

    def _alkalinities(self, prefer):
        """alkalinity per mole of each species: master species as listed, others through the reactions as written"""
        db = self.db
        alk = {}
        for sp, ms in db.master_of_species.items():
            # the 'Alkalinity' pseudo element is not a mole-balance entry
            ms = [m for m in ms if m.element != "Alkalinity"]
            if not ms:
                continue
            alk[sp] = ms[-1].alk
            pick = [m for m in ms if m.primary == (prefer == "primary")]
            if pick:
                alk[sp] = pick[-1].alk
        state = {}

        def get(name, depth=0):
            if name in alk:
                return alk[name]
            if name in state or depth > 50:
                return None
            state[name] = 1
            s = db.species.get(name)
            if s is None:
                return None
            tot = 0.0
            cself = 0.0
            for c, n in s.reaction:
                if n == name:
                    cself += c
                    continue
                a = get(n, depth + 1)
                if a is None:
                    return None
                tot -= c * a
            if cself == 0:
                return None
            alk[name] = tot / cself
            return alk[name]

        for n in list(db.species):
            get(n)
        return alk

    def species_for(self, elements):
        ok = set(elements) | {"H", "O", "e"}
        return [s.name for s in self.db.species.values() if set(s.elements) <= ok]

    def phases_for(self, elements):
        ok = set(elements) | {"H", "O", "e"}
        out = []
        for p in self.usable_phases.values():
            try:
                els = set(p.elements)
            except F.FormulaError:
                continue
            if els <= ok and (els - {"H", "O"}):
                out.append(p.name)
        return out


def info(name):
    if name not in _INFO:
        _INFO[name] = DbInfo(name)
    return _INFO[name]


_INFO_ADD = {}


def info_for(case):
    """database view the oracle uses for a case: database text + the case's additions / re-definitions, in order"""
    d = case.get("defs")
    if not d:
        return info(case["db"])
    key = (case["db"], d["text"])
    if key not in _INFO_ADD:
        if len(_INFO_ADD) > 32:
            _INFO_ADD.clear()
        _INFO_ADD[key] = DbInfo(case["db"], d["text"])
    return _INFO_ADD[key]


# ----------------------------------------------------------------------------------------------- units
def unit_parts(u):
    """'mg/L' -> (scale to mol or g, is_mass, denominator)"""
    u = u.lower()
    if u in ("ppm", "ppb", "ppt"):
        return {"ppt": 1.0, "ppm": 1e-3, "ppb": 1e-6}[u], True, "kgs"
    num, den = u.split("/")
    pref = {"": 1.0, "m": 1e-3, "u": 1e-6}
    if num.endswith("mol"):
        return pref[num[:-3]], False, den
    if num.endswith("g"):
        return pref[num[:-1]], True, den
    raise ValueError(u)


def comp_gfw(inf, c):
    """gram formula weight PHREEQC's input format prescribes for a concentration entry: `as formula`, `gfw x`, else the master's"""
    if c.get("as"):
        return inf.db.formula_weight(c["as"])
    if c.get("gfw"):
        return c["gfw"]
    return inf.db.gfw(c["el"])


def expected_molalities(inf, sol):
    """molality (mol/kgw) each entered concentration stands for: {index: molality}"""
    n = []
    grams = 0.0
    dens = set()
    for c in sol["comps"]:
        scale, is_mass, den = unit_parts(c.get("unit") or sol["units"])
        g = comp_gfw(inf, c)
        moles = c["value"] * scale / g if is_mass else c["value"] * scale
        n.append(moles)
        grams += moles * g
        dens.add(den)
    den = unit_parts(sol["units"])[2]
    if den == "kgw":
        mw = 1.0
    elif den == "kgs":
        mw = 1.0 - grams / 1000.0
    else:
        mw = sol.get("density", 1.0) - grams / 1000.0
    return [x / mw for x in n], mw


# ----------------------------------------------------------------------------------------------- generator
def _r(x, d=5):
    return float("%.*g" % (d, x))


def temperature_st(inf, with_25=True):
    """0..100 C; LLNL-type databases stop with an error outside their LLNL_AQUEOUS_MODEL_PARAMETERS grid (trap iii)"""
    lo, hi = 0.0, 100.0
    if inf.db.llnl and inf.db.llnl["temperatures"]:
        lo, hi = max(lo, min(inf.db.llnl["temperatures"])), min(hi, max(inf.db.llnl["temperatures"]))
    t = cg.uni(lo, hi, 3).map(lambda x: min(max(x, lo), hi))
    return st.one_of(st.just(25.0), t, t) if with_25 else t


@st.composite
def solution_st(draw, inf, number, elements=None, max_el=8):
    db = inf.db
    # --- elements
    pool = inf.totals if elements is None else elements
    hi = min(max_el, len(pool))
    n = draw(st.integers(1, hi))          # the number of elements is drawn first so that all sizes are equally likely
    els = draw(st.lists(st.sampled_from(pool), min_size=n, max_size=hi, unique=True))
    # keep the number of punched species bounded (construction, not rejection)
    while len(els) > 1 and len(inf.species_for(els)) > MAX_SPECIES:
        els = els[:-1]
    temp = draw(temperature_st(inf))
    pH = draw(cg.uni(2.0, 12.0, 3))
    pe = _r(draw(cg.uni(1.5, 15.5, 3)) - pH, 4)
    units = draw(st.one_of(st.just("mol/kgw"), st.sampled_from(UNITS)))
    sol = {"number": number, "temp": temp, "pH": pH, "pe": pe, "units": units, "comps": []}
    den = unit_parts(units)[2]
    if den == "L" and draw(st.booleans()):
        sol["density"] = draw(cg.uni(0.98, 1.25, 4))
    if draw(st.integers(0, 3)) == 0:
        sol["water"] = draw(cg.logu(0.05, 20.0, 3))
    # --- concentrations: one "salinity level" per solution, elements spread below it
    top = draw(st.floats(-6.0, 0.5))
    valence_mode = draw(st.integers(0, 5)) == 0
    grams_per_kg = 0.0
    for e in els:
        labels = [e]
        if valence_mode:
            vs = [v for v in inf.valence if db.master[v].base == e]
            if vs and draw(st.booleans()):
                labels = draw(st.lists(st.sampled_from(vs), min_size=1, max_size=2, unique=True))
        for lab in labels:
            lg = draw(st.floats(-9.0, top))
            m = 10 ** lg
            c = {"el": lab}
            u = units
            if draw(st.integers(0, 5)) == 0:
                same = [x for x in UNITS if unit_parts(x)[2] == den]
                u = draw(st.sampled_from(same))
                c["unit"] = u
            scale, is_mass, _ = unit_parts(u)
            if is_mass:
                k = draw(st.integers(0, 5))
                if k == 0:
                    # "as <formula>": the master species' formula without charge, or the gfw formula of the master entry
                    cand = [F.split_charge(db.master[lab].species)[0]]
                    if db.master[lab].gfw_formula:
                        cand.append(db.master[lab].gfw_formula)
                    cand = [x for x in cand if _weighable(inf, x, db.master[lab].base)]
                    if cand:
                        c["as"] = draw(st.sampled_from(cand))
                elif k == 1:
                    c["gfw"] = draw(cg.uni(5.0, 300.0, 5))
            g = comp_gfw(inf, c)
            val = m * g / scale if is_mass else m / scale
            c["value"] = _r(val, 5)
            grams_per_kg += m * g
            sol["comps"].append(c)
    # the per-kg-solution / per-litre units need water to remain: cap the dissolved mass at 300 g per kg
    if den != "kgw" and grams_per_kg > 300.0:
        f = 300.0 / grams_per_kg
        for c in sol["comps"]:
            c["value"] = _r(c["value"] * f, 5)
    if valence_mode and draw(st.booleans()):
        # O(0)/H(0) as dissolved gases
        for lab in ("O(0)", "H(0)"):
            if lab in inf.valence and draw(st.integers(0, 3)) == 0:
                sol["comps"].append({"el": lab, "value": _r(10 ** draw(st.floats(-9.0, -3.3)), 4), "unit": "mol/" + den})
    # --- -redox couple (needs both states entered)
    if valence_mode:
        labs = [c["el"] for c in sol["comps"]]
        for b in sorted({db.master[x].base for x in labs if x in inf.valence}):
            vs = [x for x in labs if x in inf.valence and db.master[x].base == b]
            if len(vs) == 2 and draw(st.booleans()):
                sol["redox"] = "%s/%s" % (vs[0], vs[1])
                break
    # --- adjustments
    mol = expected_molalities(inf, sol)[0]
    k = draw(st.integers(0, 9))
    if k <= 1:
        # charge on a simple ion whose amount has to be raised
        imb = sum(inf.master_charge.get(c["el"], 0.0) * m for c, m in zip(sol["comps"], mol)) + 10 ** -pH - 10 ** (pH - 14.0)
        for c in sol["comps"]:
            z = inf.master_charge.get(c["el"], 0.0)
            if c["el"] in CHARGE_ELEMENTS and z != 0 and imb * z < 0 and abs(imb) > 1e-7:
                c["adj"] = "charge"
                break
    elif k == 2:
        imb = sum(inf.master_charge.get(c["el"], 0.0) * m for c, m in zip(sol["comps"], mol))
        if abs(imb) < 1e-3 and not any(inf.master_charge.get(c["el"], 0.0) == 0 and m > 1e-3 for c, m in zip(sol["comps"], mol)):
            sol["pH_opt"] = "charge"
            # the final pH is not known in advance: keep pe inside the water stability field for every pH in 2..14
            sol["pe"] = min(max(sol["pe"], 0.0), 6.0)
    elif k in (3, 4) and len(els) >= 2 and not any(c["el"] in inf.valence for c in sol["comps"]):
        # phase-adjusted element: a phase made of the chosen elements that contains it
        ph = inf.phases_for(els)
        cands = []
        for c in sol["comps"]:
            if c["el"] in inf.totals:
                cands += [(c["el"], p) for p in ph if c["el"] in inf.usable_phases[p].elements and len(set(inf.usable_phases[p].elements) - {"H", "O"}) >= 2]
        if cands:
            e, p = draw(st.sampled_from(sorted(cands)))
            for c in sol["comps"]:
                if c["el"] == e:
                    c["adj"] = "%s %s" % (p, cg.fmt(draw(st.sampled_from([0.0, -1.0, -0.5, 0.3]))))
                    break
    return sol


def _weighable(inf, formula, base):
    try:
        els = F.elements(formula)
        return base in els and inf.db.formula_weight(formula) > 0
    except (KeyError, F.FormulaError):
        return False


# ---- database additions / re-definitions (SOLUTION_SPECIES and PHASES given after the database text)
DH_UNITS = [None, "kJ", "kcal", "kJ/mol", "kcal/mol", "joules", "cal"]


def _side(terms):
    out = []
    for k, (c, n) in enumerate(terms):
        coef = "" if abs(c) == 1 else "%s " % cg.fmt(abs(c)) if abs(c) != int(abs(c)) else "%d " % abs(c)
        op = ("- " if c < 0 else "") if k == 0 else ("- " if c < 0 else "+ ")
        out.append(op + coef + n)
    return " ".join(out)


def equation_text(lhs, rhs):
    return _side(lhs) + " = " + _side(rhs)


@st.composite
def logk_lines_st(draw, logk25):
    """option lines that give a definition its constant: log_k [+ delta_h with unit] | new analytical expression [+ log_k]"""
    L = []
    kind = draw(st.sampled_from(["logk", "logk+dh", "logk+dh", "analytic", "analytic+logk"]))
    lk = _r(logk25, 6)
    if kind in ("logk", "logk+dh", "analytic+logk"):
        L.append(" log_k %s" % cg.fmt(lk if kind != "analytic+logk" else _r(lk + 1.5, 6)))
    if kind == "logk+dh":
        unit = draw(st.sampled_from(DH_UNITS))
        kj = draw(cg.uni(-80.0, 80.0, 4))
        v = kj
        if unit and not unit.lower().startswith("k"):
            v = v * 1000.0
        if unit and "c" in unit.lower():
            v = v / 4.184
        L.append(" delta_h %s%s" % (cg.fmt(_r(v, 6)), " " + unit if unit else ""))
    if kind.startswith("analytic"):
        T = 298.15
        a2 = draw(st.sampled_from([0.0, 0.0, 1.0])) * draw(cg.uni(-0.02, 0.02, 3))
        a3 = draw(cg.uni(-3000.0, 3000.0, 4))
        a4 = draw(st.sampled_from([0.0, 1.0])) * draw(cg.uni(-10.0, 10.0, 3))
        a5 = draw(st.sampled_from([0.0, 0.0, 1.0])) * draw(cg.uni(-2e5, 2e5, 3))
        a6 = draw(st.sampled_from([0.0, 0.0, 0.0, 1.0])) * draw(cg.uni(-1e-5, 1e-5, 3))
        a1 = _r(lk - (a2 * T + a3 / T + a4 * math.log10(T) + a5 / (T * T) + a6 * T * T), 8)
        A = [a1, a2, a3, a4, a5, a6]
        while len(A) > 1 and A[-1] == 0.0:
            A.pop()
        L.append(" -analytical_expression " + " ".join(cg.fmt(x) for x in A))
    return L


def _plain(sp):
    return (not sp.is_identity and sp.mole_balance is None and not sp.no_check and not getattr(sp, "activity_water", False)
            and not getattr(sp, "co2_llnl_gamma", False) and "add_constant" not in sp.options
            and all(c > 0 for c, _ in sp.lhs + sp.rhs))


@st.composite
def defs_st(draw, inf, base_els):
    """-> dict(mode, text, phases, redefined, new) or None.  Re-definitions keep the reaction of the database and give a new
    constant; what a re-definition does not restate falls back to the defaults (the later definition replaces the earlier one
    completely).  Only constants are re-defined: nothing the C01 clauses read depends on -gamma/-Vm/-dw of the old definition."""
    db = inf.db
    sp_lines, ph_lines, phases, redefined, new = [], [], [], [], []
    masters = set(db.master_of_species)
    cand = [n for n in inf.species_for(base_els) if n in inf.usable and n not in masters and _plain(db.species[n])
            and n not in (inf.water, inf.eminus)]
    if cand:
        weighted = sorted(cand) + [n for n in sorted(cand) if db.species[n].uses_analytic() or db.species[n].add_logk] * 3
        for n in draw(st.lists(st.sampled_from(weighted), min_size=1, max_size=3, unique=True)):
            sp = db.species[n]
            sp_lines.append(equation_text(sp.lhs, sp.rhs))
            sp_lines += draw(logk_lines_st(sp.logk(298.15, db) + draw(cg.uni(-2.0, 2.0, 3))))
            if sp.gamma is not None and draw(st.booleans()):
                sp_lines.append(" -gamma %s %s" % (cg.fmt(sp.gamma[0]), cg.fmt(sp.gamma[1])))
            elif sp.llnl_gamma is not None and draw(st.booleans()):
                sp_lines.append(" -llnl_gamma %s" % cg.fmt(sp.llnl_gamma))
            redefined.append(n)
    # a brand-new ion pair of two master species of the chosen elements, and a brand-new salt phase
    cats, ans = [], []
    for e in base_els:
        m = db.master.get(e)
        if m is None or m.species not in db.species:
            continue
        body, z = F.split_charge(m.species)
        if z != int(z):
            continue
        if z > 0 and body == e:
            cats.append((m.species, body, z))
        elif z < 0 and "(" not in body and "[" not in body:
            ans.append((m.species, body, z))
    pairs = []
    for c in cats:
        for a in ans:
            name = F.canonical(c[1] + a[1] + ("%+g" % (c[2] + a[2]) if c[2] + a[2] else ""))
            try:
                ok = F.elements(name) == F.add(dict(F.elements(c[0])), F.elements(a[0]))
            except F.FormulaError:
                ok = False
            if ok and name not in db.species and c[1] + a[1] not in db.species:
                pairs.append((c[0], a[0], name, c[1] + a[1], c[2], a[2]))
    if pairs and draw(st.integers(0, 3)) > 0:
        c, a, name, salt, zc, za = draw(st.sampled_from(sorted(pairs)))
        if draw(st.booleans()):
            sp_lines.append("%s + %s = %s" % (c, a, name))
            sp_lines += draw(logk_lines_st(draw(cg.uni(-1.0, 2.5, 3))))
            new.append(name)
        if draw(st.booleans()):
            # neutral salt: |za| cations + zc anions
            nc, na = int(abs(za)), int(zc)
            g = math.gcd(nc, na)
            nc, na = nc // g, na // g
            cb, ab = F.split_charge(c)[0], F.split_charge(a)[0]
            formula = cb + (str(nc) if nc > 1 else "") + (("(%s)%d" % (ab, na)) if na > 1 else ab)
            pname = "C01new_" + re.sub(r"[^A-Za-z0-9]", "_", formula)
            if pname.lower() not in db.phase_ci:
                ph_lines.append(pname)
                ph_lines.append(" %s = %s%s + %s%s" % (formula, "%d " % nc if nc > 1 else "", c, "%d " % na if na > 1 else "", a))
                ph_lines += ["  " + x.strip() for x in draw(logk_lines_st(draw(cg.uni(-6.0, 2.0, 3))))]
                phases.append(pname)
                new.append(pname)
    pc = [p for p in sorted(inf.phases_for(base_els)) if inf.usable_phases[p].t_c is None and "add_constant" not in inf.usable_phases[p].options
          and all(c > 0 for c, _ in inf.usable_phases[p].lhs + inf.usable_phases[p].rhs) and len(inf.usable_phases[p].lhs) >= 1]
    if pc and draw(st.booleans()):
        wp = pc + [p for p in pc if inf.usable_phases[p].uses_analytic() or inf.usable_phases[p].add_logk] * 3
        for p in draw(st.lists(st.sampled_from(wp), min_size=1, max_size=2, unique=True)):
            ph = inf.usable_phases[p]
            ph_lines.append(p)
            ph_lines.append(" " + equation_text(ph.lhs, ph.rhs))
            ph_lines += ["  " + x.strip() for x in draw(logk_lines_st(ph.logk(298.15, db) + draw(cg.uni(-2.0, 2.0, 3))))]
            phases.append(p)
            redefined.append(p)
    if not sp_lines and not ph_lines:
        return None
    text = ""
    if sp_lines:
        text += "SOLUTION_SPECIES\n" + "\n".join(sp_lines) + "\n"
    if ph_lines:
        text += "PHASES\n" + "\n".join(ph_lines) + "\n"
    mode = draw(st.sampled_from(["input", "input", "dbstring"]))
    if inf.retidy_sensitive:
        if database_text(inf.name)[1]:
            return None                   # (no shipped database gets here)
        mode = "dbstring"                 # excluded by construction: blocks in the run input (known finding, see DbInfo)
    return {"mode": mode, "text": text, "phases": phases, "redefined": redefined, "new": new}


@st.composite
def case_st(draw, databases=None):
    names = [d for d, w in (databases or DATABASES) for _ in range(w)]
    dbn = draw(st.sampled_from(names))
    inf = info(dbn)
    sol1 = draw(solution_st(inf, 1))
    case = {"db": dbn, "sols": [sol1], "react": [], "pseed": draw(st.integers(0, 10 ** 6))}
    base_els = sorted({inf.db.master[c["el"]].base for c in sol1["comps"]} - {"H", "O"})
    if draw(st.integers(0, 3)) == 0:
        d = draw(defs_st(inf, base_els))
        if d:
            case["defs"] = d
    k = draw(st.integers(0, 9))
    if k >= 5:
        return case
    # ---- second simulation: reacted solutions
    kinds = draw(st.lists(st.sampled_from(["reaction", "eqphases", "mix", "temp"]), min_size=1, max_size=2, unique=True))
    for kind in kinds:
        if kind == "mix":
            sub = [e for e in inf.totals if e in base_els] or base_els
            pool = sorted(set(sub) | set(draw(st.lists(st.sampled_from(inf.totals), max_size=2))))
            sol2 = draw(solution_st(inf, 2, elements=pool, max_el=4))
            for c in sol2["comps"]:
                c.pop("adj", None)
            sol2.pop("pH_opt", None)
            case["sols"].append(sol2)
            case["react"].append({"kind": "mix", "f": [draw(cg.uni(0.05, 2.0, 3)), draw(cg.uni(0.05, 2.0, 3))]})
        elif kind == "reaction":
            ok = [r for r in REACTANTS if all(e in inf.db.master for e in F.elements(r))]
            if not ok:
                continue
            r = draw(st.sampled_from(ok))
            case["react"].append({"kind": "reaction", "formula": r, "moles": draw(cg.logu(1e-7, 3e-2, 3)),
                                  "steps": draw(st.integers(1, 3))})
        elif kind == "eqphases":
            ph = sorted(inf.phases_for(base_els))
            if not ph:
                continue
            chosen = draw(st.lists(st.sampled_from(ph), min_size=1, max_size=2, unique=True))
            case["react"].append({"kind": "eqphases", "phases": [[p, draw(st.sampled_from([0.0, 0.0, -1.0, -2.5, 0.5])),
                                                                  draw(st.sampled_from([0.0, 1e-5, 1e-3, 10.0]))] for p in chosen]})
        else:
            case["react"].append({"kind": "temp", "temp": draw(temperature_st(inf, False))})
    return case


# ----------------------------------------------------------------------------------------------- rendering
def render_solution(sol):
    L = ["SOLUTION %d" % sol["number"], " temp %s" % cg.fmt(sol["temp"]),
         " pH %s%s" % (cg.fmt(sol["pH"]), " " + sol["pH_opt"] if sol.get("pH_opt") else ""), " pe %s" % cg.fmt(sol["pe"])]
    if sol.get("redox"):
        L.append(" redox %s" % sol["redox"])
    L.append(" units %s" % sol["units"])
    if sol.get("density"):
        L.append(" density %s" % cg.fmt(sol["density"]))
    for c in sol["comps"]:
        t = " %s %s" % (c["el"], cg.fmt(c["value"]))
        if c.get("unit"):
            t += " " + c["unit"]
        if c.get("as"):
            t += " as " + c["as"]
        if c.get("gfw"):
            t += " gfw %s" % cg.fmt(c["gfw"])
        if c.get("adj"):
            t += " " + c["adj"]
        L.append(t)
    if sol.get("water"):
        L.append(" -water %s" % cg.fmt(sol["water"]))
    return "\n".join(L)


def case_elements(inf, case):
    """-> (elements whose species are observed, subset that is only there as 'foreign' element of a master species)"""
    els = set()
    for sol in case["sols"]:
        for c in sol["comps"]:
            els.add(inf.db.master[c["el"]].base)
            if c.get("as"):
                els |= set(F.elements(c["as"]))
            if c.get("adj") and c["adj"] != "charge":
                els |= set(inf.usable_phases[c["adj"].split()[0]].elements)
    for r in case["react"]:
        if r["kind"] == "reaction":
            els |= set(F.elements(r["formula"]))
        elif r["kind"] == "eqphases":
            for p, _, _ in r["phases"]:
                els |= set(inf.usable_phases[p].elements)
    foreign = set()
    for _ in range(3):
        for b in sorted(els):
            foreign |= inf.foreign.get(b, set())
        els |= foreign
    return sorted(els - {"H", "O", "e"}), sorted(foreign - {"H", "O", "e"})


def build_input(inf, case):
    """-> (input text, keys) where keys[i] names the i-th USER_PUNCH value"""
    els, foreign = case_elements(inf, case)
    species = inf.species_for(els)
    phases = sorted(inf.phases_for(els))
    if len(phases) > MAX_PHASES:
        # deterministic sub-sample controlled by the case
        h = case.get("pseed", 0)
        phases = sorted(phases, key=lambda p: hashlib.sha256(("%d:%s" % (h, p)).encode()).hexdigest())[:MAX_PHASES]
        phases.sort()
    # phases named in the case are always observed
    for p in (case.get("defs") or {}).get("phases", []):
        if p not in phases and p in inf.usable_phases:
            phases.append(p)
    for sol in case["sols"]:
        for c in sol["comps"]:
            if c.get("adj") and c["adj"] != "charge" and c["adj"].split()[0] not in phases:
                phases.append(c["adj"].split()[0])
    for r in case["react"]:
        if r["kind"] == "eqphases":
            for p, _, _ in r["phases"]:
                if p not in phases:
                    phases.append(p)
    items = [("TC", "TC"), ("TK", "TK"), ("MU", "MU"), ("ALK", "ALK"), ("CB", "CHARGE_BALANCE"), ("KGW", 'TOT("water")'),
             ("LAW", 'LA("%s")' % inf.water), ("LAE", 'LA("%s")' % inf.eminus), ("SIM", "SIM_NO"), ("STEP", "STEP_NO")]
    for e in ["H", "O"] + els:
        items.append(("TOT:" + e, 'TOT("%s")' % e))
    for s in species:
        for f in ("LA", "LM", "LG", "MOL", "LK_SPECIES"):
            items.append(("%s:%s" % (f, s), '%s("%s")' % (f, s)))
    for p in phases:
        for f in ("SI", "SR", "LK_PHASE"):
            items.append(("%s:%s" % (f, p), '%s("%s")' % (f, p)))
    P = [("KNOBS" if case.get("default_knobs") else cg.KNOBS_TIGHT) + "\n -logfile true"]       # the log names basis switches and iteration counts (see stale_rows)
    if additions_in_input(case):
        P.append(case["defs"]["text"])           # delivery in the run input, after LoadDatabase and before the solutions
    for sol in case["sols"]:
        P.append(render_solution(sol))
    # built-in columns: the print.cpp read-out path
    sub_s = [s for s in species if s not in (inf.water, inf.eminus)][:: max(1, len(species) // 8)][:8]
    sub_p = phases[:: max(1, len(phases) // 6)][:6]
    so = ["SELECTED_OUTPUT 1", " -reset false", " -state true", " -pH true", " -pe true", " -temperature true", " -alkalinity true",
          " -ionic_strength true", " -water true", " -charge_balance true"]
    if not case.get("default_knobs"):
        so.append(" -high_precision true")       # (also lowers the engine's convergence tolerance to 1e-12)
    if els:
        so.append(" -totals " + " ".join(els))
    if sub_s:
        so.append(" -molalities " + " ".join(sub_s))
        so.append(" -activities " + " ".join(sub_s))
    if sub_p:
        so.append(" -saturation_indices " + " ".join(sub_p))
    P.append("\n".join(so))
    up = ["USER_PUNCH 1", " -headings " + " ".join("u%d" % i for i in range(len(items))), " -start"]
    ln = 10
    for i in range(0, len(items), 8):
        up.append(" %d PUNCH %s" % (ln, ", ".join(x[1] for x in items[i:i + 8])))
        ln += 10
    up.append(" -end")
    P.append("\n".join(up))
    P.append("END")
    if case["react"]:
        Q = []
        if not any(r["kind"] == "mix" for r in case["react"]):
            Q.append("USE solution 1")
        for r in case["react"]:
            if r["kind"] == "mix":
                Q.append("MIX 1\n 1 %s\n 2 %s" % (cg.fmt(r["f"][0]), cg.fmt(r["f"][1])))
            elif r["kind"] == "reaction":
                Q.append("REACTION 1\n %s 1\n %s moles in %d steps" % (r["formula"], cg.fmt(r["moles"]), r["steps"]))
            elif r["kind"] == "eqphases":
                Q.append("EQUILIBRIUM_PHASES 1\n" + "\n".join(" %s %s %s" % (p, cg.fmt(si), cg.fmt(am)) for p, si, am in r["phases"]))
            elif r["kind"] == "temp":
                Q.append("REACTION_TEMPERATURE 1\n %s" % cg.fmt(r["temp"]))
        Q.append("END")
        P.append("\n".join(Q))
    return "\n".join(P) + "\n", items, {"elements": els, "foreign": foreign, "species": species, "phases": phases, "sub_s": sub_s, "sub_p": sub_p}


# ----------------------------------------------------------------------------------------------- oracle
def close(a, b, rel, floor=0.0, abs_=0.0):
    return abs(a - b) <= rel * max(abs(a), abs(b), floor) + abs_


def is_absent(x):
    return x is None or abs(x - ABSENT) < 1e-9 or x <= -999.0


def decoupling(inf, sol):
    """-> (global_couple: bool, set of base elements entered by valence state)"""
    D = set()
    for c in sol["comps"]:
        if c["el"] in inf.valence:
            D.add(inf.db.master[c["el"]].base)
    return bool(sol.get("redox")), D


def redox_skip(inf, terms, glob, D, defined=None):
    """True if the as-written equation cannot be expected to hold in a redox-decoupled initial solution"""
    names = [n for _, n in terms]
    has_carrier = any(n in inf.carriers or n in inf.redox_derived for n in names)
    if defined is not None and defined in inf.db.master_of_species and (glob or D):
        # the equation DEFINES the master species of a valence state from other species (core10.dat: "2H+ + 2SO3-2 = S2O5-2 + H2O"
        # with S2O5-2 = S(+5)): it couples two separately entered mole balances even when no electron is written
        bases = {m.base for m in inf.db.master_of_species[defined]}
        if glob or bases & D:
            return True
    if not has_carrier:
        return False
    if glob:
        return True
    if not D:
        return False
    if "O" in D and inf.o2 in names:
        return True
    if "H" in D and inf.h2 in names:
        return True
    for n in names:
        if n in inf.carriers or n in (inf.water, inf.hplus):
            continue
        if set(inf.db.species[n].elements) & (D - {"O", "H"}):
            return True
    return False


_DBTEXT = {}


def database_text(name):
    """database file text up to (not including) its first END line: the engine stops reading a database there"""
    if name not in _DBTEXT:
        import os as _os
        with open(_os.path.join(lib.DBDIR, name), "rb") as f:
            t = f.read().decode("latin-1")
        m = re.search(r"^[ \t]*END[ \t]*\r?$", t, re.M | re.I)
        _DBTEXT[name] = (t[:m.start()] if m else t, "INCLUDE$" in t.upper())
    return _DBTEXT[name]


def load_instance(case):
    d = case.get("defs")
    if d and d.get("mode") == "dbstring":
        text, has_include = database_text(case["db"])
        if not has_include:
            # delivery as a correction block at the end of the database text (LoadDatabaseString)
            I = lib.Inst("rel")
            rc = I.load_db_string(text + "\n" + d["text"] + "\nEND\n")
            if rc != 0:
                err = I.errors()
                I.close()
                raise RuntimeError("LoadDatabaseString(%s + additions) failed: %s" % (case["db"], err[:300]))
            return I
    return lib.fresh(case["db"])


def additions_in_input(case):
    d = case.get("defs")
    if not d:
        return False
    return not (d.get("mode") == "dbstring" and not database_text(case["db"])[1])


_BLOCK = re.compile(r"^(Initial solution \d+\.|Reaction step \d+\.)", re.M)
_EVENT = re.compile(r"Switching bases to .*?Iteration (\d+)|Number of iterations: (\d+)")


def stale_rows(log):
    """one flag per calculation (log blocks 'Initial solution n.' / 'Reaction step k.', same order as the selected-output rows):
    True if the engine's log shows that the accepted model() call did no Newton iteration at all or switched bases in its last
    iteration, i.e. convergence was declared on the state left by revise_guesses() (whose last step renews the activity
    coefficients but not the molalities) without a further Newton iteration (known finding, see final report).
    None if the log cannot be read that way."""
    if not log:
        return None
    parts = _BLOCK.split(log)
    flags = []
    for k in range(2, len(parts), 2):
        last_switch = None
        flag = False
        seen_n = False
        for m in _EVENT.finditer(parts[k]):
            if m.group(1) is not None:
                last_switch = int(m.group(1))
            else:
                n = int(m.group(2))
                flag = n == 0 or (last_switch is not None and last_switch == n)     # the last model() call counts
                last_switch = None
                seen_n = True
        if not seen_n:
            return None
        flags.append(flag)
    return flags


def check_case(case, ctx):
    inf = info_for(case)
    db = inf.db
    if inf.retidy_sensitive and additions_in_input(case) and not case.get("assert_retidy"):
        raise Discard("excluded:additions_in_run_input_on_retidy_sensitive_database")      # never generated
    text, items, meta = build_input(inf, case)
    try:
        I = load_instance(case)
    except RuntimeError as e:
        # a database the tree cannot load: no calculation completes -> outside the property's domain (never on the unchanged tree)
        if "LoadDatabase" not in str(e):
            raise
        raise Discard("database_load_error:" + case["db"])
    try:
        I.seti("SetLogStringOn", 1)
        rc = I.run_string(text)
        if rc != 0 or I.errors().strip():
            err = I.errors().strip().split("\n")[0][:60]
            raise Discard("run_error:" + re.sub(r"[0-9.eE+-]+", "#", err)[:48])
        T = I.table(1)
        log = I.log()
    finally:
        I.close()
    stale = stale_rows(log)
    nsol = len(case["sols"])
    if T.rows < 1 + nsol:
        # not a statement of the property: a harness expectation (one row per initial solution)
        raise RuntimeError("expected at least %d data rows, table has %d" % (nsol, T.rows - 1))
    head = T.cells[0]
    col = {}
    for j, h in enumerate(head):
        col.setdefault(h, j)
    ucol = [col.get("u%d" % i) for i in range(len(items))]
    if any(u is None for u in ucol):
        raise RuntimeError("USER_PUNCH column missing in the table")
    stats = {"eq": 0, "redox_skipped": 0, "absent": 0, "bal": 0, "phases": 0, "worst": 0.0}
    classes = set()
    for r in range(1, T.rows):
        row = T.cells[r]
        v = {}
        for (key, _), j in zip(items, ucol):
            v[key] = row[j]
        state = row[col["state"]] if "state" in col else None
        initial = r <= nsol
        if initial and state != "i_soln" or (not initial and state != "react"):
            raise RuntimeError("row %d has state %r" % (r, state))
        sol = case["sols"][r - 1] if initial else None
        if not case.get("assert_after_basis_switch") and (stale is None or (len(stale) == T.rows - 1 and stale[r - 1])
                                                          or (len(stale) != T.rows - 1 and any(stale))):
            # known finding: the state was accepted right after a basis switch (activity coefficients newer than molalities)
            stats["stale_excluded"] = stats.get("stale_excluded", 0) + 1
            continue
        check_row(inf, case, sol, v, row, col, meta, stats, "row %d (%s)" % (r, state))
    nel = len(meta["elements"])
    opts = []
    s1 = case["sols"][0]
    if any(s["temp"] != 25.0 for s in case["sols"]):
        opts.append("T!=25")
    if any(s["units"] != "mol/kgw" or any(c.get("unit") or c.get("as") or c.get("gfw") for c in s["comps"]) for s in case["sols"]):
        opts.append("units")
    if any(c.get("adj") == "charge" for s in case["sols"] for c in s["comps"]) or any(s.get("pH_opt") for s in case["sols"]):
        opts.append("charge")
    if any(c.get("adj") and c["adj"] != "charge" for s in case["sols"] for c in s["comps"]):
        opts.append("phase_adjusted")
    if any(c["el"] in inf.valence for s in case["sols"] for c in s["comps"]):
        opts.append("valence")
    if any(s.get("redox") for s in case["sols"]):
        opts.append("redox_couple")
    for rr in case["react"]:
        opts.append("react:" + rr["kind"])
    if case.get("defs"):
        dd = case["defs"]
        opts.append("defs:" + ("correction_block_in_database_text" if not additions_in_input(case) else "blocks_in_run_input"))
        if dd.get("redefined"):
            opts.append("defs:redefinition")
            base = info(case["db"])
            if any((base.db.species.get(n) or base.db.phase(n)).uses_analytic() and not (db.species.get(n) or db.phase(n)).uses_analytic()
                   for n in dd["redefined"]):
                opts.append("defs:redefinition_drops_analytic_expression")
        if dd.get("new"):
            opts.append("defs:new_species_or_phase")
        if inf.retidy_sensitive:
            opts.append("defs:correction_block_only(run-input_blocks_excluded:re-tidy_known_finding)")
    nt = nel >= 3 and stats["eq"] >= 10 and bool(opts)
    classes = ["db=" + case["db"], "elements=%d" % min(nel, 9)] + ["opt=" + o for o in opts]
    if stats["redox_skipped"]:
        classes.append("redox_equations_skipped")
    if stats.get("stale_excluded"):
        classes.append("excluded:row_accepted_right_after_basis_switch(known_finding)")
    if stats.get("foreign_total_excluded"):
        classes.append("excluded:total_of_element_foreign_to_a_master_species")
    if stats.get("isotope_HO_excluded"):
        classes.append("excluded:isotope_layer_H_O_totals_of_initial_solution")
    if _OFF:
        classes.append("SENSITIVITY-RUN:clauses_off=" + "+".join(sorted(_OFF)))
    if stats.get("two_readings_stoich"):
        classes.append("two_readings:element_sum_of_unbalanced_no_check_species_differs(either_accepted)")
    if stats.get("two_readings_alk"):
        classes.append("two_readings:alkalinity_sum_differs_by_master_line(minteq.dat_Fe(3),either_accepted)")
    if case["db"] == "minteq.dat" and "Fe" in meta["elements"]:
        classes.append("minteq.dat+Fe(alkalinity_clause_evaluated)" if stats.get("alk_checked") else "minteq.dat+Fe")
    if stats.get("alk_unknown"):
        classes.append("alkalinity_factor_unknown(sum_skipped)")
    ctx.extra["mass_action_equations"] = ctx.extra.get("mass_action_equations", 0) + stats["eq"]
    ctx.extra["redox_equations_skipped"] = ctx.extra.get("redox_equations_skipped", 0) + stats["redox_skipped"]
    ctx.extra["balance_sums"] = ctx.extra.get("balance_sums", 0) + stats["bal"]
    ctx.extra["phase_checks"] = ctx.extra.get("phase_checks", 0) + stats["phases"]
    w = ctx.extra.get("worst_mass_action_residual", [0.0])
    ctx.extra["worst_mass_action_residual"] = [max(w[0], stats["worst"])]
    seen = stats.get("seen")
    if seen is not None and case.get("kind") == "sweep":
        ctx.extra.setdefault("sweep_seen:" + case["db"], []).extend(sorted(seen))
    return {"nontrivial": nt, "classes": classes}


def _reported(col, row, names):
    """values of the built-in selected-output columns whose heading is one of `names` (with or without unit suffix)"""
    out = []
    for n in names:
        for suf in ("", "(mol/kgw)", "(eq/kgw)", "(eq)", "(C)"):
            j = col.get(n + suf)
            if j is not None and isinstance(row[j], (int, float)):
                out.append(("column %s%s" % (n, suf), float(row[j])))
                break
    return out


def check_row(inf, case, sol, v, row, col, meta, stats, where):
    """the oracle on one selected-output row (= one solution calculation); sol = the SOLUTION dict for initial solutions"""
    db = inf.db
    TK = v["TK"]
    if not (isinstance(TK, float) and 272.0 < TK < 380.0):
        raise RuntimeError("%s: TK = %r" % (where, TK))          # harness expectation, not a property statement
    glob, D = decoupling(inf, sol) if sol is not None else (False, set())
    la = {}
    for s in meta["species"]:
        x = v["LA:" + s]
        if not isinstance(x, (int, float)) or x != x:
            raise RuntimeError("%s: LA(%s) = %r" % (where, s, x))
        la[s] = float(x)
    la[inf.eminus] = float(v["LAE"])
    la[inf.water] = float(v["LAW"])
    present = {s for s in meta["species"] if not is_absent(la[s])}
    # the quantifier is over concentrations up to several molal: a state with a species above 1000 mol/kgw (only reachable with
    # a pe far outside the stability field of water, e.g. from a -redox couple) is outside it; the engine clamps such moles
    for s in present:
        if s not in (inf.water, inf.eminus) and isinstance(v["LM:" + s], float) and v["LM:" + s] > 3.0:
            raise Discard("unphysical_state:species_above_1000_molal")
    seen = stats.setdefault("seen", set())
    # ---- (1) mass action as written with the Python log K(T); (2) LK_SPECIES read-out = Python log K(T)
    for s in meta["species"]:
        sp = inf.usable.get(s)
        if sp is None:
            continue
        lk_py = sp.logk(TK, db)
        lk_en = v["LK_SPECIES:" + s]
        if "lk_species" not in _OFF and not close(lk_py, lk_en, 1e-13, abs_=TOL_MA):
            raise Violation("lk_species", "%s: LK_SPECIES(%s) = %r, database text gives %r at %r K (line %s of %s)"
                            % (where, s, lk_en, lk_py, TK, sp.line, case["db"]))
        if sp.is_identity:
            if s in present:
                seen.add(s)
            continue
        terms = sp.reaction
        if any(n not in la for _, n in terms):
            stats["absent"] += 1
            continue
        if any(n not in present and n not in (inf.eminus, inf.water) for _, n in terms):
            stats["absent"] += 1
            continue
        if sol is not None and redox_skip(inf, terms, glob, D, defined=s):
            stats["redox_skipped"] += 1
            continue
        tot = sum(c * la[n] for c, n in terms)
        scale = sum(abs(c * la[n]) for c, n in terms)
        res = tot - lk_py
        stats["eq"] += 1
        seen.add(s)
        stats["worst"] = max(stats["worst"], abs(res))
        if abs(res) > TOL_MA + 1e-14 * scale:
            raise Violation("mass_action", "%s: %s (line %s of %s): sum(nu*LA) = %r, log K(%.6g K) = %r, residual %.3e; "
                            "terms %r" % (where, s, sp.line, case["db"], tot, TK, lk_py, res,
                                          [(c, n, la[n]) for c, n in terms]))
    # ---- (4) read-outs of each species: log a = log m + log gamma, MOL = 10^LM, built-in columns = BASIC read-outs
    kgw = v["KGW"]
    mol = {}
    for s in meta["species"]:
        m = v["MOL:" + s]
        lm, lg = v["LM:" + s], v["LG:" + s]
        mol[s] = float(m)
        if s not in present:
            # documented read-out convention for species outside the model: LA -99.99, MOL 1e-99 (= zero)
            if m > 1e-90:
                raise Violation("readout", "%s: %s is reported absent (LA -99.99) but MOL = %r" % (where, s, m))
            mol[s] = 0.0
            continue
        if s in (inf.water, inf.eminus) or (s in db.species and db.species[s].activity_water):
            continue
        if not close(la[s], lm + lg, 0.0, abs_=1e-9):
            raise Violation("la_lm_lg", "%s: LA(%s) = %r but LM + LG = %r + %r" % (where, s, la[s], lm, lg))
        if -300 < lm < 300:
            if not close(m, 10.0 ** lm, TOL_REL, abs_=1e-38):
                raise Violation("mol_lm", "%s: MOL(%s) = %r but 10^LM = %r" % (where, s, m, 10.0 ** lm))
    for s in meta["sub_s"]:
        for lab, x in _reported(col, row, ["m_" + s]):
            if not close(x, mol[s], TOL_REL, abs_=1e-38):
                raise Violation("builtin_vs_basic", "%s: -molalities %s = %r, MOL = %r" % (where, s, x, mol[s]))
        for lab, x in _reported(col, row, ["la_" + s]):
            if s in present and not close(x, la[s], 0.0, abs_=1e-9):
                raise Violation("builtin_vs_basic", "%s: -activities %s = %r, LA = %r" % (where, s, x, la[s]))
    if inf.hplus in la:
        for lab, x in _reported(col, row, ["pH"]):
            if not close(x, -la[inf.hplus], 0.0, abs_=1e-9):
                raise Violation("pH", "%s: pH column %r, -LA(%s) = %r" % (where, x, inf.hplus, -la[inf.hplus]))
    # ---- (3) balances: sums over the species distribution = every reported value (BASIC read-out and built-in column)
    iso_skip = (sol is not None and not case.get("assert_isotope_HO")
                and any(db.master[c["el"]].base in inf.ho_isotopes for c in sol["comps"]))
    for e in ["H", "O"] + meta["elements"]:
        if e in ("H", "O") and iso_skip:
            stats["isotope_HO_excluded"] = stats.get("isotope_HO_excluded", 0) + 1
            continue
        if e in meta["foreign"] and not case.get("assert_foreign_totals"):
            stats["foreign_total_excluded"] = stats.get("foreign_total_excluded", 0) + 1
            continue
        sums = []
        for table in (inf.coefs, inf.coefs_alt) if inf.alt_elements else (inf.coefs,):
            ssum = sabs = 0.0
            for s, c in table.get(e, []):
                if s in mol:
                    ssum += c * mol[s]
                    sabs += abs(c * mol[s])
            sums.append((ssum, sabs))
        rep = [('TOT("%s")' % e, v["TOT:" + e])]
        if e not in ("H", "O"):
            rep += _reported(col, row, [e])
        for lab, tot in rep:
            if not any(close(ssum, tot, TOL_REL, floor=1e-30, abs_=1e-16 * sabs) for ssum, sabs in sums):
                raise Violation("element_total", "%s: sum over species of %s = %r, %s = %r"
                                % (where, e, sums[0][0] if len(sums) == 1 else [x[0] for x in sums], lab, tot))
        if len(sums) > 1 and not close(sums[0][0], sums[1][0], TOL_REL, floor=1e-30):
            stats["two_readings_stoich"] = stats.get("two_readings_stoich", 0) + 1
        stats["bal"] += 1
    zsum = sum(db.species[s].charge * mol[s] for s in meta["species"])
    zabs = sum(abs(db.species[s].charge * mol[s]) for s in meta["species"])
    for lab, cb in [("CHARGE_BALANCE", v["CB"])] + _reported(col, row, ["charge"]):
        if not close(zsum * kgw, cb, 0.0, abs_=TOL_REL * zabs * kgw + 1e-15):
            raise Violation("charge_balance", "%s: kgw*sum(z*MOL) = %r, %s = %r (sum|z m| = %r)" % (where, zsum * kgw, lab, cb, zabs * kgw))
    mu = 0.5 * sum(db.species[s].charge ** 2 * mol[s] for s in meta["species"])
    for lab, x in [("MU", v["MU"])] + _reported(col, row, ["mu"]):
        if not close(mu, x, TOL_REL, abs_=1e-15):
            raise Violation("ionic_strength", "%s: 0.5*sum(z^2*MOL) = %r, %s = %r" % (where, mu, lab, x))
    stats["bal"] += 2
    asums = []
    for table in (inf.alk, inf.alk_alt) if inf.alk_alt else (inf.alk,):
        asum = aabs = 0.0
        for s in meta["species"]:
            if mol[s] == 0:
                continue
            a = table.get(s)
            if a is None:
                asums = None
                break
            asum += a * mol[s]
            aabs += abs(a * mol[s])
        if asums is None:
            break
        asums.append((asum, aabs))
    if asums:
        for lab, x in [("ALK", v["ALK"])] + _reported(col, row, ["Alk"]):
            if not any(close(asum, x, 0.0, abs_=TOL_REL * aabs + 1e-15) for asum, aabs in asums):
                raise Violation("alkalinity", "%s: sum(alk_s*MOL) = %r, %s = %r (sum|alk m| = %r)"
                                % (where, [a for a, _ in asums], lab, x, asums[0][1]))
        if len(asums) > 1 and not close(asums[0][0], asums[1][0], 0.0, abs_=TOL_REL * asums[0][1] + 1e-15):
            stats["two_readings_alk"] = stats.get("two_readings_alk", 0) + 1
        stats["bal"] += 1
        stats["alk_checked"] = stats.get("alk_checked", 0) + 1
    else:
        stats["alk_unknown"] = stats.get("alk_unknown", 0) + 1
    # ---- phases: SI = log IAP - log K(T), SR = 10^SI, LK_PHASE = Python log K(T)
    for p in meta["phases"]:
        ph = inf.usable_phases[p]
        si, sr, lk_en = v["SI:" + p], v["SR:" + p], v["LK_PHASE:" + p]
        lk_py = ph.logk(TK, db)
        if "lk_phase" not in _OFF and not close(lk_py, lk_en, 1e-13, abs_=TOL_MA):
            raise Violation("lk_phase", "%s: LK_PHASE(%s) = %r, database text gives %r at %r K (line %s)" % (where, p, lk_en, lk_py, TK, ph.line))
        terms = ph.reaction
        if is_absent(si) or any(n not in la or (n not in present and n not in (inf.eminus, inf.water)) for _, n in terms):
            continue
        if sol is not None and redox_skip(inf, terms, glob, D):
            stats["redox_skipped"] += 1
            continue
        iap = sum(c * la[n] for c, n in terms)
        scale = sum(abs(c * la[n]) for c, n in terms)
        if abs(si - (iap - lk_py)) > TOL_MA + 1e-14 * scale:
            raise Violation("saturation_index", "%s: SI(%s) = %r, log IAP - log K = %r - %r = %r; terms %r"
                            % (where, p, si, iap, lk_py, iap - lk_py, [(c, n, la[n]) for c, n in terms]))
        if abs(si) < 300 and not close(sr, 10.0 ** si, TOL_REL):
            raise Violation("saturation_ratio", "%s: SR(%s) = %r, 10^SI = %r" % (where, p, sr, 10.0 ** si))
        stats["phases"] += 1
        for lab, x in _reported(col, row, ["si_" + p]):
            if not close(x, si, 0.0, abs_=1e-9):
                raise Violation("builtin_vs_basic", "%s: -saturation_indices %s = %r, SI = %r" % (where, p, x, si))


# ----------------------------------------------------------------------------------------------- thorough: species sweep
def sweep_cases(dbn):
    """deterministic solutions such that every parsed species of the database has all its elements in one of them"""
    inf = info(dbn)
    groups = []
    wanted = []
    for s in inf.db.species.values():
        es = frozenset(set(s.elements) - {"H", "O", "e"})
        if es and all(e in inf.totals for e in es):
            wanted.append(es)
    wanted = sorted(set(wanted), key=lambda x: (-len(x), sorted(x)))
    for es in wanted:
        if any(es <= g for g in groups):
            continue
        best = None
        for i, g in enumerate(groups):
            u = g | es
            if len(u) <= 6 and len(inf.species_for(u)) <= MAX_SPECIES:
                if best is None or len(u) - len(g) < best[0]:
                    best = (len(u) - len(g), i)
        if best is None:
            groups.append(set(es))
        else:
            groups[best[1]] |= es
    cases = []
    for k, g in enumerate(groups):
        for temp, pH, pe in ((25.0, 7.0, 4.0), (61.5, 4.5, 8.0)):
            sol = {"number": 1, "temp": temp, "pH": pH, "pe": pe, "units": "mol/kgw",
                   "comps": [{"el": e, "value": 1e-4} for e in sorted(g)]}
            # isotope databases: the minor-isotope species only exist after a reaction step (the initial solution is
            # speciated without them), so the sweep adds a REACTION_TEMPERATURE step at the same temperature
            react = [{"kind": "temp", "temp": temp}] if inf.db.isotopes else []
            cases.append({"db": dbn, "sols": [sol], "react": react, "pseed": k, "kind": "sweep"})
    return cases


def run(ctx):
    dbs = DATABASES + THOROUGH_EXTRA if ctx.tier == "thorough" else DATABASES
    only = [x for x in os.environ.get("VERIF_C01_DBS", "").split(",") if x]      # dedicated stress runs only (not a normal run)
    if only:
        dbs = [(d, 1) for d in only]
        ctx.event("STRESS-RUN:databases=" + "+".join(only))
    ctx.hyp(case_st(dbs), lambda c: check_case(c, ctx), BUDGET[ctx.tier], "solutions")
    if ctx.tier == "thorough":
        # deterministic species sweep: one database per shard (so that the per-database coverage count is exact)
        for i, dbn in enumerate(SWEEP_DATABASES):
            if i % ctx.nshards != ctx.shard:
                continue
            try:
                cases = sweep_cases(dbn)
            except Exception as e:
                ctx.notes.append("sweep of %s not possible: %s" % (dbn, e))
                continue
            seen = set()
            for case in cases:
                ctx.begin(case)
                ctx.extra.pop("sweep_seen:" + dbn, None)
                try:
                    r = check_case(case, ctx)
                    ctx.record(case, r["nontrivial"], r["classes"] + ["sweep"])
                    seen |= set(ctx.extra.get("sweep_seen:" + dbn, []))
                except Discard as d:
                    ctx.discards["sweep:" + d.why] += 1
                except Violation as v:
                    ctx.failures.append({"case": case, "oracle": v.oracle, "message": v.msg[:4000], "test": "sweep"})
            ctx.extra.pop("sweep_seen:" + dbn, None)
            inf = info(dbn)
            ctx.extra["sweep:%s:species_parsed" % dbn] = len(inf.db.species)
            ctx.extra["sweep:%s:species_with_equation_evaluated_or_master_present" % dbn] = len(seen)
            ctx.extra["sweep:%s:cases" % dbn] = len(cases)
