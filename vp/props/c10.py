"""C10 - reaction state captured by DUMP (RAW text), SOLUTION_MODIFY or the in-memory copies can be re-instated
without changing behaviour."""
import re, math, os
from hypothesis import strategies as st
from .. import lib, c10gen as G, rawparse as R
from ..core import Violation, Discard

ID = "C10"
LEVEL = "exploration"
RULE = ("Hypothesis-generated reaction states (vp/c10gen.py): 1-3 initial solutions (phreeqc.dat / wateq4f.dat; pitzer.dat -> "
        "species gammas; iso.dat -> isotope totals D, T, [18O], [13C]), a cell with any subset of EQUILIBRIUM_PHASES (targets, "
        "dissolve_only / precipitate_only / force_equality, alternative formula), EXCHANGE (explicit / -equilibrate / tied to a "
        "phase or a kinetic reactant), SURFACE (no_edl, DDL, CCM, CD-MUSIC with capacitances, -donnan thickness / debye "
        "lengths / viscosity / limit, -diffuse_layer, only_counter_ions, site density units, mobile Dw, tied to a phase, "
        "explicit or -equilibrate), GAS_PHASE (fixed P / fixed V / -equilibrate, 1-4 components), SOLID_SOLUTIONS (ideal 2-3 "
        "components, Guggenheim nondim/kJ/tempk, 1-2 per assemblage), KINETICS (1-3 components, 1-3 parameters, 1-2 formula "
        "terms, RK / CVODE options), REACTION, REACTION_TEMPERATURE, REACTION_PRESSURE (lists or 'in n steps'), MIX; then a "
        "history of 0-3 steps (batch with SAVE to the same or a new number, RUN_CELLS, COPY cell) with INCREMENTAL_REACTIONS "
        "on/off; then DUMP -all.  The state is restored by 6 routes (text into another instance, re-read into the same "
        "instance, third instance from the second dump, SOLUTION_MODIFY onto placeholders, cxxStorageBin into a fresh "
        "instance and onto itself, Serializer, Phreeqc copy constructor) and a follow-up (RUN_CELLS with time step, or USE of "
        "every reactant + optionally a new REACTION; 1-3 steps) punches 40-70 USER_PUNCH values per step.  Non-trivial = the "
        "dump holds >= 3 entity kinds or an entity with non-default sub-structure, measured on the parsed dump (species "
        "gammas, isotope totals, surface model other than plain DDL, tied exchanger/surface, fixed-volume gas, phase options, "
        "non-ideal solid solution, >= 2 kinetic components / parameters / formula terms, MIX, multi-step reaction / "
        "temperature / pressure); distinct by SHA-256 of the case.  Names with drawn lengths 1-40 (a third on the RAW writers' "
        "column widths 21/23/25/27/29): REACTION reactants and KINETICS -formula tokens (long formulas such as CaCl2.0000000, a "
        "long-named user PHASE), a long rate name, an exchanger element with a long name, solution descriptions, cell numbers "
        "of 2-7 digits.  SOLUTION_MODIFY is exercised three ways: dumped valence names onto placeholders; bare element totals "
        "(valence states summed) and a mixed bare/valence variant onto the restored solutions, each followed by an inventory "
        "check (every element held once, with the amount handed over)")
ASSUMPTIONS = ["the dump writes 14 significant digits; follow-up results are compared (1e-7 * scale + 10 * convergence_tolerance, "
               "KNOBS -convergence_tolerance 1e-12; pressures + 0.001 atm, the engine's own fixed-volume criterion) only where the "
               "follow-up is reproducible under noise of that size: redox-inert element sets (pe not compared) or O2-poised "
               "ones, >= 1e-4 mol/kgw carbonate as pH buffer, and agreement (half the tolerance) between each copy and a replica "
               "of it with amounts changed by +-3e-13 and another solver history; un-poised systems (Fe / nitrate without O2) "
               "and irreproducible ones only go through the error-free, fixed-point, field-equality and in-memory text clauses",
               "fields the dump itself lists under '... workspace variables' are recomputed by the next calculation and may "
               "differ between the first and the second dump (observed: gas component -p); every other field must agree to "
               "1e-12; an exchanger/surface tied to a phase or kinetic reactant is re-scaled to moles x proportion whenever it "
               "is read, so its amounts are compared as numbers (1e-12) in the fixed-point clause and not at all between first "
               "and second dump",
               "settings that are not reaction state (KNOBS, INCREMENTAL_REACTIONS, USE, SELECTED_OUTPUT, time step and start "
               "time) are spelled out in the follow-up input; database additions (RATES, CD-MUSIC SURFACE_SPECIES) are given to "
               "every instance; the SOLUTION_MODIFY placeholder has the temperature, pressure and water mass of the solution",
               "the C++ shims only call public members (phreeqc2cxxStorageBin, cxxStorageBin2phreeqc, Serializer, Phreeqc copy "
               "constructor, the entity maps' dump_raw)",
               "excluded by construction, each a recorded finding with a replay under replays/C10/known: SOLUTION -isotope "
               "entries, 'viscosity calc' of a Donnan layer, a tied phase that can be exhausted (Donnan surface with 0 kg water -> "
               "nan in the dump), the Phreeqc copy of a pitzer.dat/sit.dat engine, -viscos_0 in the Serializer text comparison"]
TECHNIQUE = "property-based testing (Hypothesis): round-trip / differential oracle over dump text and follow-up selected output"
LEVEL_TEXT = ("Exploration: generated reaction states of every entity kind are dumped, restored through six routes and re-dumped; "
              "reading must be error-free, the second dump a fixed point and field-equal to the first, in-memory copies "
              "text-identical, and a follow-up calculation must give the same results (1e-7) on every restored copy as on the "
              "original wherever the engine's answer is reproducible under noise.")
FLOORS = {"quick": 150, "thorough": 1500}
SHARDS = {"quick": 8, "thorough": 16}
BUDGET = {"quick": 80, "thorough": 450, "replay": 1}    # cases per shard

RTOL = 1e-7           # property statement
FIELD_RTOL = 1e-12    # D1 vs D2, non-workspace fields (DESIGN C10)
SERIAL_KINDS = ("SOLUTION", "EXCHANGE", "GAS_PHASE", "KINETICS", "EQUILIBRIUM_PHASES", "SOLID_SOLUTIONS", "SURFACE",
                "REACTION_TEMPERATURE", "REACTION_PRESSURE")
DUMP = "DUMP\n -all\nEND\n"
# an unrelated initial-solution calculation: leaves the reaction state of the cells alone, changes the solver's history
NOISE_SIM = "SOLUTION 7777\n units mol/kgw\n pH 7\n Na 0.1\n Cl 0.1\nEND\n"


# known finding: Phreeqc::InternalCopy shares the Pitzer/SIT parameter objects with the source and keeps their species-name
# pointers, so copying an engine that has pitzer.dat / sit.dat loaded always fails in tidy_model (and double-frees later)
NO_COPY_DBS = ("pitzer.dat", "sit.dat")


def prepare(tier):
    lib.build("rel", ["libiphreeqc_rel.so"])


def _c10(I):
    import ctypes as C
    L = I.L
    if not getattr(L, "_c10_ready", False):
        L.c10_copy_dump.argtypes = [C.c_void_p]
        L.c10_copy_dump.restype = C.c_void_p
        L.c10_assign_dump.argtypes = [C.c_void_p]
        L.c10_assign_dump.restype = C.c_void_p
        L.c10_storagebin_into.argtypes = [C.c_void_p, C.c_void_p]
        L.c10_storagebin_into.restype = C.c_void_p
        L.c10_raw_dump.argtypes = [C.c_void_p]
        L.c10_raw_dump.restype = C.c_void_p
        L.c10_storagebin_text.argtypes = [C.c_void_p]
        L.c10_storagebin_text.restype = C.c_void_p
        L._c10_ready = True
    return L


def copy_dump(I):
    """exception-safe Phreeqc copy construction (shim/shim_c10.cpp); '!!EXC...' when the copy constructor throws"""
    return I._take(_c10(I).c10_copy_dump(I.ptr))


def raw_dump(I):
    """dump_raw of every entity in the instance's eleven maps, in DUMP -all order (shim/shim_c10.cpp)"""
    return I._take(_c10(I).c10_raw_dump(I.ptr))


def storagebin_into(I, J):
    """phreeqc2cxxStorageBin on I, cxxStorageBin2phreeqc into J; J's dump_raw text"""
    return I._take(_c10(I).c10_storagebin_into(I.ptr, J.ptr))


# ------------------------------------------------------------------------------------------- dump text tools
_HDR = re.compile(r"^([A-Z_]+)_RAW\s+(-?\d+)(?:-(-?\d+))?\s*(.*)$")


def blocks(text):
    """dump text -> (list of (KIND, n, [lines]), [trailing/other lines]); header description removed from lines[0]"""
    out, other, cur = [], [], None
    for line in text.split("\n"):
        m = _HDR.match(line)
        if m:
            cur = (m.group(1), int(m.group(2)), ["%s_RAW %s" % (m.group(1), m.group(2))])
            out.append(cur)
            continue
        if line.startswith("USE ") or (not line.strip() and cur is None):
            cur = None
            if line.strip():
                other.append(line)
            continue
        if cur is None:
            if line.strip():
                other.append(line)
            continue
        if line.strip():
            cur[2].append(line.rstrip())
    return out, other


def block_text(text, keep):
    """the dump restricted to the blocks for which keep(KIND, n) is true (original lines incl. description)"""
    L, on = [], False
    for line in text.split("\n"):
        m = _HDR.match(line)
        if m:
            on = keep(m.group(1), int(m.group(2)))
        elif line.startswith("USE "):
            on = False
        if on:
            L.append(line)
    return "\n".join(L) + "\n"


def normalise(text):
    """dump text without the free-text descriptions of the headers (property: 'modulo the after-simulation descriptions')"""
    bl, other = blocks(text)
    return "\n".join("\n".join(b[2]) for b in bl) + "\n" + "\n".join(other)


_OPT = re.compile(r"^-[A-Za-z_]")


def fields(text):
    """-> {path: (tokens, workspace)}; path = (KIND n, option[ name], ..., row key).  A field is a workspace variable when
    it, or an option it is nested in, follows a comment line '# ... workspace variables #' at its own indentation."""
    out = {}
    bl, _ = blocks(text)
    for kind, n, lines in bl:
        root = "%s %d" % (kind, n)
        stack = []            # (indent, path element, workspace)
        section = {}          # indent -> workspace flag set by the last comment line at that indent
        rowcount = {}
        for raw in lines[1:]:
            if not raw.strip():
                continue
            body = raw.lstrip(" \t")
            indent = len(raw) - len(body)
            if body.startswith("#"):
                for k in [k for k in section if k > indent]:
                    del section[k]
                section[indent] = "workspace variables" in body
                continue
            code = body.split("#", 1)[0].rstrip()
            toks = code.split()
            if not toks:
                continue
            while stack and stack[-1][0] >= indent:
                stack.pop()
            for k in [k for k in section if k > indent]:
                del section[k]
            inherited = any(s[2] for s in stack)
            if _OPT.match(toks[0]):
                ws = inherited or section.get(indent, False)
                name = toks[0]
                # named sub-entities: the name is part of the path, the rest is the value
                if name in ("-component", "-charge_component", "-solid_solution") and len(toks) > 1:
                    el, val = name + " " + toks[1], toks[2:]
                else:
                    el, val = name, toks[1:]
                path = (root,) + tuple(s[1] for s in stack) + (el,)
                if path in out:           # repeated option (-g_map, -Isotope): number the occurrences
                    k = rowcount.get(path, 1)
                    rowcount[path] = k + 1
                    el = "%s#%d" % (el, k)
                    path = path[:-1] + (el,)
                out[path] = (val, ws)
                stack.append((indent, el, ws))
            else:
                ws = inherited
                base = (root,) + tuple(s[1] for s in stack)
                try:
                    float(toks[0])
                    k = rowcount.get(base, 0)
                    rowcount[base] = k + 1
                    key, val = "row%d" % k, toks
                except ValueError:
                    key, val = toks[0], toks[1:]
                path = base + (key,)
                if path in out:
                    k = rowcount.get(path, 1)
                    rowcount[path] = k + 1
                    path = base + ("%s#%d" % (key, k),)
                out[path] = (val, ws)
    return out


def _num(t):
    try:
        return float(t)
    except ValueError:
        return None


def field_diff(F1, F2):
    """differences in non-workspace fields: list of (path, v1, v2)"""
    out = []
    # a surface tied to a kinetic reactant gets the grams and charge balance of its charge structure re-derived by
    # update_kin_surface at the start of *every* simulation (on the original instance just as on the restored one), so the
    # values in the first dump are not state that a later calculation could see
    # an exchanger / surface tied to a phase or kinetic reactant is re-scaled to (moles x proportion) of the *current*
    # phase / reactant at the start of every simulation (update_min_* / update_kin_* in tidy_model), on the original
    # instance just as on the restored one: its amounts in the first dump may be stale and are not compared as numbers
    rel = related_blocks(F1)
    for p in sorted(set(F1) | set(F2)):
        a, b = F1.get(p), F2.get(p)
        if (a is not None and a[1]) or (b is not None and b[1]):
            continue
        if p[0] in rel:
            if a is None or b is None:
                if all(_num(t) == 0.0 for t in (a or b)[0]):
                    continue
            elif len(a[0]) == len(b[0]) and all(x == y or (_num(x) is not None and _num(y) is not None) for x, y in zip(a[0], b[0])):
                continue
        if a is None or b is None:
            out.append((p, a and a[0], b and b[0]))
            continue
        if len(a[0]) != len(b[0]):
            out.append((p, a[0], b[0]))
            continue
        for x, y in zip(a[0], b[0]):
            if x == y:
                continue
            fx, fy = _num(x), _num(y)
            if fx is None or fy is None or not abs(fx - fy) <= FIELD_RTOL * max(abs(fx), abs(fy)):
                out.append((p, a[0], b[0]))
                break
    return out


def workspace_diffs(F1, F2):
    """names (KIND/-option) of workspace variables whose value differs between the two dumps (for the evidence histogram)"""
    out = set()
    for p in set(F1) & set(F2):
        a, b = F1[p], F2[p]
        if (a[1] or b[1]) and a[0] != b[0]:
            opt = [e for e in p[1:] if e.startswith("-")]
            out.add("%s/%s" % (p[0].split()[0], opt[-1].split()[0].split("#")[0] if opt else "row"))
    return out


def related_blocks(F):
    """roots ('EXCHANGE 10') of exchangers / surfaces with a component tied to a phase or a kinetic reactant"""
    out = set()
    for path, (val, ws) in F.items():
        if path[-1] in ("-phase_name", "-rate_name") and val and path[0].split()[0] in ("EXCHANGE", "SURFACE"):
            out.add(path[0])
    return out


def fixed_point(Da, Db, ctx, what):
    """Db (dump after reading Da) must be the same text; exception: an exchanger/surface that is related to a phase or
    kinetic reactant is re-scaled to (moles x proportion) every time it is read, which is new arithmetic -> its numbers
    are compared as doubles (1e-12) instead of as text"""
    na, nb = normalise(Da), normalise(Db)
    if na == nb:
        return
    Fa, Fb = fields(Da), fields(Db)
    rel = related_blocks(Fa)
    bad = []
    for p in sorted(set(Fa) | set(Fb)):
        a, b = Fa.get(p), Fb.get(p)
        if p[0] in rel and (a is None or b is None) and all(_num(t) == 0.0 for t in (a or b)[0]):
            continue         # a related exchanger/surface whose phase is exhausted: zero totals are dropped by the second read
        if a is None or b is None or len(a[0]) != len(b[0]):
            bad.append((p, a and a[0], b and b[0]))
            continue
        for x, y in zip(a[0], b[0]):
            if x == y:
                continue
            fx, fy = _num(x), _num(y)
            if p[0] in rel and fx is not None and fy is not None and abs(fx - fy) <= FIELD_RTOL * max(abs(fx), abs(fy)):
                continue
            bad.append((p, a[0], b[0]))
            break
    if bad:
        p, a, b = bad[0]
        raise Violation("fixed_point", "%s: %d field(s) changed, first: %s: %s -> %s" % (what, len(bad), " / ".join(p), a, b))
    ctx.event("fixed_point_numeric_for_related_exchanger_or_surface")


def first_diff(a, b):
    la, lb = a.split("\n"), b.split("\n")
    for i in range(max(len(la), len(lb))):
        x = la[i] if i < len(la) else "<end>"
        y = lb[i] if i < len(lb) else "<end>"
        if x != y:
            return "line %d: %r vs %r" % (i + 1, x[:120], y[:120])
    return "no difference"


# ------------------------------------------------------------------------------------------- measured classes
def measure(D):
    """-> (kinds, substructure labels) of a parsed dump (rawparse)"""
    kinds = set(R.kinds(D))
    sub = set()
    for (kind, n), e in D.items():
        if kind == "SOLUTION":
            if R.nv(e.get("gammas")):
                sub.add("sol_species_gammas")
            if any(k.startswith("[") or k.split("(")[0] in ("D", "T") for k in R.nv(e.get("totals"))):
                sub.add("sol_isotope_totals")
            if "Isotope" in e:
                sub.add("sol_isotope_entries")
        elif kind == "SURFACE":
            t, dl = int(e.get("type") or 0), int(e.get("dl_type") or 0)
            sub.add("surf_type=%s" % {1: "no_edl", 2: "ddl", 3: "cd_music", 4: "ccm"}.get(t, str(t)))
            if dl:
                sub.add("surf_dl=%s" % {1: "diffuse_layer", 2: "donnan"}.get(dl, str(dl)))
            if float(e.get("debye_lengths") or 0) > 0:
                sub.add("surf_debye_lengths")
            if int(e.get("only_counter_ions") or 0):
                sub.add("surf_only_counter_ions")
            for c in (e.get("component") or {}).values():
                if c.get("phase_name") is not None:
                    sub.add("surf_related_phase")
                if c.get("rate_name") is not None:
                    sub.add("surf_related_kinetics")
                if float(c.get("Dw") or 0) > 0:
                    sub.add("surf_mobile")
            if int(e.get("new_def") or 0):
                sub.add("surf_new_def")
        elif kind == "EXCHANGE":
            for c in (e.get("component") or {}).values():
                if c.get("phase_name") is not None:
                    sub.add("exch_related_phase")
                if c.get("rate_name") is not None:
                    sub.add("exch_related_kinetics")
            if int(e.get("new_def") or 0):
                sub.add("exch_new_def")
        elif kind == "GAS_PHASE":
            if int(e.get("type") or 0) == 1:
                sub.add("gas_fixed_volume")
            else:
                sub.add("gas_fixed_pressure")
            if len(e.get("component") or {}) >= 2:
                sub.add("gas_comps>=2")
        elif kind == "EQUILIBRIUM_PHASES":
            for c in (e.get("component") or {}).values():
                if c.get("add_formula") is not None:
                    sub.add("pp_add_formula")
                for o in ("force_equality", "dissolve_only", "precipitate_only"):
                    if int(c.get(o) or 0):
                        sub.add("pp_" + o)
        elif kind == "SOLID_SOLUTIONS":
            ssd = e.get("solid_solution") or {}
            if len(ssd) >= 2:
                sub.add("ss_two_solid_solutions")
            for s in ssd.values():
                if float(s.get("a0") or 0) != 0 or float(s.get("a1") or 0) != 0:
                    sub.add("ss_nonideal")
                if len(s.get("component") or {}) >= 3:
                    sub.add("ss_comps>=3")
        elif kind == "KINETICS":
            cs = e.get("component") or {}
            if len(cs) >= 2:
                sub.add("kin_comps>=2")
            for c in cs.values():
                if len(R.nums(c.get("d_params"))) >= 2:
                    sub.add("kin_d_params>=2")
                if len(R.nv(c.get("namecoef"))) >= 2:
                    sub.add("kin_namecoef>=2")
            if int(e.get("use_cvode") or 0):
                sub.add("kin_cvode")
        elif kind == "MIX":
            sub.add("mix")
        elif kind == "REACTION":
            if len(R.nums(e.get("steps"))) > 1 or int(e.get("countSteps") or 0) > 1:
                sub.add("reaction_multi_step")
        elif kind == "REACTION_TEMPERATURE":
            if len(R.nums(e.get("temps"))) > 1 or int(e.get("count_temps") or 0) > 1:
                sub.add("temperature_multi_step")
        elif kind == "REACTION_PRESSURE":
            if len(R.nums(e.get("pressures"))) > 1 or int(e.get("count") or 0) > 1:
                sub.add("pressure_multi_step")
        if kind in ("REACTION", "KINETICS", "REACTION_TEMPERATURE", "REACTION_PRESSURE"):
            # explicit lists long enough for continuation lines in the dump (5 numbers on the first line, 6 on the others)
            for opt in ("steps", "temps", "pressures"):
                if len(R.nums(e.get(opt))) >= 6:
                    sub.add("%s_list>=6" % kind.lower())
    return kinds, sub


def solid_solution_fragile(D, follow_cell_kinds=None):
    """True when the dump holds a solid-solution assemblage in a setting where the engine's answer was seen to depend on
    its starting point (several phase assemblages reachable from nearly the same state): next to pure phases, a gas phase
    or kinetic reactants, with an end-member absent (< 1e-6 mol), or with a0 / a1 large enough for a miscibility gap"""
    kinds = set(R.kinds(D))
    if "SOLID_SOLUTIONS" not in kinds:
        return False
    if kinds & {"EQUILIBRIUM_PHASES", "GAS_PHASE", "KINETICS"}:
        return True
    for (kind, n), e in D.items():
        if kind != "SOLID_SOLUTIONS":
            continue
        for ss in (e.get("solid_solution") or {}).values():
            if abs(float(ss.get("a0") or 0)) + abs(float(ss.get("a1") or 0)) > 1.5:
                return True
            for c in (ss.get("component") or {}).values():
                if float(c.get("moles") or 0) < 1e-6:
                    return True
    return False


DEFAULT_SUB = {"surf_type=ddl", "gas_fixed_pressure", "kin_cvode", "surf_new_def", "exch_new_def"}


# ------------------------------------------------------------------------------------------- follow-up comparison
CONV_TOL = 1e-12      # KNOBS -convergence_tolerance of every generated calculation
ATOL = 10 * CONV_TOL  # DESIGN section 4 rule 2: |d| <= tol_property * scale + 10 * convergence_tolerance
# pressures: with a fixed-volume gas phase the engine iterates the pressure only until two successive values agree to
# 0.001 atm (model.cpp: 'fabs(last_patm_x - patm_x) > 0.001' is its convergence test) -> its own criterion is added
P_ATOL = 1e-3
# scale floors: a log10 quantity (pH, pe, SI) is compared on max(|x|, 1) (1e-7 in a log10 value = 2.3e-7 relative in the
# activity product itself); alkalinity and charge balance are signed sums of species amounts that largely cancel, their
# scale is at least 1e-3 eq (the smallest ionic content the generator produces)
FLOOR = {"log": 1.0, "pe": 1.0, "diff": 1e-3}


def tolerance(kind, a, b):
    return RTOL * max(abs(a), abs(b), FLOOR.get(kind, 0.0)) + (P_ATOL if kind == "gasp" else ATOL)


def compare_tables(TA, TB, cols, redox, what, stats=None):
    if TA.rows != TB.rows or TA.cols != TB.cols:
        raise Violation(what, "follow-up table shape %dx%d on the original, %dx%d on the restored state" % (TA.rows, TA.cols, TB.rows, TB.cols))
    if TA.rows < 2:
        return
    if TA.cells[0] != TB.cells[0]:
        raise Violation(what, "follow-up headings differ")
    kind_of = {h: k for h, k in cols}
    for r in range(1, TA.rows):
        for j, h in enumerate(TA.cells[0]):
            a, b = TA.cells[r][j], TB.cells[r][j]
            k = kind_of.get(h)
            if k is None:
                continue
            if k == "pe" and redox != "o2":
                continue
            if isinstance(a, (int, float)) and isinstance(b, (int, float)):
                a, b = float(a), float(b)
                if math.isnan(a) and math.isnan(b):
                    continue
                dev = abs(a - b) / tolerance(k, a, b)
                if stats is not None:
                    stats[k] = max(stats.get(k, 0.0), dev)
                if not dev <= 1.0:
                    raise Violation(what, "follow-up row %d column %s: %.17g on the original, %.17g on the restored state "
                                    "(%.3g x the tolerance 1e-7 * scale + 1e-11)" % (r, h, a, b, dev))
            elif a != b:
                raise Violation(what, "follow-up row %d column %s: %r vs %r" % (r, h, a, b))


_PERT_OPTS = ("-total_h", "-total_o", "-cb", "-moles", "-m")


def perturb(text, eps=3e-13):
    """the dump with every amount (name/value rows such as -totals, and -total_h/-total_o/-cb/-moles/-m) changed by a
    relative +-eps (alternating sign): ~30x the rounding of the 14-digit format.  Used to measure how strongly the
    follow-up amplifies noise of the size the text format itself introduces (conditioning, DESIGN section 4 rule 7)."""
    out, k = [], 0
    for line in text.split("\n"):
        body = line.strip()
        toks = body.split()
        if len(toks) == 2 and line[:1] in (" ", "\t") and not body.startswith("#") and _num(toks[1]) is not None and (
                toks[0] in _PERT_OPTS or (not toks[0].startswith("-") and _num(toks[0]) is None)):
            v = float(toks[1])
            if v != 0.0 and math.isfinite(v):
                k += 1
                v *= 1.0 + (eps if k % 2 else -eps)
                line = line[:len(line) - len(line.lstrip())] + "%s %.17g" % (toks[0], v)
        out.append(line)
    return "\n".join(out)


def well_conditioned(T1, T2, cols, redox):
    """True when the follow-up on the restored state and on the perturbed restored state agree to half the tolerance"""
    if T2 is None or T1.rows != T2.rows or T1.cols != T2.cols or T1.rows < 2:
        return False
    kind_of = {h: k for h, k in cols}
    for r in range(1, T1.rows):
        for j, h in enumerate(T1.cells[0]):
            a, b = T1.cells[r][j], T2.cells[r][j]
            k = kind_of.get(h)
            if k is None or (k == "pe" and redox != "o2"):
                continue
            if isinstance(a, (int, float)) and isinstance(b, (int, float)):
                a, b = float(a), float(b)
                if math.isnan(a) or math.isnan(b):
                    continue
                if abs(a - b) > 0.5 * tolerance(k, a, b):
                    return False
    return True


# ------------------------------------------------------------------------------------------- the oracle
def new_instance(case):
    I = lib.fresh(case["db"], via_shim=True)
    I.seti("SetDumpStringOn", 1)
    if I.run_string(case["adds"]) != 0:
        err = I.errors()
        I.close()
        raise Discard("adds_error")
    return I


def dump_of(I, what):
    rc = I.run_string(DUMP)
    if rc != 0:
        raise Violation(what, "DUMP -all reported errors: %s" % I.errors()[:300])
    return I.dump()


def not_converged(err):
    """the engine's own verdict 'numerical method failed' (as opposed to rejected input)"""
    return any(t in err for t in ("has not converged", "Numerical method failed", "Too many iterations", "did not converge",
                                  "Maximum iterations", "Bad RK steps", "CVode", "CVODE"))


def run_follow(I, case, key="follow"):
    rc = I.run_string(case[key])
    if rc != 0:
        return None, I.errors()
    return I.table(1), ""


def modify_input(D1, P1, estimates=False):
    """(placeholder definitions, restore text): solutions as placeholders + SOLUTION_MODIFY with totals, total_h, total_o, cb
    only; all other entities as RAW.  estimates=True (the replica used by the stability guard) also hands over the
    solver's starting estimates that the dump holds (pH, pe, mu, ah2o, log activities, log gammas)."""
    place, mod = [], []
    for (kind, n), e in P1.items():
        if kind != "SOLUTION":
            continue
        # the placeholder has the temperature, pressure and water mass of the solution it stands for: none of them is
        # derivable from the four restored items, and mixing weights intensive properties by the stored water mass
        place.append("SOLUTION %d\n temp %r\n pressure %r\n -water %r" % (n, float(e["temp"]), float(e["pressure"]), float(e["mass_water"])))
        L = ["SOLUTION_MODIFY %d" % n, " -total_h %s" % _tok(e["total_h"]), " -total_o %s" % _tok(e["total_o"]),
             " -cb %s" % _tok(e["cb"]), " -totals"]
        for name, v in R.nv(e.get("totals")).items():
            L.append("  %s %s" % (name, _tok(v)))
        # (the SOLUTION keyword raises a pressure below the vapour pressure of water to that value, e.g. the 0.01 atm
        # left by a fixed-volume gas phase -> the placeholder's pressure is completed here)
        L.append(" -pressure %s" % _tok(e["pressure"]))
        if estimates:
            for k in ("pH", "pe", "mu", "ah2o"):
                if e.get(k) is not None:
                    L.append(" -%s %s" % (k, _tok(e[k])))
            for k in ("activities", "gammas"):
                rows = R.nv(e.get(k))
                if rows:
                    L.append(" -" + k)
                    for name, v in rows.items():
                        L.append("  %s %s" % (name, _tok(v)))
        mod.append("\n".join(L))
    rest = block_text(D1, lambda k, n: k != "SOLUTION")
    return "\n".join(place) + "\nEND\n", rest + "\n".join(mod) + "\nEND\n"


def _tok(x):
    return "%.14g" % float(x)      # the digits the dump holds


def element_totals(e):
    """{element: moles} of a parsed SOLUTION entity, valence states summed; H(0)/O(0) stay apart (they belong to total H/O)"""
    out = {}
    for name, v in R.nv(e.get("totals")).items():
        base = name.split("(")[0]
        key = name if base in ("H", "O") else base
        out[key] = out.get(key, 0.0) + float(v)
    return out


def multi_valence_elements(e):
    """elements (other than H, O) that the solution stores in two or more valence states"""
    cnt = {}
    for name in R.nv(e.get("totals")):
        base = name.split("(")[0]
        if "(" in name and base not in ("H", "O"):
            cnt[base] = cnt.get(base, 0) + 1
    return sorted(b for b, k in cnt.items() if k >= 2)


def modify_elements_input(P1, mixed):
    """SOLUTION_MODIFY blocks that restore *element* totals (bare names, valence states summed), total H, total O and charge
    onto solutions that already exist; mixed=True: every second element (alphabetical) keeps its valence-state names"""
    mod = []
    for (kind, n), e in P1.items():
        if kind != "SOLUTION":
            continue
        L = ["SOLUTION_MODIFY %d" % n, " -total_h %s" % _tok(e["total_h"]), " -total_o %s" % _tok(e["total_o"]),
             " -cb %s" % _tok(e["cb"]), " -totals"]
        sums = element_totals(e)
        bases = sorted(k for k in sums if "(" not in k)
        keep_valence = set(bases[1::2]) if mixed else set()
        for name, v in R.nv(e.get("totals")).items():
            base = name.split("(")[0]
            if base in ("H", "O") or base in keep_valence:
                L.append("  %s %s" % (name, _tok(v)))
        for b in bases:
            if b not in keep_valence:
                L.append("  %s %s" % (b, "%.15g" % sums[b]))
        mod.append("\n".join(L))
    return "\n".join(mod) + "\nEND\n"


def check_element_inventory(P1, Dx, what):
    """after a SOLUTION_MODIFY the solution holds every element exactly once: summed over bare and valence entries its
    total equals the total handed over (1e-11: the sums are formed from 14-digit numbers)"""
    try:
        Px = R.parse(Dx)
    except R.RawParseError as e:
        raise Violation("modify_inventory", "%s: dump after SOLUTION_MODIFY is not well-formed: %s" % (what, e))
    for key, e in P1.items():
        if key[0] != "SOLUTION":
            continue
        if key not in Px:
            raise Violation("modify_inventory", "%s: SOLUTION %d vanished" % (what, key[1]))
        a, b = element_totals(e), element_totals(Px[key])
        for el in sorted(set(a) | set(b)):
            x, y = a.get(el, 0.0), b.get(el, 0.0)
            if abs(x - y) > 1e-11 * max(abs(x), abs(y)) + 1e-30:
                raise Violation("modify_inventory", "%s: SOLUTION %d holds %.15g mol %s after SOLUTION_MODIFY, %.15g mol were "
                                "handed over (entries now: %s)" % (what, key[1], y, el, x,
                                {k: v for k, v in R.nv(Px[key].get("totals")).items() if k.split("(")[0] == el.split("(")[0]}))
        for k in ("total_h", "total_o", "cb"):
            x, y = float(e[k]), float(Px[key][k])
            if abs(x - y) > 1e-12 * max(abs(x), abs(y)) + 1e-30:
                raise Violation("modify_inventory", "%s: SOLUTION %d -%s is %.15g after SOLUTION_MODIFY, %.15g handed over" % (what, key[1], k, y, x))


def check_case(case, ctx):
    insts = []

    def inst():
        I = new_instance(case)
        insts.append(I)
        return I
    try:
        return _check(case, ctx, inst)
    finally:
        for I in insts:
            I.close()


def _check(case, ctx, inst):
    redox = case["redox"]
    # generator-side labels: only those that are not measured again on the dump (the evidence histogram keeps 80 labels)
    classes = [l for l in case.get("labels", []) if l.startswith(("profile=", "redox=", "follow=", "history=0", "hist_", "excluded_", "known_", "cell_number_digits"))]
    if any("-cvode true" in s for s in case["sims"]):
        # Pre-flight for CVODE kinetics: when an equilibrium call inside the integrator does not converge, CVODE keeps
        # retrying with smaller steps and one follow-up can run for > 20 min (seen on the original instance, nothing to do
        # with restoring).  The same history + follow-up is therefore first run with the Runge-Kutta integrator, which
        # gives up after a few seconds; a case that fails there is outside the domain (calculation does not complete).
        Pf = inst()
        for s in case["sims"] + [case["follow"]]:
            if Pf.run_string(s.replace("-cvode true", "-cvode false")) != 0:
                raise Discard("cvode_preflight_not_converged")
        Pf.close()
    A = inst()
    for k, s in enumerate(case["sims"]):
        if A.run_string(s) != 0:
            raise Discard("history_error_sim%d" % min(k, 3))
    D1 = dump_of(A, "dump")
    try:
        P1 = R.parse(D1)
    except R.RawParseError as e:
        # (the independent parser rejects repeated nested options such as the -Isotope entries of a solution; such a
        # state still goes through every clause that works on the text itself)
        P1 = {}
        classes.append("dump_not_parsed_by_rawparse")
    kinds, sub = measure(P1)
    F1 = fields(D1)
    # lengths of the names in the dump's name/value lists (the writer's column widths are 21, 23, 25, 27, 29)
    for n in sorted({len(p[-1].split("#")[0]) for p in F1 if not p[-1].startswith(("-", "row"))}):
        if n >= 15:
            classes.append("list_name_length=%s" % (n if n in (21, 23, 25, 27, 29) else "15-20" if n <= 20 else "22-28 even" if n <= 28 else ">=30"))
    classes[:] = list(dict.fromkeys(classes))

    # (5a) Phreeqc copy and Serializer on the original: dump_raw text before == after
    R1 = raw_dump(A)
    # the in-memory rendering of the original agrees with what DUMP -all wrote (same blocks, same text)
    bd = {(k, n): "\n".join(l) for k, n, l in blocks(D1)[0]}
    br = {(k, n): "\n".join(l) for k, n, l in blocks(R1)[0]}
    if bd != br:
        for key in sorted(set(bd) | set(br)):
            if bd.get(key) != br.get(key):
                raise Violation("dump", "%s %d: DUMP -all text vs dump_raw of the entity maps: %s" % (
                    key[0], key[1], first_diff(bd.get(key, "<absent>"), br.get(key, "<absent>"))))
    # (5) the storage bin carries the state into another instance unchanged
    T = inst()
    Rt = storagebin_into(A, T)
    if Rt != R1:
        raise Violation("storagebin", "dump_raw after phreeqc2cxxStorageBin -> cxxStorageBin2phreeqc into a fresh instance: %s" % first_diff(R1, Rt))
    if case["db"] in NO_COPY_DBS and not case.get("known_copy"):
        ctx.event("excluded_engine_copy_pitzer_sit")
    else:
        Rc = copy_dump(A)
        if Rc.startswith("!!EXC"):
            raise Violation("copy", "copy-constructing the engine (Phreeqc(const Phreeqc&) -> InternalCopy) threw")
        if Rc != R1:
            raise Violation("copy", "dump_raw of the copy-constructed engine differs from the original: %s" % first_diff(R1, Rc))
    S = inst()
    nmax = max([n for k, n, l in blocks(D1)[0]] + [0])
    Rs = A.serialize_into(S, 0, nmax)
    if Rs is None:
        raise Violation("serializer", "Serialize/Deserialize failed")
    Rs = raw_dump(S)
    def ser_text(kind, lines):
        # known finding: cxxSolution::Serialize does not carry viscos_0 (the copy holds the constructor's default 1)
        if kind == "SOLUTION" and not case.get("known_serializer_viscos_0"):
            lines = [l for l in lines if not l.lstrip().startswith("-viscos_0 ")]
        return "\n".join(lines)
    want = {(k, n): ser_text(k, l) for k, n, l in blocks(R1)[0] if k in SERIAL_KINDS and 0 <= n <= nmax}
    got = {(k, n): ser_text(k, l) for k, n, l in blocks(Rs)[0]}
    ctx.event("excluded_serializer_viscos_0")
    if want != got:
        for key in sorted(set(want) | set(got)):
            if want.get(key) != got.get(key):
                raise Violation("serializer", "%s %d after Serialize->Deserialize: %s" % (
                    key[0], key[1], first_diff(want.get(key, "<absent>"), got.get(key, "<absent>"))))

    # a second Serializer copy, taken before the original is used, serves as the noisy replica of that route
    S2 = inst()
    A.serialize_into(S2, 0, nmax)

    # follow-up on the original
    TA, errA = run_follow(A, case)
    if TA is None:
        raise Discard("followup_error_original")

    # (1) reading D1 into another instance raises no errors
    B = inst()
    rc = B.run_string(D1)
    if rc != 0 or B.errors().strip():
        raise Violation("read_errors", "reading the dump back gave %d error(s): %s" % (rc, B.errors()[:600]))
    D2 = dump_of(B, "dump")
    # (2b) every field that is not a workspace variable survives the cycle
    F2 = fields(D2)
    for w in sorted(workspace_diffs(F1, F2)):
        classes.append("workspace_variable_changed_by_cycle:" + w)
    fd = field_diff(F1, F2)
    if fd:
        p, a, b = fd[0]
        raise Violation("field_equal", "%d field(s) differ between the dump and the dump of the restored state, first: %s: %s -> %s"
                        % (len(fd), " / ".join(p), a, b))
    # (2a) fixed point: same instance re-reads its own dump; a third instance reads D2
    rc = B.run_string(D2)
    if rc != 0 or B.errors().strip():
        raise Violation("read_errors", "re-reading the second dump into the same instance gave errors: %s" % B.errors()[:600])
    D3s = dump_of(B, "dump")
    fixed_point(D2, D3s, ctx, "same instance re-reading its own dump")
    C = inst()
    rc = C.run_string(D2)
    if rc != 0 or C.errors().strip():
        raise Violation("read_errors", "reading the second dump gave errors: %s" % C.errors()[:600])
    D3 = dump_of(C, "dump")
    fixed_point(D2, D3, ctx, "third instance reading the second dump")
    # (5b) storage-bin round trip on the restored state
    Rb = raw_dump(B)
    B.roundtrip_storagebin()
    Rb2 = raw_dump(B)
    if Rb2 != Rb:
        raise Violation("storagebin", "dump_raw after phreeqc2cxxStorageBin -> cxxStorageBin2phreeqc differs: %s" % first_diff(Rb, Rb2))

    # (4b) SOLUTION_MODIFY with *element* totals (bare names, valence states summed) + total H, total O, charge onto the
    # restored solutions themselves (which hold their elements per valence state), and the mixed variant (every second
    # element by valence state): no errors, and afterwards every element is held exactly once with the amount handed over
    Eb = Eb2 = None
    if P1:
        Eb, Eb2 = inst(), inst()
        for I, mixed, what in ((Eb, False, "element totals"), (Eb2, True, "element + valence totals")):
            rc = I.run_string(D1)
            if rc == 0:
                rc = I.run_string(modify_elements_input(P1, mixed))
            if rc != 0 or I.errors().strip():
                raise Violation("read_errors", "SOLUTION_MODIFY with %s gave errors: %s" % (what, I.errors()[:600]))
            check_element_inventory(P1, dump_of(I, "dump"), what)
        if any(multi_valence_elements(e) for k, e in P1.items() if k[0] == "SOLUTION"):
            classes.append("modify_element_totals_onto_multi_valence_solution")

    poised = redox in ("inert", "o2")
    stats = {}
    cols = case["cols"]
    fp = "follow_p" if case.get("follow_p") else "follow"   # hand-written replays may come without the perturbed follow-up
    if TA.rows < 2:
        # nothing reacts in this cell (a solution without reactants): the follow-up punches no row
        classes.append("followup_without_rows")
    elif not poised:
        classes.append("followup_not_compared_unpoised")
    elif solid_solution_fragile(P1):
        classes.append("followup_not_compared_solid_solution_in_multi_assemblage_setting")
    else:
        # Stability guard (DESIGN section 4 rule 7, extended from redox to every kind of ill-conditioning): each route is
        # judged only when the follow-up is reproducible under noise of the size the route legitimately introduces -
        # amounts changed by +-3e-13 relative (30x the rounding of the 14-digit text) and another solver history (an
        # unrelated initial-solution calculation first).  The noisy replica of the original is a second instance that
        # ran the same history; its amounts are perturbed through a MIX in the input language, not through the dump.
        Ap = inst()
        TAp = None
        if all(Ap.run_string(s) == 0 for s in case["sims"]) and Ap.run_string(NOISE_SIM) == 0:
            TAp, _e = run_follow(Ap, case, fp)
        ok_a = well_conditioned(TA, TAp, cols, redox) or fp == "follow" and TAp is not None and TAp.rows == TA.rows
        if not ok_a:
            classes.append("followup_not_compared_original_not_reproducible_under_noise")
        extra = block_text(D1, lambda k, n: k in ("MIX", "REACTION"))

        def route(name, I, Ip, prepared_p):
            """follow-up on the restored copy I, judged against the original when its noisy replica Ip agrees with it"""
            T, err = run_follow(I, case)
            if T is None and not_converged(err):
                # a numerical failure is outside the property's domain (DESIGN section 4 rule 1), whichever copy it hits
                classes.append("followup_%s_not_converged" % name)
                return
            if T is None:
                raise Violation("follow_" + name, "the follow-up runs on the original but is rejected on the %s copy: %s" % (name, err[:400]))
            Tp = None
            if prepared_p and Ip.run_string(NOISE_SIM) == 0:
                Tp, _e = run_follow(Ip, case, fp)
            if not ok_a:
                return
            if not well_conditioned(T, Tp, cols, redox):
                classes.append("followup_%s_not_compared_not_reproducible_under_noise" % name)
                return
            try:
                compare_tables(TA, T, cols, redox, "follow_" + name, stats)
            except Violation as v:
                # Second opinion before an alarm: some systems have two self-consistent answers and which one the engine
                # reaches flips with noise of 1e-14 (seen: CD-MUSIC + Donnan layer with only_counter_ions near zero
                # charge; solid solutions next to other phases).  The difference counts only if three more runs on each
                # side (other noise amplitude, other solver history, other Newton step limits) reproduce *their* side.
                if not confirm(name, T):
                    classes.append("followup_%s_difference_not_confirmed_two_answers_under_noise" % name)
                    return
                raise v
            classes.append("followup_%s_compared" % name)

        VARIANTS = [(" -step_size 30\n -pe_step_size 5", NOISE_SIM, 1e-13),
                    (" -step_size 300\n -pe_step_size 20", NOISE_SIM.replace("7777", "7778").replace("Na 0.1", "K 0.3"), 7e-13),
                    (" -diagonal_scale true", "", 2e-12)]

        def variant_case(knobs):
            c2 = dict(case)
            for key in ("follow", "follow_p"):
                if case.get(key):
                    c2[key] = case[key].replace(" -iterations 400", " -iterations 400\n" + knobs, 1)
            return c2

        def confirm(name, T):
            """True when 3 further samples of the original agree with TA and 3 further samples of route `name` agree with T"""
            for knobs, noise, eps in VARIANTS:
                c2 = variant_case(knobs)
                # original side: a replica of the history, perturbed only through the input language
                X = inst()
                if not all(X.run_string(s) == 0 for s in case["sims"]) or (noise and X.run_string(noise) != 0):
                    return False
                TX, _e = run_follow(X, c2, fp)
                if not well_conditioned(TA, TX, cols, redox):
                    return False
                # route side
                Y = inst()
                if name == "restored":
                    ok = Y.run_string(perturb(D1, eps)) == 0
                elif name == "serializer":
                    X2 = inst()
                    ok = all(X2.run_string(s) == 0 for s in case["sims"]) and X2.serialize_into(Y, 0, nmax) is not None
                    if ok and extra.strip():
                        ok = Y.run_string(extra + "END\n") == 0
                elif name == "solution_modify_elements":
                    Dp = perturb(D1, eps)
                    ok = Y.run_string(Dp) == 0 and Y.run_string(modify_elements_input(R.parse(Dp), eps > 5e-13)) == 0
                else:
                    pl, rs = modify_input(perturb(D1, eps), R.parse(perturb(D1, eps)))
                    ok = Y.run_string(pl) == 0 and Y.run_string(rs) == 0
                if not ok or (noise and Y.run_string(noise) != 0):
                    return False
                TY, _e = run_follow(Y, c2)
                if not well_conditioned(T, TY, cols, redox):
                    return False
            return True

        # (3) text-restored (+ storage-bin round-tripped) state; replica: restored from the perturbed dump
        Bp = inst()
        route("restored", B, Bp, Bp.run_string(perturb(D1)) == 0)
        # (5c) Serializer copy (+ MIX / REACTION, which the Serializer does not carry, from the dump text)
        okx = True
        if extra.strip():
            if S.run_string(extra + "END\n") != 0:
                raise Violation("read_errors", "reading MIX/REACTION blocks gave errors: %s" % S.errors()[:400])
            okx = S2.run_string(extra + "END\n") == 0
        route("serializer", S, S2, okx)
        # (4) SOLUTION_MODIFY with totals, total_h, total_o, cb only (the solver then starts from the placeholder's
        # pure-water estimates); replica: the same plus the starting estimates of the dump
        if P1 and "KINETICS" in kinds:
            # with kinetic reactants the follow-up integrates over time; started from the placeholder's pure-water
            # estimates every one of the integrator's equilibrium calls may run through all convergence fall-backs
            # (seen: > 10 min for one case) -> this route is only taken for cells without kinetics
            classes.append("followup_solution_modify_skipped_kinetics")
        elif P1:
            E, E2 = inst(), inst()
            place, restore = modify_input(D1, P1)
            place2, restore2 = modify_input(D1, P1, estimates=True)
            if E.run_string(place) != 0:
                ctx.event("modify_leg_placeholder_error")
            else:
                rc = E.run_string(restore)
                if rc != 0 or E.errors().strip():
                    raise Violation("read_errors", "SOLUTION_MODIFY / RAW restore gave errors: %s" % E.errors()[:600])
                route("solution_modify", E, E2, E2.run_string(place2) == 0 and E2.run_string(restore2) == 0)
        # (4b) follow-up after restoring element totals; replica: the mixed variant
        if Eb is not None:
            route("solution_modify_elements", Eb, Eb2, True)
    if stats:
        # largest follow-up deviation seen, in units of the tolerance (one entry per shard)
        ctx.extra["followup_max_deviation_over_tolerance"] = [max([(ctx.extra.get("followup_max_deviation_over_tolerance") or [0.0])[0]] + list(stats.values()))]
    for k in sorted(kinds - {"SOLUTION"}):       # (every case holds solutions)
        classes.append("kind_" + k)
    classes.append("kinds=%s" % ("1-2" if len(kinds) <= 2 else "3-4" if len(kinds) <= 4 else "5-7" if len(kinds) <= 7 else ">=8"))
    for s in sorted(sub):
        classes.append("sub_" + s)
    nt = len(kinds) >= 3 or bool(sub - DEFAULT_SUB)
    return {"nontrivial": nt, "classes": classes}


def run(ctx):
    n = BUDGET[ctx.tier]
    ctx.hyp(G.case_strategy(ctx.tier), lambda c: check_case(c, ctx), n, "states")
