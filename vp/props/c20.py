"""C20 - surface complexation obeys site balance, electrostatic mass action and the charge laws.

One oracle clause per sentence of the property (all evaluated in Python from the database / input TEXT, vp/dbparse.py, and the
textbook double-layer relations in vp/edl.py; nothing is taken from the code under test except the documented read-outs):

  site_balance     for every site type: sum over ALL its surface species of (site stoichiometry x moles) = the defined sites
                   (moles entered; sites/nm2 x area; or proportion x moles of the related phase / kinetic reactant)        1e-8 rel
  mass_action      every surface species' equation as written (database or generated SURFACE_SPECIES text), log K(T) from that
                   text, plus the electrostatic term of the model: none (-no_edl); -dz F psi/(RT ln10) (diffuse layer, constant
                   capacitance; dz = change of surface charge by the reaction); the three-plane CD-MUSIC term with psi0, psi1, psi2
                   and the -cd_music charge distribution
  charge_potential sigma from the species, F sum(z n)/A, equals at the REPORTED potential: Gouy-Chapman with the reported MU, EPS_R,
                   TK (diffuse-layer model without explicit layer, and with a Donnan layer); C psi (constant capacitance); CD-MUSIC:
                   sigma0 = C1(psi0-psi1), sigma0+sigma1 = C2(psi1-psi2), sigma0+sigma1+sigma2 = Grahame charge at psi2       1e-8 rel
                   (+ the solver's own criteria, see ASSUMPTIONS); -diffuse_layer (Borkovec-Westall): gross-error Grahame clause only
                   (2e-2, |psi| >= 50 mV, I >= 1e-3)
  dl_balance       explicit diffuse layer (-diffuse_layer, -donnan): sum z * (moles in the layer, EDL_SPECIES) = -(surface charge)
Nothing else is asserted.
"""
import math, re, os, hashlib
from hypothesis import strategies as st
from .. import lib, chemgen as cg, dbparse, formula as F, edl
from ..core import Violation, Discard

ID = "C20"
LEVEL = "exploration"
RULE = ("Hypothesis-generated SURFACE calculations: Hfo_w/Hfo_s of phreeqc.dat, wateq4f.dat, minteq.v4.dat and generated "
        "SURFACE_MASTER_SPECIES/SURFACE_SPECIES (1-2 site types, protonation, mono-/bidentate cations, anions, species written from a "
        "non-master species, delta_h, -cd_music in 3- and 5-number form); site densities 0.05-20 /nm2 on 1-1000 m2/g x 0.01-10 g, entered "
        "as moles or sites/nm2; pH 3-11, I 1e-4..1, 0-4 sorbing ions (Ca..Pb, SO4, PO4, F, B, Si), 5-60 C; models -no_edl, diffuse layer, -diffuse_layer d, -donnan "
        "(d | debye_lengths [limit_ddl] | viscosity), -only_counter_ions, -ccm C, -cd_music (+ -donnan) with capacitances; 1-2 surfaces "
        "per SURFACE; -equilibrate and/or batch reaction with 0-3 REACTION steps; surfaces related to an equilibrium phase or a kinetic "
        "reactant (dissolving); in a quarter of the cases a second simulation re-uses the SAVEd surface/solution/phases under a further "
        "REACTION. Every selected-output row that carries a surface (i_surf, react) is checked. Non-trivial = >=3 surface species each "
        "holding >=1e-9 of its site type and (|psi| > 5 mV on some surface, or -no_edl); distinct by SHA-256 of the case")
ASSUMPTIONS = ["vp/dbparse.py + vp/formula.py read SURFACE_MASTER_SPECIES / SURFACE_SPECIES text as the PHREEQC manual defines it; the "
               "site stoichiometry of a species is the count of the site element in its formula, its charge the charge in its name",
               "model constants of the documented model (DESIGN 4.6): F = 96493.5 C/mol, R = 8.31470 J/mol/K, eps0 = 8.854e-12, "
               "N_A = 6.02252e23 (sites/nm2 conversion); molality is used as mol/L in the Gouy-Chapman / Grahame expressions",
               "log K(T) of surface species: van 't Hoff with delta_h (kJ default), Tref 298.15 K; analytic expression if given",
               "activities of surface species are taken from LA() on both sides of the as-written equation (the activity convention "
               "cancels); LA(H2O), LA(e-) and the potentials EDL(psi|psi1|psi2) are read from the engine, MU/EPS_R/TK likewise",
               "moles of a species = MOL() x TOT(water); a species reported with LA <= -99 is absent",
               "CD-MUSIC: the charge a species puts on planes 0/1/2 is the master species' charge (plane 0) plus the -cd_music changes "
               "accumulated along the as-written reactions; the diffuse-layer charge is the Grahame (mixed-electrolyte) expression; "
               "when the bulk solution is not electroneutral (surface charge not compensated) the textbook expression is not defined "
               "uniquely: the value must lie between the expression without and with a monovalent ion completing electroneutrality",
               "-diffuse_layer (Borkovec-Westall): the layer is a numerical integration of the Poisson-Boltzmann profile, whose charge is "
               "the Grahame charge of the mixed bulk electrolyte; its integration error is not tied to a documented criterion (measured "
               "on the unchanged tree: <= 8e-5 for |psi| >= 50 mV and I >= 1e-3, 1.25e-2 at 10.6 mV and I = 1e-4, several % below 1 mV), "
               "so only a gross-error clause is asserted (2e-2 relative, |psi| >= 50 mV, I >= 1e-3, electroneutral bulk, not with "
               "-only_counter_ions; the worst deviation seen is written to the evidence); CD-MUSIC with -donnan: no relation "
               "for plane 2 is documented (see the report: it follows Gouy-Chapman only for symmetric electrolytes), none asserted; "
               "in both cases the dl_balance clause closes the charge balance",
               "dl_balance and the Donnan Gouy-Chapman clause: the layer composition g_i is renewed AFTER the last charge-balance solve "
               "and accepted when |dg_i| <= convergence_tolerance (relative for |g| >= 1), and the charge balance itself is accepted at "
               "convergence_tolerance equivalents, hence |sum z n_DL + q| <= 1e-8 |q| + convergence_tolerance * sum |z_i| n_i max(1, |g_i|) "
               "+ 10 * convergence_tolerance (for Gouy-Chapman x F/area); n_i, g_i from the reported bulk and layer amounts",
               "dl_balance compares the layer's ion CONTENT (EDL_SPECIES) with the surface charge; content and excess differ by (layer "
               "water) x (bulk charge imbalance), so the clause is asserted only when that product is below a tenth of the tolerance",
               "CD-MUSIC plane 0 holds the master-species charge of every site, booked by the solver with the defined site totals: its "
               "site-balance criterion (convergence_tolerance relative, or KNOBS -tolerance 1e-15 mol absolute) enters the plane "
               "relations as 10 F |z_master| dn / area; near zero potential the Grahame expression itself is resolved only to "
               "sqrt(2000 eps eps0 R T 16 ulp sum c_i) (~ 5e-9 C/m2) in double precision",
               "inputs set KNOBS -convergence_tolerance 1e-12; absolute floors: 1e-14 mol (site balance), 1e-11 C/m2 (charge laws)",
               "kinetic reactants only dissolve (the generated solutions do not hold their elements; growth never completes)"]
TECHNIQUE = "property-based testing (Hypothesis) against an independent reference evaluation of database text and textbook EDL relations"
LEVEL_TEXT = ("Exploration: thousands of generated surface calculations per run over six electrostatic model classes; every site balance, "
              "every as-written mass-action equation with its electrostatic term, and every charge-potential / layer-balance relation of "
              "every surface in every row is re-evaluated in Python. Not a proof: compositions, surfaces and options are sampled.")
FLOORS = {"quick": 300, "thorough": 3000}
SHARDS = {"quick": 8, "thorough": 16}
BUDGET = {"quick": 500, "thorough": 3000, "replay": 1}

DATABASES = [("phreeqc.dat", 3), ("wateq4f.dat", 2), ("minteq.v4.dat", 2)]
MODELS = ["no_edl", "ddl", "ddl", "dl_bw", "donnan", "donnan", "ccm", "cdmusic", "cdmusic", "cdmusic_donnan"]
ABSENT = -99.0
TOL_REL = 1e-8
TOL_MA = 4e-9                 # log10 units (= 1e-8 relative in the activity product)
CONV_TOL = 1e-12
TOL_BW_GRAHAME = 2e-2
BW_MIN_PSI = 0.050
BW_MIN_MU = 1e-3
SITE_ABS_TOL = 1e-15          # KNOBS -tolerance (default): absolute acceptance of a mole-balance residual, mol
TOL_G = CONV_TOL            # the diffuse-layer composition g is iterated to |dg| <= convergence_tolerance
# sorbing elements entered in SOLUTION (label -> formal charge used only for choosing the charge-balancing ion)
CATIONS = ["Ca", "Mg", "Sr", "Ba", "Zn", "Cd", "Cu", "Pb", "Ni", "Co", "Be"]
ANIONS = ["S(6)", "P", "F", "B", "Si"]
# (no nitrate background: in batch-reaction rows N(5) is reduced towards N2/NH4+ at the redox equilibrium of the un-poised system, and
#  with an explicit Borkovec-Westall layer single cases then took 1-5 minutes of engine time)
BACKGROUND = [("Na", "Cl"), ("K", "Cl"), ("Na", "Cl")]
USER_SURFACES = ["Sfa", "Sfb", "Goe", "Mno"]
REACTANTS = ["NaOH", "HCl", "NaCl", "ZnCl2", "CaCl2", "Na2SO4", "CdCl2", "NaH2PO4", "KOH", "H2SO4"]


def prepare(tier):
    lib.build("rel", ["libiphreeqc_rel.so"])


# ----------------------------------------------------------------------------------------------- database views
_INFO = {}


class DbInfo(object):
    def __init__(self, name):
        db = dbparse.load(name)
        if db.problems:
            raise RuntimeError("database %s not read completely: %r" % (name, db.problems[:3]))
        self.db = db
        self.name = name
        self.hplus = db.master["H"].species
        self.water = db.master["O"].species
        self.eminus = db.master["E"].species
        self.sites = list(db.surface_master)
        # elements that appear in surface species (besides the site, H, O): candidates for sorbing ions
        els = set()
        for s in db.surface_species.values():
            els |= set(s.elements)
        self.sorbing = els
        self.elem_ok = {m.base for m in db.master.values() if m.species in db.species}

    def label_ok(self, lab):
        lab = dbparse.norm_element(lab)
        return lab in self.db.master and self.db.master[lab].species in self.db.species

    def aqueous_for(self, elements):
        ok = set(elements) | {"H", "O", "e"}
        return [s.name for s in self.db.species.values() if set(s.elements) <= ok]


def info(name):
    if name not in _INFO:
        _INFO[name] = DbInfo(name)
    return _INFO[name]


_UDB = {}


def user_db(text):
    if text not in _UDB:
        if len(_UDB) > 200:
            _UDB.clear()
        d = dbparse.parse_text(text, "<generated SURFACE_SPECIES>")
        if d.problems:
            raise RuntimeError("generated definitions not read: %r\n%s" % (d.problems[:3], text))
        _UDB[text] = d
    return _UDB[text]


def surface_name(site):
    return site.split("_")[0]


# ----------------------------------------------------------------------------------------------- generator
def _r(x, d=4):
    return float("%.*g" % (d, x))


def uni2(lo, hi):
    """uniform, two decimals (no denormal left-overs in the generated text)"""
    return st.floats(lo, hi, allow_nan=False).map(lambda x: round(x, 2) + 0.0)


def _zs(z):
    """charge suffix"""
    if abs(z) < 1e-12:
        return ""
    s = "+" if z > 0 else "-"
    a = abs(z)
    if abs(a - 1) < 1e-12:
        return s
    return s + ("%d" % round(a) if abs(a - round(a)) < 1e-12 else "%g" % a)


@st.composite
def user_surface_st(draw, inf, name, cd, cations, anions):
    """generated SURFACE_MASTER_SPECIES / SURFACE_SPECIES for one surface `name` (1-2 site types)"""
    db = inf.db
    nsite = draw(st.integers(1, 2))
    sites = []
    for k in range(nsite):
        site = "%s_%s" % (name, "ab"[k])
        if cd:
            zM = draw(st.sampled_from([-0.5, -0.5, 0.0]))
            body = draw(st.sampled_from(["OH", "O", "OH"]))
        else:
            zM = 0.0
            body = "OH"
        master = site + body + _zs(zM)
        sp = []

        def cdnum(dz_total):
            """-cd_music numbers whose plane changes add up to the charge change dz_total"""
            if not cd:
                return None
            form = draw(st.integers(0, 3))
            dz2 = draw(st.sampled_from([0.0, 0.0, 0.0, 0.2, -0.25]))
            dz0 = round(draw(st.floats(-1.0, 1.5)), 2) + 0.0 if draw(st.booleans()) else float(round(dz_total))
            dz1 = dz_total - dz0 - dz2
            if form == 0:
                # five-number form: n1 + f*zc = dz0, n2 + (1-f)*zc = dz1
                f = draw(st.sampled_from([0.25, 0.5, 0.6, 0.0]))
                zc = float(draw(st.sampled_from([2, 3, 5, 6])))
                return [_r(dz0 - f * zc, 6), _r(dz1 - (1 - f) * zc, 6), dz2, f, zc]
            return [_r(dz0, 6), _r(dz1, 6), dz2, 0, 0]

        # identity
        sp.append({"eq": "%s = %s" % (master, master), "log_k": 0.0, "cd": [0, 0, 0, 0, 0] if cd else None})
        # protonation
        lk1 = draw(cg.uni(4.0, 10.0, 3))
        prot = site + ("OH2" if body == "OH" else "OH") + _zs(zM + 1)
        sp.append({"eq": "%s + H+ = %s" % (master, prot), "log_k": lk1, "cd": cdnum(1.0),
                   "dh": draw(st.sampled_from([None, None, round(draw(st.floats(-60.0, 20.0)), 1) + 0.0]))})
        have_deprot = body == "OH"
        if have_deprot:
            lk2 = -draw(cg.uni(6.0, 11.5, 3))
            dep = site + "O" + _zs(zM - 1)
            sp.append({"eq": "%s = %s + H+" % (master, dep), "log_k": lk2, "cd": cdnum(-1.0),
                       "dh": draw(st.sampled_from([None, None, round(draw(st.floats(-10.0, 60.0)), 1) + 0.0]))})
        used = {master, prot}
        for el in cations:
            ms = db.master[el].species
            mbody, zc = F.split_charge(ms)
            kinds = draw(st.lists(st.sampled_from(["mono", "bi", "add", "hydroxo"]), min_size=1, max_size=3, unique=True))
            for kd in kinds:
                if kd == "mono" and body == "OH":
                    nm = site + "O" + mbody + _zs(zM + zc - 1)
                    eq = "%s + %s = %s + H+" % (master, ms, nm)
                    dz = zc - 1
                    lk = draw(uni2(-5.0, 4.0))
                elif kd == "bi" and body == "OH":
                    nm = "(" + site + "O)2" + mbody + _zs(2 * zM + zc - 2)
                    eq = "2%s + %s = %s + 2H+" % (master, ms, nm)
                    dz = zc - 2
                    lk = draw(uni2(-9.0, 1.0))
                elif kd == "hydroxo" and body == "OH":
                    nm = site + "O" + mbody + "OH" + _zs(zM + zc - 2)
                    eq = "%s + %s + H2O = %s + 2H+" % (master, ms, nm)
                    dz = zc - 2
                    lk = draw(cg.uni(-12.0, -3.0, 3))
                else:
                    nm = site + body + mbody + _zs(zM + zc)
                    eq = "%s + %s = %s" % (master, ms, nm)
                    dz = zc
                    lk = draw(cg.uni(0.0, 6.0, 3))
                if nm in used:
                    continue
                used.add(nm)
                sp.append({"eq": eq, "log_k": lk, "cd": cdnum(float(dz)),
                           "dh": draw(st.sampled_from([None, None, None, round(draw(st.floats(-40.0, 40.0)), 1) + 0.0]))})
        for el in anions:
            ms = db.master[dbparse.norm_element(el)].species
            abody, za = F.split_charge(ms)
            if za == 0:
                # neutral acid master species (H4SiO4, H3BO3): adduct
                nm = site + body + abody + _zs(zM + za)
                eq = "%s + %s = %s" % (master, ms, nm)
                dz = za
                lk = draw(cg.uni(0.0, 5.0, 3))
            elif body == "OH" and draw(st.booleans()):
                nm = site + abody + _zs(zM + za + 1)
                eq = "%s + %s + H+ = %s + H2O" % (master, ms, nm)
                dz = za + 1
                lk = draw(cg.uni(5.0, 12.0, 3))
            else:
                nm = site + body + abody + _zs(zM + za)
                eq = "%s + %s = %s" % (master, ms, nm)
                dz = za
                lk = draw(cg.uni(0.0, 5.0, 3))
            if nm in used:
                continue
            used.add(nm)
            sp.append({"eq": eq, "log_k": lk, "cd": cdnum(float(dz))})
        # a species written from a NON-master surface species (tests the rewrite to master species)
        if draw(st.booleans()):
            bg = draw(st.sampled_from(["Cl-", "Na+"]))
            if bg == "Cl-":
                pb, pz = F.split_charge(prot)
                nm = pb + "Cl" + _zs(pz - 1)
                eq = "%s + Cl- = %s" % (prot, nm)
                dz = -1.0
            elif have_deprot:
                pb, pz = F.split_charge(dep)
                nm = pb + "Na" + _zs(pz + 1)
                eq = "%s + Na+ = %s" % (dep, nm)
                dz = 1.0
            else:
                nm = None
            if nm and nm not in used:
                used.add(nm)
                sp.append({"eq": eq, "log_k": draw(uni2(-1.5, 2.5)), "cd": cdnum(dz)})
        sites.append({"site": site, "master": master, "z": zM, "species": sp})
    return {"name": name, "sites": sites}


def render_defs(defs):
    if not defs:
        return ""
    L = ["SURFACE_MASTER_SPECIES"]
    for d in defs:
        for s in d["sites"]:
            L.append(" %s %s" % (s["site"], s["master"]))
    L.append("SURFACE_SPECIES")
    for d in defs:
        for s in d["sites"]:
            for sp in s["species"]:
                L.append(" " + sp["eq"])
                L.append("  log_k %s" % cg.fmt(sp["log_k"]))
                if sp.get("dh") is not None:
                    L.append("  delta_h %s kJ" % cg.fmt(sp["dh"]))
                if sp.get("cd") is not None:
                    L.append("  -cd_music " + " ".join(cg.fmt(float(x)) if float(x) != int(float(x)) else str(int(float(x))) for x in sp["cd"]))
    return "\n".join(L) + "\n"


def eff_charge(label, pH):
    """rough charge per mole of a total at this pH (only used to pick the ion that carries `charge`)"""
    z = {"Na": 1, "K": 1, "Cl": -1, "N(5)": -1, "F": -1, "S(6)": -2, "Si": 0.0}
    if label in z:
        return z[label]
    if label == "P":
        return -(1.0 + 1.0 / (1.0 + 10 ** (7.2 - pH)) + 1.0 / (1.0 + 10 ** (12.3 - pH))) if pH > 2.1 else -0.5
    if label == "B":
        return -1.0 / (1.0 + 10 ** (9.2 - pH))
    if label == "Fe":
        return 2.0
    return 2.0


@st.composite
def solution_st(draw, inf, cations, anions, fe=False):
    pH = draw(cg.uni(3.0, 11.0, 3))
    temp = draw(st.one_of(st.just(25.0), st.just(25.0), cg.uni(5.0, 60.0, 3)))
    cat, an = draw(st.sampled_from([b for b in BACKGROUND if inf.label_ok(b[0]) and inf.label_ok(b[1])]))
    I = draw(cg.logu(1e-4, 1.0, 3))
    comps = [[cat, I, ""], [an, I, ""]]
    hi = min(1e-3, 0.2 * I)
    for e in cations + anions:
        comps.append([e, draw(cg.logu(1e-8, hi, 3)), ""])
    if fe:
        comps.append(["Fe", draw(cg.logu(1e-8, min(1e-5, hi), 3)), ""])
    imb = sum(eff_charge(c[0], pH) * c[1] for c in comps) + 10 ** -pH - 10 ** (pH - 14.0)
    # the background ion whose amount has to be RAISED carries the charge balance
    comps[1 if imb > 0 else 0][2] = "charge"
    return {"number": 1, "temp": temp, "pH": pH, "pe": 4.0, "units": "mol/kgw", "comps": comps}


RELATED_PHASES = {"phreeqc.dat": ["Fe(OH)3(a)", "Goethite", "Gibbsite"], "wateq4f.dat": ["Fe(OH)3(a)", "Goethite", "Gibbsite"],
                  "minteq.v4.dat": ["Ferrihydrite", "Goethite", "Gibbsite"]}


SERIES_MODELS = ["no_edl", "ddl", "dl_bw", "donnan", "ccm", "ccm", "cdmusic", "cdmusic_donnan"]


@st.composite
def case_st(draw, series=False):
    """series=True: the time-series leg - ONE surface whose sites and area follow a kinetic reactant (first-order change by 10-60 % per
    step over 3-5 cumulative time steps, decreasing, or growing where the solution holds the reactant's elements) or an equilibrium
    phase (3-5 REACTION steps that dissolve or precipitate it), for every electrostatic model"""
    dbn = draw(st.sampled_from([d for d, w in DATABASES for _ in range(w)]))
    inf = info(dbn)
    model = draw(st.sampled_from(SERIES_MODELS if series else MODELS))
    cd = model.startswith("cdmusic")
    # sorbing ions
    cats = [e for e in CATIONS if e in inf.sorbing and inf.label_ok(e)]
    ans = [e for e in ANIONS if dbparse.base_element(e) in inf.sorbing and inf.label_ok(e)]
    cations = draw(st.lists(st.sampled_from(cats), min_size=0, max_size=2, unique=True))
    anions = draw(st.lists(st.sampled_from(ans), min_size=0, max_size=2 if cations else 1, unique=True))
    # surfaces
    nsurf = 1 if series else draw(st.sampled_from([1, 1, 1, 2]))
    kinds = []
    if cd:
        kinds = ["user"] * nsurf
    else:
        kinds = [draw(st.sampled_from(["db", "db", "user"])) for _ in range(nsurf)]
        if kinds.count("db") == 2:
            kinds[1] = "user"
    defs = []
    unames = draw(st.permutations(USER_SURFACES))
    related = series or (draw(st.integers(0, 5)) == 0 and nsurf == 1)
    rel = None
    if related:
        rel = {"kind": draw(st.sampled_from(["kinetic", "kinetic", "phase"] if series else ["phase", "phase", "kinetic"])),
               "phase": draw(st.sampled_from(RELATED_PHASES[dbn]))}
    excl = None
    surfs = []
    units = draw(st.sampled_from(["absolute", "absolute", "density"])) if not related else "absolute"
    for k, kd in enumerate(kinds):
        area = draw(cg.logu(1.0, 1000.0, 3))
        mass = draw(cg.logu(0.01, 10.0, 3))
        if kd == "db":
            name = "Hfo"
            sites = ["Hfo_w"] + (["Hfo_s"] if draw(st.booleans()) else [])
            masters = {s: inf.db.surface_master[s].species for s in sites}
        else:
            name = unames[k]
            d = draw(user_surface_st(inf, name, cd, cations, anions))
            defs.append(d)
            sites = [s["site"] for s in d["sites"]]
            masters = {s["site"]: s["master"] for s in d["sites"]}
        sl = []
        for j, s in enumerate(sites):
            dens = draw(cg.logu(0.05, 20.0, 3)) * (1.0 if j == 0 else draw(cg.logu(0.01, 1.0, 2)))
            if related:
                val = None
            elif units == "density":
                val = _r(dens, 4)
            else:
                val = _r(edl.sites_from_density(dens, area * mass), 4)
            # formula written on the SURFACE line: the master species (required for CD-MUSIC: carries the site charge) or the site name
            formula = masters[s] if (cd or draw(st.booleans())) else s
            sl.append({"site": s, "formula": formula, "value": val})
        su = {"name": name, "area": area, "mass": mass, "sites": sl}
        if model == "ccm":
            su["cap"] = [draw(cg.logu(0.2, 5.0, 3))]
        if cd:
            su["cap"] = [draw(cg.logu(0.3, 4.0, 3)), draw(cg.logu(0.5, 8.0, 3))]
        if related:
            # sites per mole of phase / reactant and m2 per mole
            # (time-series leg: sites >= 1e-6 mol; with smaller surfaces and an explicit layer the engine can spend minutes before
            # it gives up on a case)
            su["rel_prop"] = [draw(cg.logu(0.01 if series else 0.001, 0.5, 3)) * (1.0 if j == 0 else 0.05) for j in range(len(sl))]
            su["rel_area"] = draw(cg.logu(1e3, 1e5, 3))
        surfs.append(su)
    fe = bool(rel) and rel["phase"] in ("Fe(OH)3(a)", "Goethite", "Ferrihydrite") and draw(st.booleans())
    sol = draw(solution_st(inf, cations, anions, fe=fe))
    surface = {"model": model, "surfs": surfs, "units": units, "equil": draw(st.sampled_from([True, True, False]))}
    if model == "dl_bw":
        surface["dl"] = {"kind": "diffuse_layer", "thickness": draw(st.sampled_from([None, _r(draw(cg.logu(1e-9, 3e-8, 3)), 3)]))}
    elif model in ("donnan", "cdmusic_donnan"):
        k = draw(st.integers(0, 3)) if model == "donnan" else draw(st.sampled_from([0, 0, 3]))
        dl = {"kind": "donnan"}
        if k == 0:
            dl["thickness"] = draw(st.sampled_from([None, _r(draw(cg.logu(1e-9, 3e-8, 3)), 3)]))
        elif k == 1:
            dl["debye"] = draw(cg.uni(0.5, 4.0, 2))
        elif k == 2:
            dl["debye"] = draw(cg.uni(0.5, 4.0, 2))
            dl["limit"] = draw(cg.uni(0.1, 0.9, 2))
        else:
            dl["thickness"] = _r(draw(cg.logu(1e-9, 3e-8, 3)), 3)
            dl["visc"] = draw(cg.uni(0.2, 1.0, 2))
        surface["dl"] = dl
    if surface.get("dl") and draw(st.integers(0, 3)) == 0:
        surface["oci"] = True
    case = {"db": dbn, "defs": defs, "sol": sol, "surface": surface}
    if excl:
        case["excl"] = excl
    if series:
        case["series"] = True
        nst = draw(st.integers(3, 5))
        f = draw(cg.uni(0.1, 0.6, 2))
        grow = draw(st.integers(0, 2)) == 0
        rel["steps"] = nst
        if rel["kind"] == "kinetic":
            # first-order law  dm/dt = -k m : the amount changes by the same fraction f in every step
            rel["law"] = "first_order"
            rel["time"] = draw(st.sampled_from([100.0, 3600.0, 86400.0])) * nst
            bg = sol["comps"][0]                      # background cation (Na / K) and its molality
            if grow and bg[1] >= 1e-3:
                # growth only from elements the solution holds: the hydroxide of the background cation, at most 30 % of it in total
                rel["formula"] = bg[0] + "OH"
                rel["k"] = _r(-math.log(1.0 + f) / (rel["time"] / nst), 6)
                rel["m0"] = _r(min(draw(cg.logu(1e-4, 1e-2, 3)), 0.3 * bg[1] / ((1.0 + f) ** nst - 1.0)), 3)
            else:
                rel["k"] = _r(-math.log(1.0 - f) / (rel["time"] / nst), 6)
                rel["m0"] = draw(cg.logu(1e-4, 1e-2, 3))
        else:
            rel["si"] = 0.0
            rel["m0"] = draw(cg.logu(1e-4, 1e-2, 3))
            pf = phase_formula(inf, rel["phase"])
            if grow:
                # the phase's own formula added to the solution precipitates: the phase grows by the fraction f per step
                case["reaction"] = {"formula": pf, "moles": _r(rel["m0"] * ((1.0 + f) ** nst - 1.0), 4), "steps": nst}
            else:
                # acid dissolves the hydroxide: 3 H+ per mole (plus what brings the solution down to the pH where it dissolves)
                case["reaction"] = {"formula": "HCl", "moles": _r(3.0 * rel["m0"] * (1.0 - (1.0 - f) ** nst) + draw(cg.logu(1e-4, 1e-2, 2)), 4),
                                    "steps": nst}
        if draw(st.integers(0, 3)) == 0 and rel["kind"] == "phase":
            ok = [r for r in REACTANTS if all(e in inf.elem_ok for e in F.elements(r))]
            case["second"] = {"formula": draw(st.sampled_from(ok)), "moles": draw(cg.logu(1e-6, 3e-3, 3)), "steps": draw(st.integers(1, 2))}
        case["rel"] = rel
        return case
    if rel:
        case["rel"] = rel
        m0 = draw(cg.logu(1e-4, 1e-1, 3))
        rel["m0"] = m0
        if rel["kind"] == "phase":
            rel["si"] = draw(st.sampled_from([0.0, 0.0, 0.5, -0.5]))
        else:
            # dissolution only: the generated solutions do not hold the reactant's elements, a negative rate (growth) would ask for
            # negative concentrations and the rate integration never ends
            rel["rate"] = draw(cg.logu(1e-9, 1e-6, 2))
            rel["time"] = draw(st.sampled_from([100.0, 1000.0, 3600.0]))
            rel["steps"] = draw(st.integers(1, 3))
    if draw(st.integers(0, 2)) == 0 and not (rel and rel["kind"] == "kinetic"):
        ok = [r for r in REACTANTS if all(e in inf.elem_ok for e in F.elements(r))]
        case["reaction"] = {"formula": draw(st.sampled_from(ok)), "moles": draw(cg.logu(1e-6, 3e-3, 3)), "steps": draw(st.integers(1, 3))}
    # a second simulation that re-uses the SAVEd surface (and solution, phases) under a further REACTION
    if draw(st.integers(0, 3)) == 0 and not (rel and rel["kind"] == "kinetic"):
        ok = [r for r in REACTANTS if all(e in inf.elem_ok for e in F.elements(r))]
        case["second"] = {"formula": draw(st.sampled_from(ok)), "moles": draw(cg.logu(1e-6, 3e-3, 3)), "steps": draw(st.integers(1, 2))}
    return case


# ----------------------------------------------------------------------------------------------- model of a case (text level)
class Model(object):
    """everything the oracle knows about the surfaces of a case: from the database text and the generated definitions"""

    def __init__(self, case):
        inf = info(case["db"])
        self.inf = inf
        self.defs_text = render_defs(case.get("defs"))
        udb = user_db(self.defs_text) if self.defs_text else None
        self.udb = udb
        table = dict(inf.db.surface_species)
        masters = dict(inf.db.surface_master)
        if udb:
            table.update(udb.surface_species)
            masters.update(udb.surface_master)
        self.sites_all = masters
        self.surfs = case["surface"]["surfs"]
        self.site_names = [s["site"] for su in self.surfs for s in su["sites"]]
        self.species = {}         # site -> [Species] (complete list of the site type)
        self.sp_table = {}
        for site in self.site_names:
            L = [sp for sp in table.values() if site in sp.elements]
            self.species[site] = L
            for sp in L:
                self.sp_table[sp.name] = sp
        self.master_species = {site: masters[site].species for site in self.site_names}
        self.model = case["surface"]["model"]
        self.cd = self.model.startswith("cdmusic")
        if self.cd:
            self.planes = self._plane_charges()

    def logk(self, sp, TK):
        return sp.logk(TK, self.udb if (self.udb and sp.name in self.udb.surface_species) else self.inf.db)

    def dz_cd(self, sp):
        opt = sp.options.get("cd_music")
        nums = [float(x) for x in opt] if opt else []
        return edl.cd_music_dz(nums)

    def _plane_charges(self):
        """charge a species puts on planes 0, 1, 2: master species charge on plane 0, plus the -cd_music changes accumulated along the
        reactions as written"""
        planes = {}
        for site in self.site_names:
            ms = self.master_species[site]
            planes[ms] = (self.sp_table[ms].charge, 0.0, 0.0)
        for _ in range(8):
            done = True
            for sp in self.sp_table.values():
                if sp.name in planes:
                    continue
                cself = sum(c for c, n in sp.reaction if n == sp.name)
                acc = [0.0, 0.0, 0.0]
                ok = True
                for c, n in sp.reaction:
                    if n == sp.name or n not in self.sp_table:
                        continue
                    if n not in planes:
                        ok = False
                        break
                    for i in range(3):
                        acc[i] += -c * planes[n][i]
                if not ok or cself == 0:
                    done = False
                    continue
                dz = self.dz_cd(sp)
                planes[sp.name] = tuple((acc[i] + dz[i]) / cself for i in range(3))
            if done:
                break
        return planes


def case_elements(inf, case):
    els = set()
    for c in case["sol"]["comps"]:
        els.add(dbparse.base_element(dbparse.norm_element(c[0])))
    for k in ("reaction", "second"):
        if case.get(k):
            els |= set(F.elements(case[k]["formula"]))
    if case.get("rel"):
        ph = inf.db.phase(case["rel"]["phase"])
        els |= set(ph.elements)
        if case["rel"].get("formula"):
            els |= set(F.elements(case["rel"]["formula"]))
    return sorted(els - {"H", "O", "e"})


def phase_formula(inf, name):
    return inf.db.phase(name).formula


def build_input(case):
    inf = info(case["db"])
    M = Model(case)
    S = case["surface"]
    els = case_elements(inf, case)
    aq = inf.aqueous_for(els)
    items = [("TK", "TK"), ("MU", "MU"), ("EPS", "EPS_R"), ("W", 'TOT("water")'), ("CB", "CHARGE_BALANCE"),
             ("LA:" + inf.water, 'LA("%s")' % inf.water), ("LA:" + inf.eminus, 'LA("%s")' % inf.eminus), ("STEP", "STEP_NO")]
    model = S["model"]
    for su in S["surfs"]:
        n = su["name"]
        if model != "no_edl":
            items.append(("psi:" + n, 'EDL("psi","%s")' % n))
        if M.cd:
            items.append(("psi1:" + n, 'EDL("psi1","%s")' % n))
            items.append(("psi2:" + n, 'EDL("psi2","%s")' % n))
        if S.get("dl"):
            items.append(("dlw:" + n, 'EDL("water","%s")' % n))
    need_la = set()
    for site in M.site_names:
        for sp in M.species[site]:
            items.append(("LA:" + sp.name, 'LA("%s")' % sp.name))
            items.append(("MOL:" + sp.name, 'MOL("%s")' % sp.name))
            for c, nme in sp.reaction:
                if nme not in M.sp_table and nme not in (inf.water, inf.eminus):
                    need_la.add(nme)
    for nme in sorted(need_la):
        items.append(("LA:" + nme, 'LA("%s")' % nme))
    for nme in aq:
        if nme not in (inf.water, inf.eminus):
            items.append(("MOL:" + nme, 'MOL("%s")' % nme))
    rel = case.get("rel")
    if rel:
        if rel["kind"] == "phase":
            items.append(("REL", 'EQUI("%s")' % rel["phase"]))
        else:
            items.append(("REL", 'KIN("Relrate")'))
    NE = len(aq) + 4
    P = [M.defs_text + cg.KNOBS_TIGHT]
    if rel and rel["kind"] == "kinetic":
        if rel.get("law") == "first_order":
            P.append("RATES\n Relrate\n -start\n 10 moles = PARM(1) * M * TIME\n 20 SAVE moles\n -end")
        else:
            P.append("RATES\n Relrate\n -start\n 10 moles = PARM(1) * TIME\n 20 IF (moles > M) THEN moles = M\n 30 SAVE moles\n -end")
    P.append(cg.render_solution(case["sol"]))
    if rel:
        if rel["kind"] == "phase":
            P.append("EQUILIBRIUM_PHASES 1\n %s %s %s" % (rel["phase"], cg.fmt(rel["si"]), cg.fmt(rel["m0"])))
        else:
            P.append("KINETICS 1\n Relrate\n -formula %s 1\n -m0 %s\n -parms %s\n -steps %s in %d steps"
                     % (rel.get("formula") or phase_formula(inf, rel["phase"]), cg.fmt(rel["m0"]),
                        cg.fmt(rel["k"] if rel.get("law") == "first_order" else rel["rate"]), cg.fmt(rel["time"]), rel["steps"]))
    L = ["SURFACE 1"]
    if S["equil"]:
        L.append(" -equilibrate 1")
    if S["units"] == "density":
        L.append(" -sites_units density")
    for su in S["surfs"]:
        for j, s in enumerate(su["sites"]):
            if rel:
                t = " %s %s %s %s" % (s["formula"], rel["phase"] if rel["kind"] == "phase" else "Relrate",
                                      "equilibrium_phase" if rel["kind"] == "phase" else "kinetic_reactant", cg.fmt(su["rel_prop"][j]))
                if j == 0:
                    t += " %s" % cg.fmt(su["rel_area"])
            else:
                t = " %s %s" % (s["formula"], cg.fmt(s["value"]))
                if j == 0:
                    t += " %s %s" % (cg.fmt(su["area"]), cg.fmt(su["mass"]))
            L.append(t)
            if j == 0 and su.get("cap"):
                L.append(" -capacitance " + " ".join(cg.fmt(c) for c in su["cap"]))
    if model == "no_edl":
        L.append(" -no_edl")
    elif model == "ccm":
        L.append(" -ccm %s" % cg.fmt(S["surfs"][-1]["cap"][0]))
    elif M.cd:
        L.append(" -cd_music")
    dl = S.get("dl")
    if dl:
        if dl["kind"] == "diffuse_layer":
            L.append(" -diffuse_layer" + (" %s" % cg.fmt(dl["thickness"]) if dl.get("thickness") else ""))
        else:
            t = " -donnan"
            if dl.get("debye"):
                t += " debye_lengths %s" % cg.fmt(dl["debye"])
                if dl.get("limit"):
                    t += " limit_ddl %s" % cg.fmt(dl["limit"])
            elif dl.get("thickness"):
                t += " %s" % cg.fmt(dl["thickness"])
            if dl.get("visc"):
                t += " viscosity %s" % cg.fmt(dl["visc"])
            L.append(t)
        if S.get("oci"):
            L.append(" -only_counter_ions")
    P.append("\n".join(L))
    if case.get("reaction"):
        r = case["reaction"]
        P.append("REACTION 1\n %s 1\n %s moles in %d steps" % (r["formula"], cg.fmt(r["moles"]), r["steps"]))
    P.append("SELECTED_OUTPUT 1\n -reset false\n -state true\n -high_precision true")
    up = ["USER_PUNCH 1", " -start"]
    ln = 10
    for i in range(0, len(items), 8):
        up.append(" %d PUNCH %s" % (ln, ", ".join(x[1] for x in items[i:i + 8])))
        ln += 10
    nhead = len(items)
    dlcols = []
    if dl:
        for su in S["surfs"]:
            up.append(' %d t = EDL_SPECIES("%s", count, name$, moles, area, thickness)' % (ln, su["name"]))
            up.append(" %d PUNCH count, area, thickness" % (ln + 1))
            up.append(" %d FOR i = 1 TO %d" % (ln + 2, NE))
            up.append(' %d IF i <= count THEN PUNCH name$(i), moles(i) ELSE PUNCH "zq-", 0' % (ln + 3))
            up.append(" %d NEXT i" % (ln + 4))
            ln += 10
            dlcols.append((su["name"], nhead))
            nhead += 3 + 2 * NE
    up.insert(1, " -headings " + " ".join("u%d" % i for i in range(nhead)))
    up.append(" -end")
    P.append("\n".join(up))
    sec = case.get("second")
    if sec:
        P.append("SAVE solution 2\nSAVE surface 2" + ("\nSAVE equilibrium_phases 2" if rel and rel["kind"] == "phase" else ""))
    P.append("END")
    if sec:
        P.append("USE solution 2\nUSE surface 2" + ("\nUSE equilibrium_phases 2" if rel and rel["kind"] == "phase" else ""))
        P.append("REACTION 2\n %s 1\n %s moles in %d steps" % (sec["formula"], cg.fmt(sec["moles"]), sec["steps"]))
        P.append("END")
    return "\n".join(P) + "\n", items, {"M": M, "aq": aq, "NE": NE, "dlcols": dlcols, "els": els}


# ----------------------------------------------------------------------------------------------- oracle
def present(x):
    return isinstance(x, (int, float)) and x == x and x > ABSENT


def check_case(case, ctx):
    text, items, meta = build_input(case)
    M = meta["M"]
    os.chdir(ctx.scratch_dir())          # the engine writes error.inp into the working directory when a run fails
    inf = M.inf
    try:
        I = lib.fresh(case["db"])
    except RuntimeError as e:
        if "LoadDatabase" not in str(e):
            raise
        raise Discard("database_load_error:" + case["db"])
    try:
        rc = I.run_string(text)
        if rc != 0 or I.errors().strip():
            err = I.errors().strip().split("\n")[0][:70]
            raise Discard("run_error:" + re.sub(r"[0-9.eE+-]+", "#", err)[:50])
        T = I.table(1)
    finally:
        I.close()
    if T.rows < 2:
        raise RuntimeError("no selected-output rows")
    head = T.cells[0]
    col = {}
    for j, h in enumerate(head):
        col.setdefault(h, j)
    ucol = [col.get("u%d" % i) for i in range(len(items))]
    if any(u is None for u in ucol):
        raise RuntimeError("USER_PUNCH column missing in the table")
    S = case["surface"]
    stats = {"eq": 0, "bal": 0, "cp": 0, "dl": 0, "worst_ma": 0.0, "worst_cp": 0.0, "worst_sb": 0.0, "worst_dl": 0.0,
             "maxpsi": 0.0, "nsp": 0, "rows": 0, "ev": set()}
    nrow = {"i_surf": 0, "react": 0}
    for r in range(1, T.rows):
        row = T.cells[r]
        state = row[col["state"]]
        if state not in ("i_surf", "react"):
            continue
        nrow[state] += 1
        v = {}
        for (key, _), j in zip(items, ucol):
            v[key] = row[j]
        dls = {}
        for name, start in meta["dlcols"]:
            cells = [row[col["u%d" % k]] for k in range(start, start + 3 + 2 * meta["NE"])]
            cnt = cells[0]
            if not isinstance(cnt, (int, float)) or cnt > meta["NE"]:
                raise RuntimeError("EDL_SPECIES lists %r species, %d columns reserved" % (cnt, meta["NE"]))
            d = {}
            for k in range(int(cnt)):
                d[cells[3 + 2 * k]] = float(cells[4 + 2 * k])
            dls[name] = {"species": d, "area": cells[1], "thickness": cells[2]}
        check_row(case, M, v, dls, state, nrow[state], stats, "row %d (%s)" % (r, state))
        stats["rows"] += 1
        if case.get("rel") and state == "react" and isinstance(v.get("REL"), (int, float)):
            prev = stats.get("rel_prev", case["rel"]["m0"])
            if prev > 0 and abs(v["REL"] - prev) >= 0.05 * prev:
                stats["relchange"] = True
            stats["rel_prev"] = v["REL"]
    if stats["rows"] == 0:
        raise RuntimeError("no row with a surface")
    model = S["model"]
    nt = stats["nsp"] >= 3 and (model == "no_edl" or stats["maxpsi"] > 0.005)
    classes = ["model=" + model, "db=" + case["db"], "surfaces=%d" % len(S["surfs"]),
               "kind=" + "+".join(sorted({"db" if su["name"] == "Hfo" else "user" for su in S["surfs"]})),
               "equilibrate=%s" % S["equil"], "units=" + S["units"]]
    if case.get("rel"):
        classes.append("related=" + case["rel"]["kind"])
        if case.get("series"):
            classes.append("series:%s:%s" % (case["rel"]["kind"], model))
            classes.append("series:" + ("growing" if (case["rel"].get("k", 0) < 0 or (case["rel"]["kind"] == "phase" and
                                                       case["reaction"]["formula"] != "HCl")) else "decreasing"))
            if stats.get("relchange"):
                classes.append("series:related_amount_changed_by>=5%_in_some_step")
    if case.get("reaction"):
        classes.append("reaction_steps")
    if case.get("second"):
        classes.append("second_simulation_on_saved_surface")
    if S.get("oci"):
        classes.append("only_counter_ions")
    dl = S.get("dl")
    if dl:
        classes.append("dl=" + ("debye_lengths" if dl.get("debye") else "thickness" if dl.get("thickness") else "default") +
                       ("+viscosity" if dl.get("visc") else "") + ("+limit" if dl.get("limit") else ""))
    if case["sol"]["temp"] != 25.0:
        classes.append("T!=25")
    if stats["maxpsi"] > 0.005:
        classes.append("|psi|>5mV")
    feats = set()
    for d in case.get("defs", []):
        for s in d["sites"]:
            for sp in s["species"]:
                lhs, rhs = sp["eq"].split("=")
                if lhs.strip().startswith("2"):
                    feats.add("user:bidentate_species")
                if sp.get("dh") is not None:
                    feats.add("user:delta_h")
                if sp.get("cd") and (sp["cd"][3] or sp["cd"][4]):
                    feats.add("user:cd_music_5_number_form")
                if sp.get("cd") and sp["cd"][2]:
                    feats.add("user:cd_music_plane2_charge")
                if dbparse.parse_equation(sp["eq"])[0][0][1] != F.canonical(s["master"]):
                    feats.add("user:species_from_non_master_species")
    classes += sorted(feats)
    if case.get("excl"):
        classes.append(case["excl"])
    for e in sorted(stats["ev"]):
        classes.append(e)
    for k in ("eq", "bal", "cp", "dl"):
        name = {"eq": "mass_action_equations", "bal": "site_balances", "cp": "charge_potential_relations", "dl": "dl_balances"}[k]
        ctx.extra[name] = ctx.extra.get(name, 0) + stats[k]
    for k, name in (("worst_ma", "worst_mass_action_residual"), ("worst_cp", "worst_charge_potential_rel"),
                    ("worst_sb", "worst_site_balance_rel"), ("worst_dl", "worst_dl_balance_rel"),
                    ("worst_bw", "worst_bw_grahame_rel(gross_error_clause)")):
        w = ctx.extra.get(name, [0.0])
        ctx.extra[name] = [max(w[0], stats.get(k, 0.0))]
    return {"nontrivial": nt, "classes": classes}


def defined_sites_area(case, su, j, v, state):
    """-> (defined moles of site j of surface su, area in m2) for this row"""
    rel = case.get("rel")
    if rel:
        if state == "i_surf":
            n = rel["m0"]
        else:
            n = v["REL"]
            if not isinstance(n, (int, float)):
                raise RuntimeError("related amount not reported: %r" % (n,))
        return su["rel_prop"][j] * n, su["rel_area"] * n
    A = su["area"] * su["mass"]
    val = su["sites"][j]["value"]
    if case["surface"]["units"] == "density":
        return edl.sites_from_density(val, A), A
    return val, A


def check_row(case, M, v, dls, state, kth, stats, where):
    inf = M.inf
    S = case["surface"]
    model = S["model"]
    TK = v["TK"]
    W = v["W"]
    if not (isinstance(TK, float) and 270.0 < TK < 380.0 and isinstance(W, float) and W > 0):
        raise RuntimeError("%s: TK = %r, water = %r" % (where, TK, W))
    la = {}
    for key, x in v.items():
        if key.startswith("LA:"):
            la[key[3:]] = x
    moles = {}
    for key, x in v.items():
        if key.startswith("MOL:") and key[4:] in M.sp_table:
            if not isinstance(x, (int, float)) or x != x:
                raise RuntimeError("%s: %s = %r" % (where, key, x))
            moles[key[4:]] = float(x) * W if present(la.get(key[4:])) else 0.0
    # ------------------------------------------------------------------ (1) site balance, every site type
    nsp_row = 0
    for su in S["surfs"]:
        for j, s in enumerate(su["sites"]):
            site = s["site"]
            want, area = defined_sites_area(case, su, j, v, state)
            got = sum(sp.elements[site] * moles[sp.name] for sp in M.species[site])
            stats["bal"] += 1
            if want > 0:
                stats["worst_sb"] = max(stats["worst_sb"], max(0.0, abs(got - want) - 1e-14) / want)
            if abs(got - want) > TOL_REL * abs(want) + 1e-14:
                raise Violation("site_balance", "%s: site type %s: sum over its %d surface species of stoichiometry*moles = %r, defined "
                                "sites = %r (rel. diff %.3g)" % (where, site, len(M.species[site]), got, want,
                                                                 (got - want) / want if want else float("inf")))
            nsp_row += sum(1 for sp in M.species[site] if want > 0 and moles[sp.name] >= 1e-9 * want)
    stats["nsp"] = max(stats["nsp"], nsp_row)
    # ------------------------------------------------------------------ potentials
    psi = {}
    for su in S["surfs"]:
        n = su["name"]
        if model == "no_edl":
            continue
        p = [v["psi:" + n]] + ([v["psi1:" + n], v["psi2:" + n]] if M.cd else [])
        if not all(isinstance(x, (int, float)) and x == x for x in p):
            raise RuntimeError("%s: potential of %s = %r" % (where, n, p))
        psi[n] = [float(x) for x in p]
        stats["maxpsi"] = max(stats["maxpsi"], abs(psi[n][0]))
    # ------------------------------------------------------------------ (2) mass action as written + electrostatic term
    for site in M.site_names:
        sn = surface_name(site)
        for sp in M.species[site]:
            if sp.is_identity:
                continue
            terms = sp.reaction
            if any(not present(la.get(n)) for _, n in terms):
                continue
            lk = M.logk(sp, TK)
            if model == "no_edl":
                el = 0.0
            elif M.cd:
                el = edl.cd_music_term(M.dz_cd(sp), psi[sn], TK)
            else:
                dz = sum(c * M.sp_table[n].charge for c, n in terms if n in M.sp_table)
                el = edl.potential_term(dz, psi[sn][0], TK)
            tot = sum(c * la[n] for c, n in terms)
            scale = sum(abs(c * la[n]) for c, n in terms) + abs(lk) + abs(el)
            res = tot - lk - el
            stats["eq"] += 1
            stats["worst_ma"] = max(stats["worst_ma"], abs(res))
            if abs(res) > TOL_MA + 1e-14 * scale:
                raise Violation("mass_action", "%s: %s (line %s): sum nu*LA = %r, log K(%.2f K) = %r, electrostatic term (%s) = %r; "
                                "residual %.3e log units; equation %r" % (where, sp.name, sp.line, tot, TK, lk, model, el, res,
                                                                           " ".join("%+g %s" % (c, n) for c, n in terms)))
    # ------------------------------------------------------------------ (3) charge-potential relation, (4) diffuse-layer balance
    if model == "no_edl":
        return
    MU, EPS = v["MU"], v["EPS"]
    for su in S["surfs"]:
        n = su["name"]
        sites = [s["site"] for s in su["sites"]]
        want0, area = defined_sites_area(case, su, 0, v, state)
        if area <= 0:
            stats["ev"].add("excluded:surface_area_zero(related_amount_exhausted)")
            continue
        sps = [sp for site in sites for sp in M.species[site]]
        if M.cd:
            q = [sum(moles[sp.name] * M.planes[sp.name][i] for sp in sps) for i in range(3)]
            qabs = sum(abs(moles[sp.name] * M.planes[sp.name][i]) for sp in sps for i in range(3))
        else:
            q = [sum(moles[sp.name] * sp.charge for sp in sps)]
            qabs = sum(abs(moles[sp.name] * sp.charge) for sp in sps)
        sig = [edl.sigma_from_species(x, area) for x in q]
        floor = 10 * CONV_TOL + 1e-14 * edl.F * qabs / area

        def cmp(name, got, want, extra=0.0):
            stats["cp"] += 1
            d = abs(got - want)
            m = max(abs(got), abs(want))
            if m > 0:
                stats["worst_cp"] = max(stats["worst_cp"], max(0.0, d - floor - extra) / m)
            if d > TOL_REL * m + floor + extra:
                raise Violation("charge_potential", "%s: surface %s (%s): %s: from the species %r C/m2, relation at the reported "
                                "potential %r C/m2 (rel. diff %.3g); psi = %r V, MU = %r, eps_r = %r, TK = %r, area = %r m2"
                                % (where, n, model, name, got, want, (got - want) / m if m else 0.0, psi[n], MU, EPS, TK, area))

        dl = S.get("dl")
        dlq = bound = ws = 0.0
        if dl:
            d = dls[n]
            ws = v["dlw:" + n]
            for nme, amt in d["species"].items():
                try:
                    z = F.charge(nme)
                except F.FormulaError:
                    raise RuntimeError("EDL_SPECIES name %r" % nme)
                if z == 0:
                    continue
                dlq += z * amt
                mb = v.get("MOL:" + nme)
                nb = mb * W if isinstance(mb, (int, float)) else 0.0
                g = (amt / nb - ws / W) if nb > 0 else 0.0
                bound += abs(z) * nb * max(1.0, abs(g))
        # the layer composition is renewed after the last charge-balance solve and accepted when it moved by less than tol_g
        dl_abs = TOL_G * bound + 10 * CONV_TOL
        if model == "ccm":
            cmp("sigma = C psi", sig[0], edl.ccm_sigma(su["cap"][0], psi[n][0]))
        elif model == "ddl":
            cmp("Gouy-Chapman", sig[0], edl.gouy_chapman_sigma(psi[n][0], MU, EPS, TK))
        elif model == "dl_bw":
            # Borkovec-Westall layer: the excesses are numerical integrals of the Poisson-Boltzmann profile whose total charge is the
            # Grahame charge of the mixed electrolyte.  The integration error is not tied to a documented criterion.  Measured on the
            # unchanged tree (about 60 000 rows): <= 8e-5 for |psi| >= 50 mV and I >= 1e-3; up to 3e-3 near 12 mV, 1.25e-2 at 10.6 mV
            # with I = 1e-4 (a first version of this clause, 1e-2 from 10 mV, alarmed there once in 47 000 cases), several % below
            # 1 mV.  Only a gross-error clause is therefore asserted: 2e-2 for |psi| >= 50 mV and I >= 1e-3; the worst deviation of
            # every evaluated row is recorded in the evidence.
            if not S.get("oci") and abs(psi[n][0]) >= BW_MIN_PSI and MU >= BW_MIN_MU:
                ions = aqueous_ions(M, v)
                imb = sum(z * c for z, c in ions)
                pos = sum(abs(z) * c for z, c in ions)
                g0 = edl.grahame_sigma(psi[n][0], ions, EPS, TK)
                if abs(imb) <= 1e-9 * pos and g0 == g0:
                    stats["cp"] += 1
                    stats["ev"].add("bw:grahame_gross_error_clause_evaluated")
                    if max(abs(sig[0]), abs(g0)) > 0:
                        stats["worst_bw"] = max(stats.get("worst_bw", 0.0), abs(sig[0] - g0) / max(abs(sig[0]), abs(g0)))
                    if abs(sig[0] - g0) > TOL_BW_GRAHAME * max(abs(sig[0]), abs(g0)) + floor:
                        raise Violation("charge_potential", "%s: surface %s (-diffuse_layer): sigma from the species %r C/m2, Grahame charge "
                                        "of the bulk electrolyte at psi = %r V: %r C/m2 (rel. diff %.3g > %g)"
                                        % (where, n, sig[0], psi[n][0], g0, (sig[0] - g0) / max(abs(sig[0]), abs(g0)), TOL_BW_GRAHAME))
        elif model == "donnan":
            # (the charge balance of the solver is written in equivalents here: its absolute criterion scales with F/area)
            cmp("Gouy-Chapman", sig[0], edl.gouy_chapman_sigma(psi[n][0], MU, EPS, TK), extra=dl_abs * edl.F / area)
        elif M.cd:
            c1, c2 = su["cap"]
            # plane 0 carries the charge of the master species of EVERY site: the solver books it with the defined site totals, the
            # oracle with the species it finds, so the solver's site-balance criterion (relative convergence_tolerance, or the
            # absolute KNOBS -tolerance, default 1e-15 mol) enters sigma0 as F |z_master| dn / area
            slack = 0.0
            for j, s_ in enumerate(su["sites"]):
                tsite = defined_sites_area(case, su, j, v, state)[0]
                slack += abs(M.sp_table[M.master_species[s_["site"]]].charge) * 10 * (CONV_TOL * tsite + SITE_ABS_TOL)
            slack *= edl.F / area
            cmp("sigma0 = C1 (psi0 - psi1)", sig[0], c1 * (psi[n][0] - psi[n][1]), extra=slack)
            cmp("sigma0 + sigma1 = C2 (psi1 - psi2)", sig[0] + sig[1], c2 * (psi[n][1] - psi[n][2]), extra=slack)
            if not dl:
                aq_ions = aqueous_ions(M, v)
                tot = sig[0] + sig[1] + sig[2]
                g0 = edl.grahame_sigma(psi[n][2], aq_ions, EPS, TK)
                imb = sum(z * c for z, c in aq_ions)
                pos = sum(abs(z) * c for z, c in aq_ions)
                # The textbook expression presumes an electroneutral bulk.  Even a rounding-level imbalance matters at very small
                # potentials (its term is linear in psi, the electrolyte's quadratic), so the value is always bracketed between the
                # expression as it stands and the one completed by a monovalent ion that restores electroneutrality.
                g1 = edl.grahame_sigma(psi[n][2], aq_ions + [(-1.0 if imb > 0 else 1.0, abs(imb))], EPS, TK) if imb != 0 else g0
                if abs(imb) > 1e-12 * pos:
                    stats["ev"].add("cd_music:bulk_not_neutral(bracket)")
                if g1 != g1:
                    stats["ev"].add("cd_music:grahame_undefined(skipped)")
                else:
                    if g0 != g0:
                        g0 = g1
                    lo, hi = min(g0, g1), max(g0, g1)
                    stats["cp"] += 1
                    m = max(abs(tot), abs(lo), abs(hi))
                    # (+ the resolution of the expression itself near zero potential, DESIGN 4.3)
                    tol = TOL_REL * m + floor + slack + edl.grahame_rounding_floor(aq_ions, EPS, TK)
                    if m > 0:
                        stats["worst_cp"] = max(stats["worst_cp"], max(0.0, max(lo - tot, tot - hi) - (tol - TOL_REL * m)) / m)
                    if tot < lo - tol or tot > hi + tol:
                        raise Violation("charge_potential", "%s: surface %s (cd_music): sigma0+sigma1+sigma2 = %r C/m2 from the species is "
                                        "outside the Grahame charge at psi2 = %r V: [%r, %r] C/m2 (bulk imbalance %r eq/kgw); psi = %r, "
                                        "eps_r = %r, TK = %r, area = %r m2" % (where, n, tot, psi[n][2], lo, hi, imb, psi[n], EPS, TK, area))
        # ---- (4) explicit diffuse layer
        if dl:
            qs = sum(q)
            cb = v["CB"]
            stats["dl"] += 1
            tol = TOL_REL * abs(qs) + dl_abs + 1e-14 * qabs
            if isinstance(cb, (int, float)) and abs(cb * ws / W) > 0.1 * tol:
                # "ion excess" and "ion content" of the layer differ by (layer water) x (bulk charge imbalance): not asserted
                stats["ev"].add("excluded:dl_balance_bulk_not_neutral")
            else:
                if abs(qs) > 0:
                    stats["worst_dl"] = max(stats["worst_dl"], max(0.0, abs(dlq + qs) - dl_abs) / abs(qs))
                if abs(dlq + qs) > tol:
                    raise Violation("dl_balance", "%s: surface %s (%s%s): sum z*moles of the %d species in the diffuse layer = %r eq, "
                                    "surface charge from the species = %r eq (sum %r, tolerance %r)"
                                    % (where, n, dl["kind"], ", only_counter_ions" if S.get("oci") else "", len(d["species"]), dlq, qs,
                                       dlq + qs, tol))


def aqueous_ions(M, v):
    """[(charge, molality)] of every charged aqueous species of the database that can form from the elements of the case"""
    out = []
    for k in v:
        if k.startswith("MOL:") and k[4:] not in M.sp_table:
            z = F.charge(k[4:])
            if z != 0 and isinstance(v[k], (int, float)) and v[k] > 0:
                out.append((z, v[k]))
    return out


def run(ctx):
    n = BUDGET[ctx.tier]
    ctx.hyp(case_st(), lambda c: check_case(c, ctx), n - n // 4, "surf")
    ctx.hyp(case_st(series=True), lambda c: check_case(c, ctx), n // 4, "series")


def debug_discards(n=200, seed_=5):
    """development helper: print the error texts of discarded cases"""
    from hypothesis import given, settings, seed
    import collections
    cnt = collections.Counter()

    @settings(max_examples=n, database=None, deadline=None)
    @seed(seed_)
    @given(case_st())
    def t(case):
        text, items, meta = build_input(case)
        I = lib.fresh(case["db"])
        if I.run_string(text) != 0:
            cnt[I.errors().strip().split("\n")[0][:150]] += 1
        I.close()
    t()
    for k, v in cnt.most_common(20):
        print(v, k)
