"""C05 - selected-output table, string, lines and file describe the same data."""
import os, glob, ctypes
from hypothesis import strategies as st
from .. import lib, chemgen as cg
from ..core import Violation, Discard

ID = "C05"
LEVEL = "exploration"
RULE = ("Hypothesis-generated inputs with 0-3 SELECTED_OUTPUT/USER_PUNCH blocks (arbitrary user numbers, option sets, "
        "high_precision, fewer/more PUNCH values than headings, late columns, several simulations/steps, PRINT -selected_output "
        "false), per-number file switches, common string switch, arbitrary current number; oracle: table shape, string/lines/file "
        "rows vs table cells rendered in the print formats, out-of-range codes, C/C++/Value2/F agreement. Non-trivial = at least "
        "one data row and (>=2 user numbers, or heading/PUNCH count mismatch, or a column appearing after row 1); distinct by "
        "SHA-256 of the case")
ASSUMPTIONS = ["Python % formatting equals C printf for e/f/g/d conversions",
               "heading relation table<->string: identical or table adds (mol/kgw)/(C)/(eq/kgw)/(eq) (IPhreeqc.hpp)",
               "duplicate heading names and mixed per-number string switches are excluded by construction (see DESIGN 9.1, 5/C05)",
               "the C++ shim in /verif/shim only forwards to public methods"]
TECHNIQUE = "property-based testing (Hypothesis): differential between table, string, line accessors, file and the C/C++/Fortran-glue accessors"
LEVEL_TEXT = ("Exploration: thousands of generated selected-output configurations per run are checked cell by cell against each other "
              "(table vs rendered text vs file vs three bindings, out-of-range ring). Two known findings are excluded by construction and re-reported from their replays.")
FLOORS = {"quick": 300, "thorough": 3000}
SHARDS = {"quick": 8, "thorough": 16}
BUDGET = {"quick": 900, "thorough": 9000, "replay": 1}

USER_NUMBERS = [1, 2, 3, 5, 10, 100, 99999]
SUFFIXES = ["(mol/kgw)", "(C)", "(eq/kgw)", "(eq)"]
FLAGS = ["simulation", "state", "solution", "distance", "time", "step", "ph", "pe", "reaction", "temperature",
         "alkalinity", "ionic_strength", "water", "charge_balance", "percent_error"]
LISTS = {
    "totals": ["Na", "Cl", "Ca", "C(4)", "K", "Mg", "S(6)", "Fe", "C"],
    "molalities": ["Na+", "Cl-", "Ca+2", "HCO3-", "CO3-2", "OH-", "H+", "CaCO3", "NaSO4-"],
    "activities": ["Na+", "Cl-", "Ca+2", "HCO3-", "H+", "H2O"],
    "equilibrium_phases": ["Calcite", "Gypsum", "CO2(g)", "Halite"],
    "saturation_indices": ["Calcite", "Gypsum", "CO2(g)", "Halite", "Aragonite"],
    "gases": ["CO2(g)", "O2(g)", "N2(g)"],
    "kinetic_reactants": ["Krxn"],
}


def prepare(tier):
    lib.build("rel", ["libiphreeqc_rel.so"])


# ------------------------------------------------------------------------------- generator
@st.composite
def block(draw, n):
    b = {"n": n, "reset": draw(st.sampled_from([None, True, False])), "hp": draw(st.booleans()),
         "flags": {}, "lists": {}}
    for f in draw(st.lists(st.sampled_from(FLAGS), max_size=6, unique=True)):
        b["flags"][f] = draw(st.booleans())
    for k in draw(st.lists(st.sampled_from(sorted(LISTS)), max_size=4, unique=True)):
        b["lists"][k] = draw(st.lists(st.sampled_from(LISTS[k]), min_size=1, max_size=4, unique=True))
    # every block gets at least one explicit column, so that its heading line is never empty
    # (defaults differ between user number 1 and the others)
    if not b["lists"] and not any(b["flags"].values()):
        b["flags"]["ph"] = True
    # USER_PUNCH
    if draw(st.integers(0, 3)) > 0:
        nh = draw(st.integers(0, 4))
        items = draw(st.lists(punch_item(), min_size=0, max_size=6))
        late = draw(st.lists(punch_item(), min_size=0, max_size=2))
        b["up"] = {"headings": ["u%d_%d" % (n, i) for i in range(nh)], "items": items, "late": late,
                   "late_step": draw(st.integers(1, 3)), "late_kind": draw(st.sampled_from(["STEP_NO", "SIM_NO"]))}
    return b


def punch_item():
    return st.one_of(
        st.sampled_from(['TOT("Na")', 'TOT("Cl")', "STEP_NO", "-LA(\"H+\")", "MU", "TC", 'MOL("Ca+2")', "1/3", "1e-300", "-1e300",
                         "123456789", "0", 'SI("Calcite")']),
        cg.logu(1e-12, 1e12, 8).map(cg.fmt),
        st.text(alphabet="abcXYZ_019", min_size=0, max_size=30).map(lambda s: "\"zq" + s + "\""),
    )


def render_block(b):
    L = ["SELECTED_OUTPUT %d" % b["n"]]
    if b["reset"] is not None:
        L.append(" -reset %s" % str(b["reset"]).lower())
    L.append(" -high_precision %s" % str(b["hp"]).lower())
    for f, v in b["flags"].items():
        L.append(" -%s %s" % (f, str(v).lower()))
    for k, v in b["lists"].items():
        L.append(" -%s %s" % (k, " ".join(v)))
    if "up" in b:
        u = b["up"]
        L.append("USER_PUNCH %d" % b["n"])
        if u["headings"]:
            L.append(" -headings " + " ".join(u["headings"]))
        L.append(" -start")
        if u["items"]:
            L.append(" 10 PUNCH " + ", ".join(u["items"]))
        else:
            L.append(" 10 REM nothing")
        if u["late"]:
            L.append(" 20 IF %s >= %d THEN PUNCH %s" % (u["late_kind"], u["late_step"], ", ".join(u["late"])))
        L.append(" -end")
    return "\n".join(L)


@st.composite
def case_strategy(draw):
    nums = draw(st.lists(st.sampled_from(USER_NUMBERS), min_size=0, max_size=3, unique=True))
    blocks = [draw(block(n)) for n in nums]
    sol = draw(cg.simple_solution(1, elements={"Na": 0.5, "Cl": 0.5, "Ca": 0.01, "C(4)": 0.01, "K": 0.1, "Mg": 0.01, "S(6)": 0.01}, max_el=5))
    nsim = draw(st.integers(1, 3))
    sims = []
    defined_in = {b["n"]: draw(st.integers(0, nsim - 1)) for b in blocks}
    redefined = []
    for k in range(nsim):
        parts = []
        if k == 0:
            parts.append(cg.render_solution(sol))
        else:
            parts.append("USE solution 1")
        if draw(st.booleans()):
            parts.append("EQUILIBRIUM_PHASES %d\n Calcite 0 %s\n CO2(g) -2.5 1" % (k + 1, draw(st.sampled_from(["0", "0.01", "1"]))))
        steps = draw(st.integers(0, 3))
        if steps:
            parts.append("REACTION %d\n NaCl 1\n %s moles in %d steps" % (k + 1, cg.fmt(draw(cg.logu(1e-5, 1e-2, 2))), steps))
        if draw(st.integers(0, 5)) == 0:
            parts.append("PRINT\n -selected_output %s" % draw(st.sampled_from(["false", "true"])))
        for b in blocks:
            if defined_in[b["n"]] == k:
                parts.append(render_block(b))
        # occasional redefinition of an already defined block (new heading line, table keeps columns by name)
        if k > 0 and blocks and draw(st.integers(0, 4)) == 0:
            b0 = draw(st.sampled_from(blocks))
            if defined_in[b0["n"]] < k:
                b2 = draw(block(b0["n"]))
                parts.append(render_block(b2))
                redefined.append(b0["n"])
        parts.append("END")
        sims.append("\n".join(parts))
    cfg = {"string_on": draw(st.booleans()) if draw(st.integers(0, 4)) == 0 else True,
           "file_on": {str(n): draw(st.booleans()) for n in nums},
           "current": draw(st.sampled_from(nums + [7, 0, 424242])) if nums else draw(st.sampled_from([1, 7])),
           "custom_name": {str(n): draw(st.booleans()) for n in nums}}
    has_mismatch = any("up" in b and (len(b["up"]["items"]) != len(b["up"]["headings"]) or b["up"]["late"]) for b in blocks)
    return {"kind": "so", "input": "\n".join(sims) + "\n", "cfg": cfg, "nums": nums,
            "meta": {"mismatch": has_mismatch, "nsim": nsim, "redefined": redefined}}


# ------------------------------------------------------------------------------- oracle
def norm_num(s):
    s = s.strip().lower()
    if s in ("-nan", "nan", "+nan"):
        return "nan"
    return s


def hp_values(texts, n):
    """set of -high_precision values of every SELECTED_OUTPUT n block in the given input texts (None = unknown/default)"""
    out = set()
    for t in texts:
        cur = None
        for line in t.split("\n"):
            w = line.strip().split()
            if not w:
                continue
            if not line.startswith(" ") and not line.startswith("\t"):
                cur = None
                if w[0].upper() == "SELECTED_OUTPUT":
                    cur = int(w[1]) if len(w) > 1 and w[1].lstrip("-").isdigit() else 1
                    if cur == n:
                        out.add(None)
            elif cur == n and w[0].lower() in ("-high_precision", "-high", "-h"):
                out.discard(None)
                out.add(len(w) < 2 or w[1].lower().startswith("t"))
    return out


def renderings(v, hp=None):
    """texts a table value may have in the string/file (union of the print formats in use); hp: True/False when every
    definition of the block has that -high_precision value (USER_PUNCH strings are then %20.20s / %12.12s), else None"""
    if isinstance(v, bool):
        v = int(v)
    if isinstance(v, int):
        return {"%d" % v, "%g" % v, "%.4e" % v, "%.12e" % v}
    if isinstance(v, float):
        out = {norm_num(f % v) for f in ("%.4e", "%.12e", "%g", "%.4f", "%.3f", "%12.4e", "%20.12e", "%15.4e")}
        if v == int(v) and abs(v) < 2 ** 31:
            out.add("%d" % int(v))
        return out
    if isinstance(v, str):
        s = v
        # PUNCH never truncates a string: it is written with %12.12s (%20.20s with -high_precision) when it fits and
        # with %s otherwise (PBasic cmdpunch), so the text cell is the whole string (padding stripped)
        return {s.strip(), s}
    return set()


def strip_suffix(h):
    for s in SUFFIXES:
        if h.endswith(s):
            return h[:-len(s)]
    return h


def split_cells(line):
    cells = line.split("\t")
    if cells and cells[-1] == "":
        cells = cells[:-1]
    return cells


STATE_VALUES = {"i_soln", "react", "i_exch", "i_surf", "i_gas", "transp", "advect"}


def datalike(c):
    """cells of data rows: numbers, state names, or generated strings (always prefixed with zq)"""
    if c == "":
        return False
    if c in STATE_VALUES or c.startswith("zq"):
        return True
    try:
        float(c)
        return True
    except ValueError:
        return False


def compare_text(text, T, what, hp=None):
    """text: selected-output string or file content; T: lib.Table"""
    if T.rows == 0:
        # no data row was punched: the text may hold heading lines only (never a numeric cell)
        for line in text.split("\n"):
            for c in split_cells(line):
                try:
                    float(c.strip())
                except ValueError:
                    continue
                raise Violation(what + "_rows", "text holds a numeric cell %r but the table has no rows" % c)
        return 0
    th = T.cells[0]
    names = [strip_suffix(h) for h in th]
    nameset = set(names) | set(th)
    lines = text.split("\n")
    if lines and lines[-1] == "":
        lines = lines[:-1]
    seg = None
    nseg = 0
    r = 0
    for ln, line in enumerate(lines):
        cells = split_cells(line)
        sc = [c.strip() for c in cells]
        if cells and any(c != "" for c in sc) and not any(datalike(c) for c in sc):
            seg = sc
            nseg += 1
            continue
        if seg is None:
            if not cells:
                # a heading line of a block whose only columns are heading-less USER_PUNCH values
                seg = []
                continue
            raise Violation(what + "_rows", "data line %d precedes any heading line: %r" % (ln, line[:200]))
        r += 1
        if r >= T.rows:
            raise Violation(what + "_rows", "%s has more data lines than the table has rows (%d)" % (what, T.rows - 1))
        row = T.cells[r]
        used = set()
        for j, c in enumerate(sc):
            if j < len(seg):
                hname = seg[j]
                cands = [k for k in range(T.cols) if names[k] == hname or th[k] == hname]
            else:
                hname = "no_heading_%d" % (j - len(seg) + 1)
                cands = [k for k in range(T.cols) if th[k] == hname]
            if len(cands) != 1:
                raise Violation(what + "_columns", "line %d cell %d: heading %r matches %d table columns %r" % (ln, j, hname, len(cands), th))
            k = cands[0]
            used.add(k)
            v = row[k]
            if v is None:
                raise Violation(what + "_cells", "row %d col %d (%s): text %r but table cell is EMPTY" % (r, k, th[k], c))
            if isinstance(v, tuple):
                raise Violation(what + "_cells", "row %d col %d: error-typed cell %r" % (r, k, v))
            cn = norm_num(c) if not isinstance(v, str) else c
            if cn not in renderings(v, hp):
                raise Violation(what + "_cells", "row %d col %d (%s): text %r is not a rendering of table value %r" % (r, k, th[k], c, v))
        # positional order: the columns used by this line must be increasing (same order)
        order = []
        for j, c in enumerate(sc):
            hname = seg[j] if j < len(seg) else "no_heading_%d" % (j - len(seg) + 1)
            order.append([k for k in range(T.cols) if names[k] == hname or th[k] == hname][0])
        # (after a redefinition inside the run the table keeps its name-keyed columns and appends new ones,
        #  so the order relation is only defined for the first heading segment)
        if nseg == 1 and order != sorted(order):
            raise Violation(what + "_columns", "row %d: columns of the text are not in table order: %r" % (r, order))
        for k in range(T.cols):
            if k not in used and row[k] is not None:
                raise Violation(what + "_cells", "row %d col %d (%s): table has %r but the text line has no such cell" % (r, k, th[k], row[k]))
    if r != T.rows - 1:
        raise Violation(what + "_rows", "%s has %d data lines, table has %d data rows" % (what, r, T.rows - 1))
    return r


def table_key(T):
    return (T.rows, T.cols, repr(T.cells))


def apply_switches(I, cfg, nums, sd):
    # switches: common string switch (see known finding), per-number file switches
    smap = cfg.get("string_on_map")  # only in the registered known-finding replay (DESIGN 9.1)
    for n in set(nums) | {cfg["current"]}:
        I.set_current(n)
        I.seti("SetSelectedOutputStringOn", smap.get(str(n), False) if smap else cfg["string_on"])
        if str(n) in cfg["file_on"]:
            I.seti("SetSelectedOutputFileOn", cfg["file_on"][str(n)])
            if cfg["custom_name"].get(str(n)):
                I.sets("SetSelectedOutputFileName", os.path.join(sd, "so_%d.txt" % n))
    I.set_current(cfg["current"])


def check_case(case, ctx):
    cfg = case["cfg"]
    sd = ctx.scratch_dir()
    for f in glob.glob(os.path.join(sd, "*")):
        os.unlink(f)
    os.chdir(sd)
    I = lib.fresh("phreeqc.dat", via_shim=True)
    try:
        nums = case["nums"]
        apply_switches(I, cfg, nums, sd)
        rc = I.run_string(case["input"])
        if rc != 0:
            raise Discard("run_error")
        info = inspect(I, case, cfg, nums, case["meta"].get("redefined", []), sd, ctx)
        classes = list(info["classes"])
        rows = info["rows"]
        late = info["late"]
        ndef = info["ndef"]
        # further runs on the same instance (kind so-multi): the blocks stay defined, every run starts new
        # rows / a new string / re-opened files, and the same relations must hold after each of them
        for k, more in enumerate(case.get("more", [])):
            cfg = dict(cfg)
            cfg["file_on"] = dict(cfg["file_on"])
            for n, v in more.get("file_on", {}).items():
                cfg["file_on"][n] = v
            if "current" in more:
                cfg["current"] = more["current"]
            for f in glob.glob(os.path.join(sd, "*")):
                os.unlink(f)   # a file that is not re-written by this run must not be mistaken for its output
            apply_switches(I, cfg, nums, sd)
            rc = I.run_string(more["input"])
            if rc != 0:
                raise Discard("run_error_later")
            inf2 = inspect(I, case, cfg, nums, more.get("redefined", []), sd, ctx)
            rows += inf2["rows"]
            late = late or inf2["late"]
            classes.append("run%d_rows=%s" % (k + 2, "yes" if inf2["rows"] else "no"))
        if case.get("more"):
            classes.append("runs=%d" % (1 + len(case["more"])))
            if any(m.get("redefined") for m in case["more"]):
                classes.append("redefined_in_later_run")
            if any(m.get("file_on") for m in case["more"]):
                classes.append("file_switch_changed_between_runs")
        nt = rows > 0 and (ndef >= 2 or case["meta"]["mismatch"] or late)
        return {"nontrivial": nt, "classes": classes}
    finally:
        I.close()


def inspect(I, case, cfg, nums, redefined_now, sd, ctx):
    """all C05 relations for the state after one run; returns counters"""
    smap = cfg.get("string_on_map")
    if True:
        defined = I.user_numbers()
        if sorted(defined) != sorted(set(nums)):
            raise Violation("user_numbers", "defined user numbers %r, input defines %r" % (defined, nums))
        if I.geti("GetCurrentSelectedOutputUserNumber") != cfg["current"]:
            raise Violation("current", "current user number changed by the run")
        info = {"rows": 0, "late": False}
        tables = {}
        for n in defined:
            if I.set_current(n) != 0:
                raise Violation("set_current", "SetCurrentSelectedOutputUserNumber(%d) failed" % n)
            T = I.table()
            tables[n] = T
            hv = hp_values([case["input"]] + [m["input"] for m in case.get("more", [])], n)
            hp = next(iter(hv)) if len(hv) == 1 and None not in hv else None
            # (1) shape
            if T.rows > 0:
                if not all(isinstance(h, str) for h in T.cells[0]):
                    raise Violation("shape", "row 0 of user number %d is not all strings: %r" % (n, T.cells[0]))
                if len(set(T.cells[0])) != T.cols:
                    raise Violation("shape", "duplicate headings in table %d" % n)
                for i, row in enumerate(T.cells):
                    for j, v in enumerate(row):
                        if isinstance(v, tuple):
                            raise Violation("shape", "cell (%d,%d) of table %d unreadable: %r" % (i, j, n, v))
                        if i == 0 and v is None:
                            raise Violation("shape", "empty heading (0,%d)" % j)
                info["rows"] += T.rows - 1
                for j in range(T.cols):
                    if T.rows > 2 and T.cells[1][j] is None and any(T.cells[i][j] is not None for i in range(2, T.rows)):
                        info["late"] = True
            elif T.cols > 0:
                raise Violation("shape", "table %d has %d columns but no rows" % (n, T.cols))
            # (2,3) string and lines
            s_on = I.geti("GetSelectedOutputStringOn")
            if smap:
                cfg = dict(cfg, string_on=smap.get(str(n), False))
            if bool(s_on) != bool(cfg["string_on"]):
                raise Violation("switch", "string switch of %d reads %d, was set %d" % (n, s_on, cfg["string_on"]))
            S = I.gets("GetSelectedOutputString")
            cnt = I.geti("GetSelectedOutputStringLineCount")
            if cfg["string_on"]:
                compare_text(S, T, "string", hp)
                lines = S.split("\n")
                if lines and lines[-1] == "":
                    lines = lines[:-1]
                if cnt != len(lines):
                    raise Violation("lines", "line count %d but string has %d lines (user %d)" % (cnt, len(lines), n))
                for i, l in enumerate(lines):
                    g = I.gets("GetSelectedOutputStringLine", i)
                    if g != l:
                        raise Violation("lines", "line %d accessor %r != string line %r" % (i, g[:100], l[:100]))
                for i in (-1, cnt, cnt + 5, -2147483648, 2147483647):
                    if I.gets("GetSelectedOutputStringLine", i) != "":
                        raise Violation("lines", "line accessor %d out of range is not empty" % i)
            else:
                if cnt != 0:
                    raise Violation("lines", "string off but %d lines" % cnt)
                if S != "GetSelectedOutputString: SelectedOutputStringOn not set.\n" and S.strip() != "":
                    raise Violation("string_off", "string switch off for %d but the string getter returns %r" % (n, S[:80]))
            # (4) file
            fn = I.gets("GetSelectedOutputFileName")
            f_on = I.geti("GetSelectedOutputFileOn")
            want = cfg["file_on"].get(str(n), False)
            if bool(f_on) != bool(want):
                raise Violation("switch", "file switch of %d reads %d, was set %s" % (n, f_on, want))
            path = fn if os.path.isabs(fn) else os.path.join(sd, fn)
            if want:
                if not os.path.exists(path):
                    if T.rows <= 1:
                        # nothing was punched in this run (e.g. a persisting PRINT -selected_output false): a file
                        # without any row need not be (re)created; the property relates rows
                        ctx.event("no_rows_no_file")
                        F = None
                    else:
                        raise Violation("file", "selected-output file %s of user %d was not written" % (fn, n))
                else:
                    F = open(path, "rb").read().decode("latin-1")
                if F is None:
                    pass
                elif n in redefined_now and not case.get("strict_redefinition"):
                    # KNOWN FINDING (known_findings.json: file-truncated-at-redefinition): a redefinition of the
                    # block inside a run re-opens (truncates) the file, so the file holds only the rows since the
                    # last definition while string and table keep all rows of the run.  Generated cases exclude
                    # that trigger by construction here (counted as file_after_redefinition) and still demand that
                    # the file is a suffix of the string; the known replay sets "strict_redefinition" and applies
                    # the property as stated.
                    if cfg["string_on"] and not S.endswith(F):
                        raise Violation("file_vs_string", "file of redefined user %d is not a suffix of its string" % n)
                    ctx.event("file_after_redefinition")
                else:
                    compare_text(F, T, "file", hp)
                    if cfg["string_on"] and F != S:
                        raise Violation("file_vs_string", "file and string of user %d differ" % n)
            else:
                if os.path.exists(path):
                    raise Violation("file", "file switch off for %d but %s exists" % (n, fn))
            # (5,6) bindings incl. out-of-range ring
            msg = ctypes.create_string_buffer(600)
            k = I.L.shim_cmp_bindings(I.ptr, msg, 600)
            if k < 0:
                raise Violation("bindings", "user %d: %s" % (n, msg.value.decode("latin-1")))
            T2 = I.table()
            if table_key(T2) != table_key(T):
                raise Violation("unchanged", "table %d changed by out-of-range reads" % n)
        # unknown user number
        for u in (31337, 0 if 0 not in defined else 4):
            if u in defined:
                continue
            if I.set_current(u) != 0:
                raise Violation("set_current", "non-negative undefined number %d rejected" % u)
            rcv = I.value(0, 0)
            if rcv[0] != lib.VR_INVALIDARG or rcv[1] != lib.TT_ERROR or rcv[2] != lib.VR_INVALIDARG:
                raise Violation("unknown_user", "GetSelectedOutputValue on undefined user number %d gave %r" % (u, rcv))
            if I.geti("GetSelectedOutputRowCount") > 0 or I.geti("GetSelectedOutputColumnCount") > 0:
                raise Violation("unknown_user", "undefined user number reports rows/cols")
        if I.set_current(-3) == 0:
            raise Violation("set_current", "negative user number accepted")
        for n in defined:
            I.set_current(n)
            if table_key(I.table()) != table_key(tables[n]):
                raise Violation("unchanged", "table %d changed after unknown-user-number reads" % n)
        classes = ["blocks=%d" % len(defined), "string_on=%s" % cfg["string_on"],
                   "files_on=%d" % sum(1 for v in cfg["file_on"].values() if v)]
        if info["late"]:
            classes.append("late_column")
        if case["meta"]["mismatch"]:
            classes.append("heading_punch_mismatch")
        if cfg["current"] not in defined:
            classes.append("current_undefined")
        if info["rows"] == 0:
            classes.append("no_rows")
        I.set_current(cfg["current"])
        return {"rows": info["rows"], "late": info["late"], "ndef": len(defined), "classes": classes}


@st.composite
def multi_strategy(draw):
    """a first run that defines the blocks + 1-2 further runs on the same instance that mostly do NOT redefine them
    (rows, string and files start anew at every run; switches may change between runs)"""
    case = draw(case_strategy())
    nums = case["nums"]
    more = []
    for k in range(draw(st.integers(1, 2))):
        parts = []
        redefined = []
        for j in range(draw(st.integers(1, 2))):
            parts.append("USE solution 1")
            if draw(st.booleans()):
                parts.append("EQUILIBRIUM_PHASES %d\n Calcite 0 %s" % (10 + k, draw(st.sampled_from(["0", "0.01"]))))
            steps = draw(st.integers(0, 3))
            if steps:
                parts.append("REACTION %d\n NaCl 1\n %s moles in %d steps" % (10 + k, cg.fmt(draw(cg.logu(1e-5, 1e-2, 2))), steps))
            if nums and draw(st.integers(0, 5)) == 0:
                n0 = draw(st.sampled_from(nums))
                if n0 not in redefined:
                    parts.append(render_block(draw(block(n0))))
                    redefined.append(n0)
            parts.append("END")
        m = {"input": "\n".join(parts) + "\n", "redefined": redefined}
        if nums and draw(st.integers(0, 2)) == 0:
            m["file_on"] = {str(n): draw(st.booleans()) for n in draw(st.lists(st.sampled_from(nums), min_size=1, max_size=2, unique=True))}
        if draw(st.integers(0, 3)) == 0:
            m["current"] = draw(st.sampled_from(nums + [7, 0])) if nums else 7
        more.append(m)
    case = dict(case, kind="so-multi", more=more)
    # a block redefined in a later run may change its USER_PUNCH shape
    return case


def run(ctx):
    n = BUDGET[ctx.tier]
    ctx.hyp(case_strategy(), lambda c: check_case(c, ctx), n - n // 3, "so")
    ctx.hyp(multi_strategy(), lambda c: check_case(c, ctx), n // 3, "so-multi")


def debug_discards(n=300):
    """development helper: print the error texts of discarded cases"""
    from hypothesis import given, settings, seed
    import collections
    cnt = collections.Counter()

    @settings(max_examples=n, database=None, deadline=None)
    @seed(5)
    @given(case_strategy())
    def t(case):
        I = lib.fresh("phreeqc.dat")
        if I.run_string(case["input"]) != 0:
            cnt[I.errors().strip().split("\n")[0][:150]] += 1
        I.close()
    t()
    for k, v in cnt.most_common(20):
        print(v, k)
