"""C16 - activity-coefficient models follow their defining equations (ion association) and Gibbs-Duhem (Pitzer / SIT).

Clause <-> sentence of the property statement
  Part A (ion-association databases; kind "ia")
    lg_davies / lg_wateq / lg_neutral / lg_bdot / lg_co2   "each species' reported log activity coefficient equals the model the
                       database assigns to it (Davies, extended/WATEQ Debye-Hueckel with its ion-size and b parameters, B-dot for
                       LLNL, 0.1*I-type for neutral species) evaluated at the reported ionic strength and Debye-Hueckel constants
                       (1e-9)":  LG(s) against a Python evaluation of the rule below at MU, DH_A, DH_B (BASIC read-outs)
    llnl_dh_constants  for LLNL-type files the reported DH_A / DH_B are themselves the linear interpolation of the file's
                       LLNL_AQUEOUS_MODEL_PARAMETERS table (DESIGN C16; RELEASE.TXT "Linear interpolation occurs between temperatures")
  Part B (Pitzer / SIT databases; kind "path")
    gibbs_duhem        "along any composition path they satisfy the Gibbs-Duhem relation (relative 1e-4)": vp/gd.py
    water_activity     "water activity equals exp(-M_w * phi * sum m) (1e-5)" at every node, phi = OSMOTIC, 1/M_w = 55.50837

Rules used for Part A and their source (nothing is transcribed from model.cpp):
  R1  charged species without an activity option: Davies  log g = -A z^2 (sqrt(I)/(1+sqrt(I)) - 0.3 I)
        [PHREEQC-2 manual, eq. 5 and "Unless otherwise specified in the database file or the input data set, the Davies equation
         is used for charged species"; SOLUTION_SPECIES -gamma: "If -gamma is not input for a species, for charged species the
         Davies equation is used"]
  R2  uncharged species without an activity option: log g = 0.1 I
        [manual: "Unless otherwise specified, b_i is assumed to be 0.1 for all uncharged species"; -gamma: "for uncharged species
         the following equation is used: log g = 0.1 mu"]
  R3  -gamma a b: WATEQ / extended Debye-Hueckel  log g = -A z^2 sqrt(I)/(1 + B a sqrt(I)) + b I, taken literally for every value
        of a and b (a = 0: denominator 1; b = 0: extended D-H); for uncharged species the first term is zero -> b I
        [manual eq. 6; "If -gamma is entered, then the equation from WATEQ is used"; "For uncharged species, the first term of the
         activity coefficient equation is zero, and the WATEQ Debye-Hueckel equation reduces to the Setchenow equation"]
  R4  -llnl_gamma a (files with LLNL_AQUEOUS_MODEL_PARAMETERS): B-dot  log g = -A z^2 sqrt(I)/(1 + a B sqrt(I)) + Bdot I with A, B,
        Bdot interpolated linearly in the file's temperature grid [RELEASE.TXT, version 2.3: "Values of Debye-Hueckel a and b and
        bdot (ionic strength coefficient) are read at fixed temperatures. Linear interpolation occurs between temperatures";
        "-llnl_gamma a, where a is the ion-size parameter"]; uncharged species with -llnl_gamma: log g = 0 (B-dot is an equation
        for ions; the model is documented as "similar to EQ3/6 and Geochemist's Workbench", where polar neutral species have
        unit activity coefficients; rule fixed by the C16 task statement)
  R5  -co2_llnl_gamma: Drummond (1981) polynomial with the five -co2_coefs C, F, G, E, H of the file:
        ln g = (C + F T + G/T) I - (E + H T) I/(I+1), T in kelvin [RELEASE.TXT 2.3 "-co2_llnl_gamma, indicates the temperature
        dependent function ... given in -co2_coefs ... Applies to uncharged species only"; database comment "coefficients for the
        Drummond (1981) polynomial"; form of the polynomial: EQ3NR manual (Wolery 1992), eq. for nonpolar neutral species]
  Outside the property (excluded, counted): H2O and e- (not solute activity coefficients), -activity_water species (iso.dat; the
  documentation gives "activity(water)/55.5" only to 3 digits), exchange and surface species.
  Species WITHOUT -llnl_gamma in a file with LLNL parameters (llnl.dat: Hf+4, Pm+3, Cyanide-, Thiocyanate-) follow R1-R3 at the
  reported (= interpolated LLNL) DH_A / DH_B like everywhere else; see FIXED below for the defect this check found there.
"""
import math, os, re
from hypothesis import strategies as st
from .. import lib, chemgen as cg, dbparse, gd
from ..core import Violation, Discard
from . import c01

ID = "C16"
LEVEL = "exploration"
RULE = ("Part A: Hypothesis-generated solutions on the shipped ion-association databases (C01's generator: 1-8 elements, pH "
        "2-12, 0-100 C inside the LLNL grid, unit/charge/phase/valence options, optional second simulation with REACTION / "
        "EQUILIBRIUM_PHASES / MIX / temperature step, concentrations scaled by one factor per solution into a nominal ionic "
        "strength of 3e-4..4; plus a brine generator: 1-6 major ions up to several molal with 0-4 trace elements); every "
        "selected-output row with 1e-4 <= MU <= 6 is checked: LG of every aqueous species present against the model the database "
        "text assigns (in LLNL-type files also the species without -llnl_gamma: Davies / -gamma), at the reported MU, DH_A, DH_B "
        "(1e-9). Non-trivial (IA) = >= 5 checked species with |LG| > 1e-3. "
        "Part B: composition paths c(t) = t * (mixture of 1-4 exactly stoichiometric neutral salts) on pitzer.dat, sit.dat, "
        "frezchem.dat, ColdChem.dat and pitzer.dat+Concrete_PZ.dat, t on a geometric grid of 64/128/256 intervals from 1e-4..1e-2 "
        "to a nominal ionic strength of 0.05..5.8 molal (reported MU <= 6), fixed temperature 0-100 C (frezchem/ColdChem 0-25 C), "
        "1 atm, each node a "
        "charge-balanced solution ('pH 7 charge') or a REACTION step on charge-balanced pure water; Gibbs-Duhem residual after "
        "Richardson extrapolation <= 1e-4 * sum|terms| (three nested trapezoid levels, inconclusive unless the refinement ratio is "
        "~4) and |ln a_w + phi*sum(m)/55.50837| <= 1e-5 at every node. Non-trivial (path) = reported MU at the last node >= 0.5 "
        "and >= 2 distinct ions above 1e-6 molal. Every case starts from a fresh instance + LoadDatabase; in the 'history' "
        "variants (about 45 % of the paths, 20 % of the IA cases) one or two unrelated solutions (other salts / elements, other "
        "temperature; chloride and bromide brines favoured before paths) are speciated on the same instance in earlier RunString "
        "calls, without reloading - the oracle is unchanged. Distinct by SHA-256 of the case")
ASSUMPTIONS = ["vp/dbparse.py reads the -gamma / -llnl_gamma / -co2_llnl_gamma options, charges and the LLNL_AQUEOUS_MODEL_PARAMETERS "
               "tables as the PHREEQC documentation defines them",
               "activity-coefficient rules R1-R5 as quoted in the module docstring (PHREEQC-2 manual eq. 5/6 and the description of "
               "-gamma; RELEASE.TXT version 2.3 for the LLNL options); -gamma a b is applied literally for a = 0 and/or b = 0",
               "uncharged species with -llnl_gamma have log gamma = 0 (EQ3/6 / GWB convention the LLNL model is documented to follow)",
               "MU, DH_A, DH_B, TC, TK are taken as reported (the property evaluates the models AT the reported values); only for "
               "LLNL-type files are DH_A / DH_B themselves compared with the file's table",
               "excluded and counted: H2O, e-, -activity_water species, exchange/surface species",
               "species without -llnl_gamma in a file with LLNL parameters follow the general rules R1-R3 at the reported DH_A / DH_B "
               "(asserted since the repair 5be39617 of the defect this check found: they were evaluated with A = B = 0)",
               "Gibbs-Duhem is an identity of the activity model for any change of the species molalities at fixed T, P (no chemical "
               "equilibrium needed); the MacInnes scaling (pitzer.dat) adds z_i*c to every ln gamma_i and cancels only in "
               "charge-balanced solutions, therefore every node is charge balanced by construction and nodes with "
               "|CHARGE_BALANCE| > 1e-9 sum|z m| are discarded",
               "1/M_w = 55.50837 mol/kg (value the model is defined with); trapezoid rule in ln a on a grid equidistant in ln t has an "
               "h^2 error expansion (Richardson)",
               "the relations hold for every completed calculation whatever the same instance computed before (history variants); a "
               "history run that stops with an error discards the case",
               "paths whose quadrature is not in the asymptotic regime are discarded as inconclusive, never reported as violations"]
TECHNIQUE = ("property-based testing (Hypothesis): reference re-evaluation of the database's activity model per species; "
             "metamorphic multi-run relation (Gibbs-Duhem path integral) for Pitzer/SIT")
LEVEL_TEXT = ("Exploration: hundreds of generated solutions per run on 10 (thorough 12) ion-association databases, every aqueous "
              "species' LG re-evaluated in Python from the database text; hundreds of generated composition paths on 5 Pitzer/SIT "
              "parameter sets with 65-257 speciations each, checked for Gibbs-Duhem consistency and the osmotic-coefficient / "
              "water-activity relation. Not a proof: compositions, temperatures and paths are sampled; parameter errors that keep "
              "gamma and phi mutually consistent (e.g. a wrong temperature coefficient) are invisible to Part B by design.")
FLOORS = {"quick": 340, "thorough": 3400}
SHARDS = {"quick": 8, "thorough": 16}
if os.environ.get("C16_DEV_SHARDS"):
    SHARDS = {"quick": int(os.environ["C16_DEV_SHARDS"]), "thorough": int(os.environ["C16_DEV_SHARDS"])}
# per shard: (c01-type IA cases, brine IA cases, brine IA cases with history, paths on a fresh instance, paths with history)
BUDGET = {"quick": (160, 300, 120, 75, 65), "thorough": (1200, 2200, 900, 550, 500), "replay": (1, 1, 1, 1, 1)}

TOL_LG = 1e-9
TOL_GD = 1e-4
TOL_AW = 1e-5
I_MIN, I_MAX = 1e-4, 6.0          # ionic-strength range the property quantifies over
ABSENT = -99.99
LN10 = math.log(10.0)

IA_DATABASES = list(c01.DATABASES)
IA_THOROUGH_EXTRA = [("PHREEQC_ThermoddemV1.10_15Dec2020.dat", 2), ("Kinec_v3.dat", 1)]
# path databases: (name, weight, (tmin, tmax))
CONCRETE = "pitzer.dat+Concrete_PZ.dat"
PATH_DATABASES = [("pitzer.dat", 6, (0.0, 100.0)), ("sit.dat", 3, (0.0, 100.0)), ("frezchem.dat", 2, (0.0, 25.0)),
                  ("ColdChem.dat", 2, (0.0, 25.0)), (CONCRETE, 1, (0.0, 100.0))]

FIXED = ("Found by this check on the pinned tree and repaired in /repo (commit 5be39617): in a database with "
         "LLNL_AQUEOUS_MODEL_PARAMETERS, species without -llnl_gamma (Davies default, or -gamma) were evaluated with Debye-Hueckel "
         "A = B = 0, because utilities.cpp calc_dielectrics() returns at once when llnl_temp is non-empty and model.cpp gammas() "
         "cases 1 and 2 used the DH_A / DH_B it leaves untouched (llnl.dat: log gamma = 0 for Hf+4, Pm+3, Cyanide-, Thiocyanate- "
         "at any ionic strength). Regression replay: replays/C16/fixed-llnl-file-davies-species-A0.json")


def prepare(tier):
    lib.build("rel", ["libiphreeqc_rel.so"])


# =============================================================================================== Part A: ion association
def interp(tc, xs, ys):
    """linear interpolation in the file's temperature grid; None outside"""
    if len(xs) != len(ys) or not xs:
        return None
    for i, x in enumerate(xs):
        if tc == x:
            return ys[i]
    for i in range(len(xs) - 1):
        if xs[i] < tc < xs[i + 1]:
            f = (tc - xs[i]) / (xs[i + 1] - xs[i])
            return (1.0 - f) * ys[i] + f * ys[i + 1]
    return None


def expected_lg(sp, llnl, mu, A, B, tc, tk):
    """-> (model label, expected log10 gamma) or (label, None) when the species is outside the property"""
    z = sp.charge
    gm = sp.gamma_model
    sq = math.sqrt(mu)
    kind = gm[0]
    if kind == "water":
        return "excluded:activity_water", None
    if llnl is not None and kind in ("llnl", "co2_llnl"):
        if kind == "llnl":
            if z == 0:
                return "bdot_neutral", 0.0
            bdot = interp(tc, llnl["temperatures"], llnl["bdot"])
            if bdot is None:
                return "excluded:outside_llnl_grid", None
            return "bdot", -A * z * z * sq / (1.0 + gm[1] * B * sq) + bdot * mu
        if kind == "co2_llnl":
            c = llnl["co2_coefs"]
            if len(c) != 5 or z != 0:
                return "excluded:co2_coefs", None
            return "co2", ((c[0] + c[1] * tk + c[2] / tk) * mu - (c[3] + c[4] * tk) * (mu / (mu + 1.0))) / LN10
    if kind in ("llnl", "co2_llnl"):
        return "excluded:llnl_option_without_llnl_parameters", None
    if kind == "davies":
        return "davies", -A * z * z * (sq / (1.0 + sq) - 0.3 * mu)
    if kind == "neutral":
        return "neutral", 0.1 * mu
    if kind == "dh":
        a, b = gm[1], gm[2]
        if z == 0:
            return "wateq_neutral", b * mu
        return "wateq", -A * z * z * sq / (1.0 + B * a * sq) + b * mu
    return "excluded:" + kind, None


ORACLE_OF = {"davies": "lg_davies", "neutral": "lg_neutral", "wateq": "lg_wateq", "wateq_neutral": "lg_wateq",
             "bdot": "lg_bdot", "bdot_neutral": "lg_bdot", "co2": "lg_co2"}

MAJOR = ["Na", "K", "Ca", "Mg", "Cl", "S(6)", "C(4)", "Br", "N(5)", "Li", "Sr", "F", "Si", "Ba"]
MAJOR_HI = {"Na": 4.0, "K": 3.0, "Ca": 2.0, "Mg": 2.0, "Cl": 5.0, "S(6)": 1.5, "C(4)": 0.5, "Br": 2.0, "N(5)": 2.0, "Li": 1.0,
            "Sr": 0.3, "F": 0.01, "Si": 0.003, "Ba": 0.01}


def temp_st(lo, hi):
    """a temperature bucket is drawn first (Hypothesis' float strategies favour the interval ends), then a value inside it"""
    edges = [0.0, 15.0, 35.0, 70.0, 100.0]
    buckets = []
    for a, b in zip(edges[:-1], edges[1:]):
        a2, b2 = max(a, lo), min(b, hi)
        if b2 - a2 > 1.0:
            buckets.append((a2, b2))
    buckets.sort(key=lambda ab: (ab[0] < 30.0, ab))       # (Hypothesis favours the first entries: warm buckets first)
    if lo <= 25.0 <= hi:
        buckets.append((25.0, 25.0))
    return st.sampled_from(buckets).flatmap(
        lambda ab: st.just(ab[0]) if ab[0] == ab[1] else cg.uni(ab[0], ab[1], 3).map(lambda x: min(max(x, ab[0]), ab[1])))


def ia_temp_st(inf):
    """0..100 C; files with LLNL parameters stop with an error outside their temperature grid (C01 trap iii)"""
    lo, hi = 0.0, 100.0
    if inf.db.llnl and inf.db.llnl["temperatures"]:
        lo, hi = max(lo, min(inf.db.llnl["temperatures"])), min(hi, max(inf.db.llnl["temperatures"]))
    return temp_st(lo, hi)


def _label(inf, el):
    """how an element is entered in SOLUTION for this database: valence-qualified name if defined, else the primary name"""
    if el in inf.valence or el in inf.totals:
        return el
    b = dbparse.base_element(el)
    return b if b in inf.totals else None


@st.composite
def brine_sol_st(draw, dbn, number=1):
    inf = c01.info(dbn)
    majors = [m for m in MAJOR if _label(inf, m)]
    nm = draw(st.integers(1, min(6, len(majors))))
    chosen = draw(st.lists(st.sampled_from(majors), min_size=nm, max_size=nm, unique=True))
    level = draw(st.floats(-3.5, 0.0))          # salinity level of the case: majors up to 10^level * their cap
    comps = []
    for m in chosen:
        hi = MAJOR_HI[m] * 10 ** level
        comps.append({"el": _label(inf, m), "value": c01._r(draw(cg.logu(max(hi * 1e-3, 1e-9), hi)), 4)})
    used = {dbparse.base_element(c["el"]) for c in comps}
    pool = [e for e in inf.totals if e not in used]
    if pool:
        nt = draw(st.integers(0, 4))
        for e in draw(st.lists(st.sampled_from(pool), min_size=0, max_size=nt, unique=True)):
            comps.append({"el": e, "value": c01._r(draw(cg.logu(1e-9, 1e-4)), 3)})
    while len(comps) > 1 and len(inf.species_for(sorted({inf.db.master[c["el"]].base for c in comps}))) > c01.MAX_SPECIES:
        comps.pop()
    pH = draw(cg.uni(3.0, 11.0, 3))
    return {"number": number, "temp": draw(ia_temp_st(inf)), "pH": pH, "pe": c01._r(draw(cg.uni(2.0, 14.0, 3)) - pH, 4),
            "units": "mol/kgw", "comps": comps}


@st.composite
def brine_st(draw, databases, history=False):
    """history=True: one or two unrelated solutions (other elements, other temperature) are speciated on the SAME instance
    before the case, each in its own RunString call; the oracle on the case is unchanged (the models must hold whatever the
    instance computed before)"""
    names = [d for d, w in databases for _ in range(w)]
    dbn = draw(st.sampled_from(names))
    case = {"kind": "ia", "gen": "brine", "db": dbn, "sols": [draw(brine_sol_st(dbn))], "react": []}
    if history:
        case["gen"] = "brine+history"
        case["hist"] = [draw(brine_sol_st(dbn, 900 + k)) for k in range(draw(st.sampled_from([1, 1, 2])))]
    return case


def _into_range(case):
    """C01's generator spreads ionic strengths over 1e-9..25; bring each solution's nominal ionic strength (master-species
    charges, full dissociation) into 3e-4..4 molal by scaling all its concentrations with one factor (construction, not rejection)"""
    inf = c01.info(case["db"])
    for sol in case["sols"]:
        mol = c01.expected_molalities(inf, sol)[0]
        salt = 0.5 * sum(inf.master_charge.get(c["el"], 0.0) ** 2 * m for c, m in zip(sol["comps"], mol))
        acid = 0.5 * (10.0 ** -sol["pH"] + 10.0 ** (sol["pH"] - 14.0))
        f = 1.0
        if salt + acid > 4.0:
            f = 4.0 / (salt + acid)
        elif salt + acid < 3e-4 and salt > 0:
            f = min(3e-4 / salt, 1e6)
        if f != 1.0:
            for c in sol["comps"]:
                c["value"] = c01._r(c["value"] * f, 5)
    return dict(case, kind="ia", gen="c01")


def ia_c01_st(databases):
    return c01.case_st(databases).map(_into_range)


def ia_input(inf, case):
    els, foreign = c01.case_elements(inf, case)
    species = [s for s in inf.species_for(els)]
    items = [("TC", "TC"), ("TK", "TK"), ("MU", "MU"), ("DH_A", "DH_A"), ("DH_B", "DH_B")]
    for s in species:
        items.append(("LG:" + s, 'LG("%s")' % s))
        items.append(("LM:" + s, 'LM("%s")' % s))
    P = [cg.KNOBS_TIGHT]
    for sol in case["sols"]:
        P.append(c01.render_solution(sol))
    P.append("SELECTED_OUTPUT 1\n -reset false\n -state true\n -high_precision true")
    up = ["USER_PUNCH 1", " -headings " + " ".join("u%d" % i for i in range(len(items))), " -start"]
    ln = 10
    for i in range(0, len(items), 8):
        up.append(" %d PUNCH %s" % (ln, ", ".join(x[1] for x in items[i:i + 8])))
        ln += 10
    up.append(" -end")
    P.append("\n".join(up))
    P.append("END")
    if case["react"]:
        Q = []
        if not any(r["kind"] == "mix" for r in case["react"]):
            Q.append("USE solution 1")
        for r in case["react"]:
            if r["kind"] == "mix":
                Q.append("MIX 1\n 1 %s\n 2 %s" % (cg.fmt(r["f"][0]), cg.fmt(r["f"][1])))
            elif r["kind"] == "reaction":
                Q.append("REACTION 1\n %s 1\n %s moles in %d steps" % (r["formula"], cg.fmt(r["moles"]), r["steps"]))
            elif r["kind"] == "eqphases":
                Q.append("EQUILIBRIUM_PHASES 1\n" + "\n".join(" %s %s %s" % (p, cg.fmt(si), cg.fmt(am)) for p, si, am in r["phases"]))
            elif r["kind"] == "temp":
                Q.append("REACTION_TEMPERATURE 1\n %s" % cg.fmt(r["temp"]))
        Q.append("END")
        P.append("\n".join(Q))
    return "\n".join(P) + "\n", items, species


def t_bucket(tc):
    if abs(tc - 25.0) < 1e-9:
        return "T=25"
    return "T<15" if tc < 15 else "T15-35" if tc < 35 else "T35-70" if tc < 70 else "T70-100"


def i_bucket(mu):
    return "I<1e-3" if mu < 1e-3 else "I<0.1" if mu < 0.1 else "I<1" if mu < 1.0 else "I>=1"


def check_ia(case, ctx):
    inf = c01.info(case["db"])
    db = inf.db
    text, items, species = ia_input(inf, case)
    try:
        I = lib.fresh(case["db"])
    except RuntimeError as e:
        if "LoadDatabase" not in str(e):
            raise
        raise Discard("database_load_error:" + case["db"])
    try:
        for h in case.get("hist", []):
            # earlier, unrelated work of the same instance (no reload in between)
            if I.run_string(cg.KNOBS_TIGHT + "\n" + c01.render_solution(h) + "\nEND\n") != 0 or I.errors().strip():
                raise Discard("ia_history_run_error")
        rc = I.run_string(text)
        if rc != 0 or I.errors().strip():
            err = I.errors().strip().split("\n")[0][:60]
            raise Discard("ia_run_error:" + re.sub(r"[0-9.eE+-]+", "#", err)[:40])
        T = I.table(1)
    finally:
        I.close()
    if T.rows < 2:
        raise RuntimeError("no selected-output row")
    head = T.cells[0]
    col = {}
    for j, h in enumerate(head):
        col.setdefault(h, j)
    ucol = [col.get("u%d" % i) for i in range(len(items))]
    if any(u is None for u in ucol):
        raise RuntimeError("USER_PUNCH column missing in the table")
    llnl = db.llnl if (db.llnl and db.llnl["temperatures"]) else None
    models = {}
    excluded = {}
    nz = 0
    worst = 0.0
    tcs, mus = [], []
    skipped_rows = 0
    n_llnl_default = 0
    for r in range(1, T.rows):
        row = T.cells[r]
        v = {key: row[j] for (key, _), j in zip(items, ucol)}
        mu, A, B, tc, tk = v["MU"], v["DH_A"], v["DH_B"], v["TC"], v["TK"]
        for name, x in (("MU", mu), ("DH_A", A), ("DH_B", B), ("TC", tc), ("TK", tk)):
            if not isinstance(x, float) or x != x:
                raise RuntimeError("row %d: %s = %r" % (r, name, x))
        if not (I_MIN <= mu <= I_MAX):
            # the property quantifies over compositions from 1e-4 to 6 molal
            skipped_rows += 1
            continue
        tcs.append(tc)
        mus.append(mu)
        where = "row %d (%s, %.6g C, MU %.6g)" % (r, row[col["state"]] if "state" in col else "?", tc, mu)
        if llnl is not None:
            ea = interp(tc, llnl["temperatures"], llnl["dh_a"])
            eb = interp(tc, llnl["temperatures"], llnl["dh_b"])
            if ea is None or eb is None:
                raise Discard("ia_outside_llnl_grid")
            if abs(A - ea) > TOL_LG or abs(B - eb) > TOL_LG:
                raise Violation("llnl_dh_constants", "%s: %s reports DH_A = %r, DH_B = %r; linear interpolation of its "
                                "LLNL_AQUEOUS_MODEL_PARAMETERS table gives %r, %r" % (where, case["db"], A, B, ea, eb))
        for s in species:
            lm, lg = v["LM:" + s], v["LG:" + s]
            if not isinstance(lm, (int, float)) or not isinstance(lg, (int, float)) or lg != lg:
                raise RuntimeError("%s: LM/LG(%s) = %r/%r" % (where, s, lm, lg))
            if abs(lm - ABSENT) < 1e-9 or lm <= -999.0:
                continue                      # species not in the model
            if s in (inf.water, inf.eminus):
                excluded["excluded:H2O_or_e-"] = excluded.get("excluded:H2O_or_e-", 0) + 1
                continue
            sp = db.species[s]
            label, e = expected_lg(sp, llnl, mu, A, B, tc, tk)
            if llnl is not None and e is not None and label in ("davies", "neutral", "wateq", "wateq_neutral"):
                n_llnl_default += 1
            if e is None:
                excluded[label] = excluded.get(label, 0) + 1
                continue
            d = lg - e
            models[label] = models.get(label, 0) + 1
            worst = max(worst, abs(d))
            if abs(lg) > 1e-3:
                nz += 1
            if abs(d) > TOL_LG + 1e-13 * abs(e):
                raise Violation(ORACLE_OF[label], "%s: LG(%s) = %r, but %s (line %s: model %r, z = %g) gives %s = %r at MU = %r, "
                                "DH_A = %r, DH_B = %r, TK = %r; difference %.3e"
                                % (where, s, lg, case["db"], sp.line, sp.gamma_model, sp.charge, label, e, mu, A, B, tk, d))
    nrows = T.rows - 1 - skipped_rows
    if skipped_rows:
        ctx.event("ia:rows_outside_1e-4..6_molal_ionic_strength(not_asserted)", skipped_rows)
    if nrows == 0:
        raise Discard("ia_ionic_strength_outside_1e-4..6")
    classes = ["ia", "ia:gen=" + case.get("gen", "?"), "ia:db=" + case["db"]]
    if nrows > 1:
        classes.append("ia:rows>=2(reacted_states)")
    classes += ["ia:model=" + m for m in sorted(models)]
    classes += ["ia:" + t for t in sorted({t_bucket(t) for t in tcs})]
    classes += ["ia:" + t for t in sorted({i_bucket(m) for m in mus})]
    for r in case["react"]:
        classes.append("ia:react=" + r["kind"])
    if case.get("hist"):
        classes.append("ia:history(1-2_earlier_runs_on_the_instance)")
        mine = {db.master[c["el"]].base for sol in case["sols"] for c in sol["comps"]}
        if any(db.master[c["el"]].base not in mine for h in case["hist"] for c in h["comps"]):
            classes.append("ia:history_had_elements_absent_from_the_case")
    if n_llnl_default:
        classes.append("ia:species_without_llnl_gamma_in_llnl_file_checked")
        ctx.extra["ia_species_checked:without_llnl_gamma_in_llnl_file"] = \
            ctx.extra.get("ia_species_checked:without_llnl_gamma_in_llnl_file", 0) + n_llnl_default
    for k, n in excluded.items():
        ctx.event("ia:" + k, n)
    for k, n in models.items():
        ctx.extra["ia_species_checked:" + k] = ctx.extra.get("ia_species_checked:" + k, 0) + n
    w = ctx.extra.get("ia_worst_abs_difference", [0.0])
    ctx.extra["ia_worst_abs_difference"] = [max(w[0], worst)]
    nt = nz >= 5
    if nt:
        ctx.extra["nt_ia"] = ctx.extra.get("nt_ia", 0) + 1
    return {"nontrivial": nt, "classes": classes}


# =============================================================================================== Part B: Pitzer / SIT paths
CATIONS = {"Na": 1, "K": 1, "Li": 1, "Mg": 2, "Ca": 2, "Sr": 2, "Ba": 2}
ANIONS = {"Cl": ("Cl", 1, "Cl"), "Br": ("Br", 1, "Br"), "SO4": ("S(6)", 2, "S"), "HCO3": ("C(4)", 1, "C"), "CO3": ("C(4)", 2, "C"),
          "NO3": ("N(5)", 1, "N"), "Al(OH)4": ("Al", 1, "Al")}
# generator weights
CATION_W = {"Na": 5, "K": 4, "Mg": 4, "Ca": 4, "Li": 1, "Sr": 1, "Ba": 1}
ANION_W = {"Cl": 6, "SO4": 4, "Br": 2, "HCO3": 3, "CO3": 1, "NO3": 1, "Al(OH)4": 2}


def salt_info(name):
    """'Na|SO4' -> dict(formula 'Na2SO4', totals {'Na': 2, 'S(6)': 1}, inom = 1/2 sum nu z^2, bases {'Na','S'})"""
    cat, an = name.split("|")
    zc = CATIONS[cat]
    el, za, base = ANIONS[an]
    g = math.gcd(zc, za)
    nc, na = za // g, zc // g
    poly = an not in ("Cl", "Br")
    f = cat + (str(nc) if nc > 1 else "")
    f += ("(%s)%d" % (an, na)) if (poly and na > 1) else (an + (str(na) if na > 1 else ""))
    return {"formula": f, "totals": {cat: float(nc), el: float(na)}, "inom": 0.5 * (nc * zc * zc + na * za * za),
            "bases": {cat, base}, "cation": cat, "anion": an}


_PINFO = {}


class PathInfo(object):
    def __init__(self, name):
        self.name = name
        self.prefix = ""
        if name == CONCRETE:
            ddir = dbparse.dbdir()
            with open(os.path.join(ddir, "pitzer.dat"), "rb") as f:
                base = f.read().decode("latin-1")
            with open(os.path.join(ddir, "Concrete_PZ.dat"), "rb") as f:
                add = f.read().decode("latin-1")
            self.load = "pitzer.dat"
            self.prefix = add.rstrip("\n") + "\nEND\n"       # the add-on is written to be read as part of an input file
            db = dbparse.parse_text(base + "\n" + add, name)
        else:
            self.load = name
            db = dbparse.load(name)
        self.db = db
        self.water = db.master["O"].species
        self.eminus = db.master["E"].species
        self.elements = set(db.master)
        salts = []
        for c in CATIONS:
            if c not in db.master or db.master[c].species not in db.species:
                continue
            for a, (el, za, base) in ANIONS.items():
                if el not in db.master and base not in db.master:
                    continue
                if a == "Al(OH)4" and (name != CONCRETE or c not in ("Na", "K")):
                    continue
                if a == "NO3" and db.master.get("N(5)") is None:
                    continue
                salts.append(c + "|" + a)
        self.salts = salts

    def species_for(self, bases):
        ok = set(bases) | {"H", "O", "e"}
        return [s.name for s in self.db.species.values()
                if set(s.elements) <= ok and s.name not in (self.water, self.eminus)]


def pinfo(name):
    if name not in _PINFO:
        _PINFO[name] = PathInfo(name)
    return _PINFO[name]


@st.composite
def path_st(draw):
    names = [(d, rng) for d, w, rng in PATH_DATABASES for _ in range(w)]
    dbn, (tlo, thi) = draw(st.sampled_from(names))
    pi = pinfo(dbn)
    weighted = []
    for s in pi.salts:
        c, a = s.split("|")
        weighted += [s] * (CATION_W[c] * ANION_W[a])
    if dbn == CONCRETE:
        # the add-on's own parameters (Al(OH)4- with K+/Na+) are the point of this class
        weighted += [s for s in pi.salts if s.endswith("Al(OH)4")] * 60
    ns = draw(st.sampled_from([1, 1, 2, 2, 3, 3, 4]))
    chosen = draw(st.lists(st.sampled_from(weighted), min_size=ns, max_size=ns, unique=True))
    salts = [[s, draw(cg.logu(0.05, 1.0, 3))] for s in chosen]
    temp = draw(temp_st(tlo, thi))
    k = draw(st.integers(0, 3))
    imax = draw(cg.logu(0.05, 5.8, 3) if k == 0 else cg.logu(0.6, 5.8, 3) if k == 1 else cg.uni(0.6, 5.8, 3))
    t0 = draw(st.sampled_from([1e-4, 1e-4, 1e-3, 1e-2]))
    if t0 * 20 > imax:
        t0 = 1e-4
    n = draw(st.sampled_from([64, 128, 128, 256]))
    mode = draw(st.sampled_from(["charge", "charge", "reaction"]))
    return {"kind": "path", "db": dbn, "temp": temp, "salts": salts, "t0": t0, "imax": imax, "n": n, "mode": mode}


HIST_ANION_W = {"Cl": 12, "Br": 4, "SO4": 2, "HCO3": 2, "CO3": 1, "NO3": 1, "Al(OH)4": 1}


@st.composite
def path_hist_st(draw):
    """a path preceded, on the SAME instance and without reloading the database, by one or two unrelated speciations (brines
    of other salts at another temperature; chloride and bromide brines favoured).  The oracle on the path is unchanged."""
    case = draw(path_st())
    pi = pinfo(case["db"])
    tlo, thi = [rng for d, w, rng in PATH_DATABASES if d == case["db"]][0]
    weighted = []
    for s in pi.salts:
        c, a = s.split("|")
        weighted += [s] * (CATION_W[c] * HIST_ANION_W[a])
    hist = []
    for k in range(draw(st.sampled_from([1, 1, 2]))):
        ns = draw(st.sampled_from([1, 2, 2, 3]))
        chosen = draw(st.lists(st.sampled_from(weighted), min_size=ns, max_size=ns, unique=True))
        hist.append({"temp": draw(temp_st(tlo, thi)), "salts": [[x, draw(cg.logu(0.01, 2.0, 3))] for x in chosen]})
    return dict(case, hist=hist)


def hist_text(pi, h, number):
    totals = {}
    for name, m in h["salts"]:
        for e, nu in salt_info(name)["totals"].items():
            totals[e] = totals.get(e, 0.0) + nu * m
    L = [pi.prefix + cg.KNOBS_TIGHT, "SOLUTION %d" % number, " temp " + cg.fmt(h["temp"]), " pH 7 charge", " units mol/kgw"]
    for e in sorted(totals):
        L.append(" %s %s" % (e, cg.fmt(totals[e])))
    L.append("END")
    return "\n".join(L) + "\n"


def path_composition(case):
    """amount of each salt per unit t such that the nominal (fully dissociated) ionic strength at t is t molal"""
    infos = [(salt_info(s), w) for s, w in case["salts"]]
    norm = sum(w * si["inom"] for si, w in infos)
    return [(si, w / norm) for si, w in infos]


def path_input(pi, case):
    comp = path_composition(case)
    totals = {}
    bases = set()
    for si, x in comp:
        for e, nu in si["totals"].items():
            totals[e] = totals.get(e, 0.0) + x * nu
        bases |= si["bases"]
    species = pi.species_for(bases)
    ts = gd.geometric_grid(case["t0"], case["imax"], case["n"])
    items = [("MU", "MU"), ("OSM", "OSMOTIC"), ("LAW", 'LA("%s")' % pi.water), ("TC", "TC"), ("CB", "CHARGE_BALANCE"),
             ("STEP", "STEP_NO")]
    for s in species:
        items.append(("MOL:" + s, 'MOL("%s")' % s))
        items.append(("LA:" + s, 'LA("%s")' % s))
    P = [pi.prefix + cg.KNOBS_TIGHT.replace("300", "400"),
         "SELECTED_OUTPUT 1\n -reset false\n -state true\n -high_precision true"]
    up = ["USER_PUNCH 1", " -headings " + " ".join("u%d" % i for i in range(len(items))), " -start"]
    ln = 10
    for i in range(0, len(items), 8):
        up.append(" %d PUNCH %s" % (ln, ", ".join(x[1] for x in items[i:i + 8])))
        ln += 10
    up.append(" -end")
    P.append("\n".join(up))
    T = cg.fmt(case["temp"])
    if case["mode"] == "charge":
        for k, t in enumerate(ts):
            L = ["SOLUTION %d" % (k + 1), " temp " + T, " pH 7 charge", " units mol/kgw"]
            for e in sorted(totals):
                L.append(" %s %s" % (e, cg.fmt(totals[e] * t)))
            P.append("\n".join(L))
        P.append("END")
    else:
        P.append("SOLUTION 1\n temp %s\n pH 7 charge\nEND" % T)
        L = ["USE solution 1", "REACTION 1"]
        for si, x in comp:
            L.append(" %s %s" % (si["formula"], cg.fmt(x)))
        for i in range(0, len(ts), 6):
            L.append(" " + " ".join(cg.fmt(t) for t in ts[i:i + 6]))
        L.append("END")
        P.append("\n".join(L))
    return "\n".join(P) + "\n", items, species, ts


def salt_family(case):
    an = sorted({salt_info(s)["anion"] for s, _ in case["salts"]})
    fam = {"Cl": "chloride", "Br": "bromide", "SO4": "sulfate", "HCO3": "carbonate", "CO3": "carbonate", "NO3": "nitrate",
           "Al(OH)4": "aluminate"}
    f = sorted({fam[a] for a in an})
    return f[0] if len(f) == 1 else "mixed-anion"


def check_path(case, ctx):
    pi = pinfo(case["db"])
    db = pi.db
    text, items, species, ts = path_input(pi, case)
    try:
        I = lib.fresh(pi.load)
    except RuntimeError as e:
        if "LoadDatabase" not in str(e):
            raise
        raise Discard("database_load_error:" + case["db"])
    try:
        for k, h in enumerate(case.get("hist", [])):
            # earlier, unrelated work of the same instance (no reload in between)
            if I.run_string(hist_text(pi, h, 900 + k)) != 0 or I.errors().strip():
                raise Discard("path_history_run_error")
        rc = I.run_string(text)
        if rc != 0 or I.errors().strip():
            err = I.errors().strip().split("\n")[0][:60]
            raise Discard("path_run_error:" + re.sub(r"[0-9.eE+-]+", "#", err)[:40])
        T = I.table(1)
    finally:
        I.close()
    head = T.cells[0]
    col = {}
    for j, h in enumerate(head):
        col.setdefault(h, j)
    ucol = [col.get("u%d" % i) for i in range(len(items))]
    if any(u is None for u in ucol) or "state" not in col:
        raise RuntimeError("USER_PUNCH column missing in the table")
    want_state = "i_soln" if case["mode"] == "charge" else "react"
    rows = [r for r in T.cells[1:] if r[col["state"]] == want_state]
    if len(rows) != len(ts):
        raise RuntimeError("expected %d %s rows, table has %d" % (len(ts), want_state, len(rows)))
    nodes = []
    ions_end = 0
    worst_aw = 0.0
    for k, row in enumerate(rows):
        v = {key: row[j] for (key, _), j in zip(items, ucol)}
        if case["mode"] == "reaction" and int(v["STEP"]) != k + 1:
            raise RuntimeError("row %d is reaction step %r" % (k, v["STEP"]))
        if abs(v["TC"] - case["temp"]) > 1e-9:
            raise RuntimeError("node %d at %r C, path is at %r C" % (k, v["TC"], case["temp"]))
        m, lna = {}, {}
        zabs = 0.0
        for s in species:
            x = v["MOL:" + s]
            la = v["LA:" + s]
            if not isinstance(x, float) or not isinstance(la, float) or x != x or la != la:
                raise RuntimeError("node %d: MOL/LA(%s) = %r/%r" % (k, s, x, la))
            if x <= gd.ABSENT_MOL or abs(la - ABSENT) < 1e-9:
                m[s] = 0.0
                lna[s] = 0.0
                continue
            m[s] = x
            lna[s] = la * LN10
            zabs += abs(db.species[s].charge) * x
        # precondition of the relation under the MacInnes convention: electroneutral composition
        if abs(v["CB"]) > 1e-9 * max(zabs, 1e-30):
            raise Discard("path_node_not_charge_balanced")
        lnaw = v["LAW"] * LN10
        nodes.append({"m": m, "lna": lna, "lnaw": lnaw})
        if v["MU"] > I_MAX:
            raise Discard("path_beyond_6_molal_ionic_strength")
        # ---- water activity = exp(-M_w phi sum m)
        sm = sum(m.values())
        phi = v["OSM"]
        d = lnaw + phi * sm / gd.W
        worst_aw = max(worst_aw, abs(d))
        if abs(d) > TOL_AW:
            raise Violation("water_activity", "%s, %.6g C, node %d of %d (t = %r, MU = %r): ln a_w = %r but -OSMOTIC*sum(m)/55.50837 = "
                            "-%r*%r/55.50837 = %r; difference %.3e (a_w = %r)"
                            % (case["db"], case["temp"], k, len(rows) - 1, ts[k], v["MU"], lnaw, phi, sm, -phi * sm / gd.W, d,
                               math.exp(lnaw)))
        if k == len(rows) - 1:
            mu_end = v["MU"]
            ions_end = sum(1 for s in species if db.species[s].charge != 0 and m[s] > 1e-6)
    if mu_end > I_MAX:
        raise Discard("path_beyond_6_molal_ionic_strength")
    an = gd.analyse(nodes)
    if an["max_skipped_molality"] > 1e-10:
        # a species enters or leaves the model along the path with a non-negligible molality: the sum cannot be formed
        raise Discard("path_species_set_changes_along_path")
    vd = gd.verdict(an, TOL_GD)
    if vd == "violation":
        raise Violation("gibbs_duhem", "%s, %.6g C, salts %r, %s mode, t = %g..%g (MU up to %.4g), %d intervals: Gibbs-Duhem residual "
                        "after Richardson extrapolation G* = %.6e (one level coarser %.6e), sum|terms| = %.6e, relative %.3e > 1e-4; "
                        "trapezoid sums N/4, N/2, N: %.6e %.6e %.6e (refinement ratio %.3f)"
                        % (case["db"], case["temp"], [(salt_info(s)["formula"], w) for s, w in case["salts"]], case["mode"],
                           case["t0"], case["imax"], mu_end, case["n"], an["G_star"], an["G_star_coarse"], an["S"],
                           abs(an["G_star"]) / an["S"], an["G_coarse"], an["G_mid"], an["G_fine"], an["ratio"]))
    if vd == "inconclusive":
        raise Discard("path_quadrature_not_asymptotic(inconclusive)")
    rel = abs(an["G_star"]) / an["S"] if an["S"] > 0 else 0.0
    w = ctx.extra.get("path_worst_relative_gibbs_duhem_residual", [0.0])
    ctx.extra["path_worst_relative_gibbs_duhem_residual"] = [max(w[0], rel)]
    w = ctx.extra.get("path_worst_water_activity_difference", [0.0])
    ctx.extra["path_worst_water_activity_difference"] = [max(w[0], worst_aw)]
    ctx.extra["path_nodes"] = ctx.extra.get("path_nodes", 0) + len(nodes)
    nt = mu_end >= 0.5 and ions_end >= 2
    if nt:
        ctx.extra["nt_paths"] = ctx.extra.get("nt_paths", 0) + 1
    tc = case["temp"]
    classes = ["path", "path:db=" + case["db"], "path:" + t_bucket(tc), "path:salts=%d" % len(case["salts"]),
               "path:family=" + salt_family(case), "path:mode=" + case["mode"], "path:n=%d" % case["n"],
               "path:I_end=" + ("<0.5" if mu_end < 0.5 else "0.5-2" if mu_end < 2 else "2-4" if mu_end < 4 else ">=4")]
    cats = {salt_info(s)["cation"] for s, _ in case["salts"]}
    ans = {salt_info(s)["anion"] for s, _ in case["salts"]}
    if len(cats) >= 2:
        classes.append("path:>=2_cations(theta_cc,psi_cca)")
    if len(ans) >= 2:
        classes.append("path:>=2_anions(theta_aa,psi_caa)")
    if any(abs(CATIONS[c]) == 2 for c in cats) and any(CATIONS[c] == 1 for c in cats):
        classes.append("path:1-2_cation_mixing(etheta)")
    if case.get("hist"):
        classes.append("path:history(1-2_earlier_runs_on_the_instance)")
        mine = set()
        for x, _ in case["salts"]:
            mine |= {salt_info(x)["cation"], salt_info(x)["anion"]}
        other = set()
        for h in case["hist"]:
            for x, _ in h["salts"]:
                other |= {salt_info(x)["cation"], salt_info(x)["anion"]}
        if other - mine:
            classes.append("path:history_had_ions_absent_from_the_path")
        if "Cl" in other - mine:
            classes.append("path:chloride-free_path_after_chloride_history")
    if an["skipped"]:
        ctx.event("path:terms_skipped(species_present_at_one_end_only)", an["skipped"])
    return {"nontrivial": nt, "classes": classes}


# =============================================================================================== driver
def check_case(case, ctx):
    if case.get("kind") == "path":
        return check_path(case, ctx)
    return check_ia(case, ctx)


def run(ctx):
    n_c01, n_brine, n_brine_h, n_path, n_path_h = BUDGET[ctx.tier]
    dbs = IA_DATABASES + IA_THOROUGH_EXTRA if ctx.tier == "thorough" else IA_DATABASES
    ctx.hyp(path_st(), lambda c: check_case(c, ctx), n_path, "paths")
    ctx.hyp(path_hist_st(), lambda c: check_case(c, ctx), n_path_h, "paths-history")
    ctx.hyp(brine_st(dbs), lambda c: check_case(c, ctx), n_brine, "ia-brine")
    ctx.hyp(brine_st(dbs, history=True), lambda c: check_case(c, ctx), n_brine_h, "ia-brine-history")
    ctx.hyp(ia_c01_st(dbs), lambda c: check_case(c, ctx), n_c01, "ia-c01")
