"""C19 - gas phases obey their equation of state and fugacity-based equilibrium.

Reading of the documentation (what decides the equation of state "in use", rule 3/4 of FRAMEWORK.md)
--------------------------------------------------------------------------------------------------
The PHREEQC-3 manual PDF in /repo/phreeqc3-doc is empty in this tree; the documentation that is present says:
 * phreeqc.dat header: the database holds "critical temperatures and pressures of gases in Peng-Robinson's EOS";
   comment block at its end: "Gas-pressures and fugacity coefficients are calculated with Peng-Robinson's EOS.  These
   binary interaction coefficients from Soreide and Whitson ... are hard-coded: kij H2O-CH4 0.49, H2O-CO2 0.19,
   H2O-H2S 0.19, H2O-N2 0.49, but are overwritten by the data block GAS_BINARY_PARAMETERS of this file".
 * RELEASE.TXT (11 Nov 2024): GAS_BINARY_PARAMETERS defines k_ij of pairs of gas components; lists the built-in
   water-gas values (H2O with CO2/H2S/H2Sg 0.19, CH4/Mtg/Methane/N2/Ntg/Ethane 0.49, Propane 0.55).
 * RELEASE.TXT (svn 7896): "For ideal gases, P = F.  For Peng-Robinson gases F = P * phi.  In EQUILIBRIUM_PHASES the
   target saturation index for a gas is log10(P) ... Basic functions SI and SR are based on the fugacity.  P and phi
   can be obtained with the Basic functions PR_P and PR_PHI."
 * RELEASE.TXT (2024): "Limits for fugacity coefficients were set to be 0.01 < phi < 85 in Peng-Robinson calculations."
 * error text of the engine (documented behaviour, an *error*, hence outside the domain): "Cannot calculate a mixture
   of ideal and Peng_Robinson gases, please define Tc and Pc for the active gases in PHASES".
=> EOS in use: Peng-Robinson when -T_c and -P_c are defined (in the database or input text) for the components of the
   gas phase; ideal gas when they are defined for none; a mixture of both kinds is rejected by the engine (excluded by
   construction here).  There is no documented pressure threshold.  k_ij: database / input GAS_BINARY_PARAMETERS,
   else the documented water-gas values, else 0.  Everything is re-derived from the database *text* by vp/eos.py.

Observables: USER_PUNCH full doubles GAS(i), GAS_P, GAS_VM, PR_P(i), PR_PHI(i), SI(i), TK, SYS(element), EQUI(i) and the
SELECTED_OUTPUT -gases columns (pressure, total mol, volume).  For ideal phases PR_P is not used (it is a
Peng-Robinson read-out); partial pressures are 10^SI there (fugacity = pressure).

Oracle, clause by clause (S = sentence of the property statement)
 S1 "P, V, T, moles satisfy the EOS in use (ideal, or PR outside the two-phase region; rel 1e-4)":
    ideal: P V = n R T; PR: P_reported = P_PR(V/n, T, x) evaluated by vp/eos.py, asserted when the state (V/n, T, x) is outside
    the two-phase region of the one-fluid cubic: one real root, or three real roots with V/n the vapour root and that root
    stable by more than 2 % in fugacity (Maxwell criterion).  Everything else (inside the spinodal, liquid/middle branch,
    metastable vapour, within rounding of a double root) is skipped and counted.  GAS_VM = V/n; -gases columns = BASIC values.
 S2 "partial pressures are mole-fraction shares of the total and sum to it": PR_P(i) = x_i P (1e-6 P), sum PR_P = P (1e-12).
 S3 "fugacity coefficient (inside 0.01..85) matches the EOS (1e-6)": PR_PHI(i) vs the PR mixture expression at the reported P,
    the composition PR_P(i)/P and the root of the cubic next to V/n; always 0.0099 <= PR_PHI <= 85.5; ideal: PR_PHI = 1.
 S4 "fugacity equals ten to its SI": (a) x_i = share of 10^SI_i/phi_i (1e-6), (b) sum_i 10^SI_i/phi_i = P.
 S5 "a fixed-pressure phase exists only if the sum of equilibrium partial pressures reaches P": phase with gas => sum = P (1e-6);
    (DESIGN's converse) no gas => sum <= P.
 S6 "same for gases as EQUILIBRIUM_PHASES": PR_P = 10^target, PR_PHI = pure-gas phi_EOS(P, T), SI = log10(phi P) while present,
    SI <= log10(phi P) when exhausted.
 Derived from S1 (quantifier: "initial partial pressures"): the moles a new GAS_PHASE adds to the system (element totals)
    equal V / V_m,EOS(sum p_i, T_gas, x = p_i / sum p_i).
 Several gas phases defined in one simulation (kind "multi"): each phase, used later with its own solution, obeys S1-S5 and the
    initial-moles relation with ITS OWN pressures, temperature and volume.  Components with zero initial pressure are not generated
    there (recorded finding: a listed but absent component keeps the partial pressure of an earlier calculation in the
    fixed-pressure sum, replays/C19/known/stale-absent-component-pressure.json).
 Domain: rows whose reported total pressure is outside 0.01..1000 atm are counted and skipped (quantifier of the property).

Solver noise (what the tolerances absorb besides the property's numbers): the engine converges on absolute mass-balance
residuals and reports quantities of two consecutive iterates (pressure/phi from the EOS call at the start of the last
iteration, moles and activities from its end), hence MOLE_SLACK_KGW on comparisons of moles with the reported total pressure.

Findings on the unchanged tree that the oracle recognises, counts and does not alarm on (replays/C19/known/*.json, see the
comments at the two places): stale reported total pressure of fixed-volume PR phases; doubled molar volume inside the spinodal.
"""
import math, os
from hypothesis import strategies as st
from .. import lib, chemgen as cg, eos
from ..core import Violation, Discard

ID = "C19"
LEVEL = "exploration"
RULE = ("Hypothesis-generated batch reactions of a generated solution (phreeqc.dat / pitzer.dat / core10.dat: gases with critical "
        "constants = Peng-Robinson; wateq4f.dat and input-defined gases without = ideal; 0-200 C in five equally likely ranges) with "
        "(a) a GAS_PHASE of 1-5 gases (families: any / redox-inert analogues / redox-coupled / condensable far below Tc / water or ammonia "
        "in a dense gas; optional input-defined gases with generated critical constants; optional user GAS_BINARY_PARAMETERS), "
        "fixed pressure or fixed volume, total pressure log-uniform over the decades 0.01-1000 atm, initial partial pressures as integer-"
        "weighted shares (some zero, under-filled, or an empty phase over an acid carbonate solution) or -equilibrate, volume 0.01-20 L "
        "(<= ~20 mol gas), optional minerals / REACTION steps / REACTION_TEMPERATURE sequences of 1-3 temperatures, or (b) 1-3 gases as "
        "EQUILIBRIUM_PHASES with target log10 P in -2..3 (half of them 1..3), optionally at 2-3 distinct REACTION_TEMPERATURE steps and / or "
        "reacted in 1-3 consecutive simulations with further solutions of other temperatures on the same instance, or (c) 2-4 NEW gas phases with different user numbers (own composition, pressure, "
        "temperature, volume, fixed P / fixed V, ideal or PR per phase, optional -equilibrate with one of two solutions, blocks in "
        "shuffled order) defined in ONE simulation and then each reacted in its own simulation with the solution it names, every "
        "phase judged by the single-phase clauses incl. the EOS-based initial moles (per-entity data must not leak between "
        "definitions).  KNOBS -convergence_tolerance 1e-12 in every input.  Oracle (vp/eos.py, "
        "independent Peng-Robinson from database text): see module docstring S1-S6.  Non-trivial = a gas exists and (PR with "
        "|ln phi| > 1e-3 for some checked component, or >= 2 gases with moles > 0); distinct by SHA-256 of the case")
ASSUMPTIONS = ["Peng-Robinson (1976) equations and van der Waals one-fluid mixing as quoted in the database/PHREEQC documentation",
               "R = 0.0820597 L atm/(mol K) is the documented model constant (DESIGN section 4 rule 6)",
               "k_ij = GAS_BINARY_PARAMETERS text, else the water-gas values documented in RELEASE.TXT / phreeqc.dat, else 0",
               "EOS in use = Peng-Robinson iff -T_c and -P_c are defined for the components (mixed definitions are an engine error, excluded)",
               "outside the two-phase region = single real root, or stable vapour root (one-fluid fugacity of the vapour root lower than that of "
               "the liquid root by > 2 %); all other states are outside the property (skipped and counted)",
               "reported pressures outside 0.01..1000 atm are outside the property's quantifier (skipped and counted)",
               "inputs set KNOBS -convergence_tolerance 1e-12 (DESIGN section 4 rule 2); gas moles carry an absolute solver noise of up to "
               "5e-7 mol per kg water when compared with the reported total pressure",
               "USER_PUNCH read-outs GAS, GAS_P, GAS_VM, PR_P, PR_PHI, SI, TK, SYS, EQUI report the state the engine ended with",
               "two recorded findings (stale total pressure of fixed-volume PR phases; doubled molar volume inside the spinodal) are "
               "recognised by signature, counted (classes stale_total_pressure / inside_spinodal) and not alarmed on"]
TECHNIQUE = "property-based testing (Hypothesis) against an independent reference model (Peng-Robinson / ideal-gas EOS re-evaluated from database text)"
LEVEL_TEXT = ("Exploration: thousands of generated gas-solution equilibria per run; every reported gas state is re-evaluated with an "
              "independent equation-of-state implementation (pressure-explicit cubic, fugacity coefficients, fugacity = 10^SI shares and sum, "
              "partial-pressure shares, fixed-pressure existence, EOS-based initial moles, gases as EQUILIBRIUM_PHASES).  States inside the "
              "two-phase region of the cubic and pressures outside 0.01-1000 atm are skipped and counted.  No proof: unexplored inputs remain.")
FLOORS = {"quick": 1000, "thorough": 10000}
SHARDS = {"quick": 8, "thorough": 16}
BUDGET = {"quick": 1200, "thorough": 12000, "replay": 1}      # cases per shard
if os.environ.get("C19_DEV_SHARDS"):                            # development on a shared machine: fewer, longer shards
    _k = int(os.environ["C19_DEV_SHARDS"])
    BUDGET = {t: BUDGET[t] * SHARDS.get(t, 1) // _k for t in BUDGET}
    SHARDS = {t: _k for t in SHARDS}

TOL_PSUM = 1e-6       # partial pressures: PR_P(i) vs (moles_i / total moles) P, relative to P (they stem from consecutive solver iterates)
TOL_PSUM_EXACT = 1e-12  # sum of PR_P vs P
TOL_EOS = 1e-4        # equation of state, relative (property)
TOL_PHI = 1e-6        # fugacity coefficient (property)
TOL_FUG = 1e-6        # 10^SI = phi p, relative
TOL_EXIST = 1e-6      # fixed-pressure existence: sum of equilibrium partial pressures vs P, relative
ABS_EXIST = 1e-6      # atm; an absent phase may hold a sum that exceeds P by a numerical threshold of the solver
MOLE_FLOOR = 1e-25    # components with fewer moles than this are absent (the engine's own zero is MIN_TOTAL = 1e-30 mol)
MOLE_SLACK_KGW = 5e-7  # absolute slack (mol per kg of water, at least one kg) on the total moles of gas wherever moles are compared with the
                       # reported total pressure: the engine reports the pressure of its last EOS evaluation, the moles of the step after
                       # it, and converges on absolute mass-balance residuals (H, O: relative to ~111 mol/kgw); observed <= 9e-8 mol
LNPHI_LO, LNPHI_HI = math.log(0.01), math.log(85.0)      # documented clamp 0.01 .. 85

# gas -> (elements it carries besides H and O)
GAS_ELEMENTS = {
    "CO2(g)": {"C": 1}, "CH4(g)": {"C": 1}, "N2(g)": {"N": 2}, "NH3(g)": {"N": 1}, "H2S(g)": {"S": 1},
    "O2(g)": {}, "H2(g)": {}, "H2O(g)": {},
    "Mtg(g)": {"Mtg": 1}, "Ntg(g)": {"Ntg": 1}, "Oxg(g)": {"Oxg": 1}, "Hdg(g)": {"Hdg": 1}, "H2Sg(g)": {"Sg": 1},
}
DBS = {
    "phreeqc.dat": ["CO2(g)", "CH4(g)", "N2(g)", "O2(g)", "H2(g)", "H2S(g)", "NH3(g)", "H2O(g)",
                    "Mtg(g)", "Ntg(g)", "Oxg(g)", "Hdg(g)", "H2Sg(g)"],
    "pitzer.dat": ["CO2(g)", "H2O(g)", "Mtg(g)", "Ntg(g)", "Oxg(g)", "Hdg(g)", "H2Sg(g)"],
    "wateq4f.dat": ["CO2(g)", "CH4(g)", "N2(g)", "O2(g)", "H2(g)", "H2S(g)", "NH3(g)", "H2O(g)"],       # no critical constants: ideal
    # critical constants but no GAS_BINARY_PARAMETERS block: the documented built-in water-gas coefficients apply
    "core10.dat": ["CO2(g)", "CH4(g)", "N2(g)", "O2(g)", "H2(g)", "H2S(g)", "NH3(g)", "H2O(g)"],
}
SOL_ELEMENTS = {"Na": 0.5, "K": 0.1, "Ca": 0.02, "Mg": 0.02, "Cl": 0.5, "S(6)": 0.02, "C(4)": 0.02}
# templates of input-defined gases (phreeqc.dat only): aqueous species, element, log K text, (Tc, Pc, omega) to perturb
CUSTOM = [
    ("CO2 = CO2", {"C": 1}, "-log_k -1.468\n -analytic 10.5624 -2.3547e-2 -3972.8 0 5.8746e5 1.9194e-5", (304.2, 72.86, 0.225)),
    ("Mtg = Mtg", {"Mtg": 1}, "-log_k -2.8", (190.6, 45.4, 0.008)),
    ("Ntg = Ntg", {"Ntg": 1}, "-log_k -3.1864", (126.2, 33.5, 0.039)),
    ("Oxg = Oxg", {"Oxg": 1}, "-log_k -2.8983", (154.6, 49.8, 0.021)),
    ("Hdg = Hdg", {"Hdg": 1}, "-log_k -3.105", (33.2, 12.8, -0.225)),
]
CUSTOM_NAMES = ["Gqa(g)", "Gqb(g)", "Gqc(g)"]
_DBTEXT = {}


def prepare(tier):
    lib.build("rel", ["libiphreeqc_rel.so"])


def dbtext(db):
    if db not in _DBTEXT:
        _DBTEXT[db] = open(os.path.join(lib.DBDIR, db), encoding="latin-1").read()
    return _DBTEXT[db]


def psat_water(tc):
    """rough water vapour pressure (atm), generator heuristic only (Antoine)"""
    if tc < 100:
        return 10 ** (8.07131 - 1730.63 / (233.426 + tc)) / 760.0
    return 10 ** (8.14019 - 1810.94 / (244.485 + tc)) / 760.0


# ------------------------------------------------------------------------------- generator
TBUCKETS = [(0.0, 25.0), (25.0, 60.0), (60.0, 100.0), (100.0, 150.0), (150.0, 200.0)]
EXTRA_SOL = {"Mtg(g)": "Mtg", "Ntg(g)": "Ntg", "Oxg(g)": "Oxg", "Hdg(g)": "Hdg", "H2Sg(g)": "Sg"}


@st.composite
def temperature(draw):
    """0..200 C, the five ranges equally likely (st.floats alone concentrates on a few 'simple' values)"""
    if draw(st.integers(0, 7)) == 0:
        return 25.0
    lo, hi = draw(st.sampled_from(TBUCKETS))
    return float("%.4g" % (lo + (hi - lo) * draw(st.integers(0, 1000)) / 1000.0))


@st.composite
def pressure(draw, lo_dec=-2, hi_dec=2):
    """log-uniform over the decades lo_dec..hi_dec+1 (atm), every decade equally likely"""
    d = draw(st.integers(lo_dec, hi_dec))
    return float("%.4g" % (10.0 ** (d + draw(st.integers(0, 1000)) / 1000.0)))


@st.composite
def multi_strategy(draw):
    """2-4 NEW gas phases with different user numbers (own composition, pressure, temperature, volume, type, ideal or
    Peng-Robinson, optional -equilibrate with one of two solutions) defined in ONE simulation, each then reacted in a
    simulation of its own with the solution it names: per-entity data must not leak from one definition to the next"""
    db = draw(st.sampled_from(["phreeqc.dat", "phreeqc.dat", "phreeqc.dat", "pitzer.dat", "core10.dat", "wateq4f.dat"]))
    sols = []
    for num in (1, 2):
        sol = draw(cg.simple_solution(num, elements=SOL_ELEMENTS, max_el=3, temp=False, charge=False))
        sol["temp"] = draw(temperature())
        sols.append(sol)
    custom = []
    if db == "phreeqc.dat" and draw(st.booleans()):
        for k, ti in enumerate(draw(st.lists(st.sampled_from(range(len(CUSTOM))), min_size=1, max_size=2, unique=True))):
            custom.append({"name": CUSTOM_NAMES[k], "tpl": ti})            # no critical constants: ideal
    taken = {CUSTOM[g["tpl"]][0] for g in custom}
    same = {"CO2 = CO2": "CO2(g)", "Mtg = Mtg": "Mtg(g)", "Ntg = Ntg": "Ntg(g)", "Oxg = Oxg": "Oxg(g)", "Hdg = Hdg": "Hdg(g)"}
    pool = [g for g in DBS[db] if g != "H2O(g)" and g not in {same[t] for t in taken}]
    inert = [g for g in pool if g in ("CO2(g)", "Mtg(g)", "Ntg(g)", "Oxg(g)", "Hdg(g)", "H2Sg(g)")]
    numbers = draw(st.lists(st.integers(1, 9), min_size=2, max_size=4, unique=True))
    phases = []
    for num in numbers:
        if custom and draw(st.integers(0, 2)) == 0:
            names = [g["name"] for g in custom]
        else:
            names = draw(st.lists(st.sampled_from(inert if inert and draw(st.integers(0, 3)) else pool), min_size=1, max_size=3, unique=True))
        typ = draw(st.sampled_from(["P", "V"]))
        gp = {"number": num, "type": typ, "temp": draw(temperature()), "use": draw(st.sampled_from([1, 2]))}
        ptot = draw(st.one_of(pressure(0, 2), pressure(-1, 2)))
        if typ == "P":
            gp["pressure"] = ptot
        vmax = min(20.0, 20.0 * 0.0820597 * (gp["temp"] + 273.15) / ptot)
        gp["volume"] = draw(cg.logu(min(0.01, vmax / 10), vmax, 3))
        if typ == "P":
            gp["volume"] = max(min(gp["volume"], 5.0), min(0.05, vmax))
        gp["equilibrate"] = typ == "V" and all(n in EXTRA_SOL or n == "CO2(g)" for n in names) and draw(st.integers(0, 4)) == 0
        # every listed component gets a positive partial pressure: a component that is listed but absent from the system keeps
        # the partial pressure of an EARLIER calculation in the engine's fixed-pressure sum (recorded finding,
        # replays/C19/known/stale-absent-component-pressure.json); in a single-simulation case there is no earlier calculation
        w = [draw(st.integers(1, 20)) for _ in names]
        gp["comps"] = [[n, float("%.4g" % (ptot * wi / sum(w)))] for n, wi in zip(names, w)]
        if gp["equilibrate"]:
            sol = sols[gp["use"] - 1]
            have = {c[0] for c in sol["comps"]}
            for n in names:
                e = EXTRA_SOL.get(n, "C(4)")
                if e not in have:
                    sol["comps"].append([e, draw(cg.logu(1e-3, 2e-2, 3)), ""])
                    have.add(e)
        phases.append(gp)
    order = draw(st.permutations(range(len(phases))))          # order of the blocks in the input != order of user numbers
    parts = {"kind": "multi", "db": db, "sol": sols[0], "sols": sols, "custom": custom, "phases": phases, "order": list(order),
             "kij": [], "minerals": [], "reaction": None, "rtemp": None}
    return finish(parts)


@st.composite
def case_strategy(draw):
    kind = draw(st.sampled_from(["gp", "gp", "gp", "gp", "equi", "multi"]))
    if kind == "multi":
        return draw(multi_strategy())
    db = draw(st.sampled_from(["phreeqc.dat", "phreeqc.dat", "phreeqc.dat", "pitzer.dat", "pitzer.dat", "wateq4f.dat", "core10.dat"]))
    tc = draw(temperature())
    sol = draw(cg.simple_solution(1, elements=SOL_ELEMENTS, max_el=4, temp=False, charge=False))
    sol["temp"] = tc
    if draw(st.integers(0, 3)) == 0:
        sol["water"] = draw(cg.logu(0.2, 3.0, 3))
    pool = list(DBS[db])
    custom = []
    custom_mode = None
    if db == "phreeqc.dat" and kind == "gp" and draw(st.integers(0, 4)) == 0:
        custom_mode = draw(st.sampled_from(["ideal", "pr"]))
        tpl = draw(st.lists(st.sampled_from(range(len(CUSTOM))), min_size=1, max_size=3, unique=True))
        for k, ti in enumerate(tpl):
            rx, els, lk, (tc0, pc0, om0) = CUSTOM[ti]
            g = {"name": CUSTOM_NAMES[k], "tpl": ti}
            if custom_mode == "pr":
                g["tc"] = float("%.5g" % (tc0 * draw(cg.uni(0.85, 1.2, 4))))
                g["pc"] = float("%.5g" % (pc0 * draw(cg.uni(0.8, 1.25, 4))))
                g["omega"] = float("%.4g" % (om0 + draw(cg.uni(-0.05, 0.1, 3))))
                g["dash"] = draw(st.booleans())
            custom.append(g)
    parts = {"kind": kind, "db": db, "sol": sol, "custom": custom}
    if kind == "equi":
        pool = [g for g in pool if g != "H2O(g)"]
        names = draw(st.lists(st.sampled_from(pool), min_size=1, max_size=3, unique=True))
        parts["equi"] = [[n, float("%.4g" % math.log10(draw(st.one_of(pressure(-2, 2), pressure(1, 2))))), draw(cg.logu(1e-4, 10.0, 3))]
                         for n in names]
        parts["minerals"] = draw(st.sampled_from([[], [], ["Calcite"]]))
        # the same gas-bearing assemblage at a sequence of temperatures on one instance: REACTION_TEMPERATURE steps with distinct
        # values, and / or further solutions of other temperatures reacted with it in consecutive simulations
        parts["rtemp"] = None
        if draw(st.booleans()):
            parts["rtemp"] = draw(st.lists(temperature(), min_size=2, max_size=3, unique=True))
        parts["sols"], parts["uses"] = [sol], []
        if draw(st.booleans()):
            for num in range(2, 2 + draw(st.integers(1, 2))):
                s2 = draw(cg.simple_solution(num, elements=SOL_ELEMENTS, max_el=3, temp=False, charge=False))
                s2["temp"] = draw(temperature())
                parts["sols"].append(s2)
            parts["uses"] = draw(st.lists(st.integers(1, len(parts["sols"])), min_size=1, max_size=3))
        return finish(parts)
    # ---- gas phase
    if custom_mode == "ideal":
        names = [g["name"] for g in custom]
    else:
        taken = {CUSTOM[g["tpl"]][0] for g in custom}
        same = {"CO2 = CO2": "CO2(g)", "Mtg = Mtg": "Mtg(g)", "Ntg = Ntg": "Ntg(g)", "Oxg = Oxg": "Oxg(g)", "Hdg = Hdg": "Hdg(g)"}
        pool = [g for g in pool if g not in {same[t] for t in taken}]
        family = draw(st.sampled_from(["any", "inert", "inert", "redox", "condensable", "wet_dense"]))
        if family == "inert":
            pool2 = [g for g in pool if g in ("CO2(g)", "H2O(g)", "Mtg(g)", "Ntg(g)", "Oxg(g)", "Hdg(g)", "H2Sg(g)")]
        elif family == "redox":
            pool2 = [g for g in pool if g in ("CO2(g)", "CH4(g)", "N2(g)", "O2(g)", "H2(g)", "H2S(g)", "NH3(g)", "H2O(g)")]
        elif family == "condensable":
            # gases far below their critical temperature: the cubic has three real roots at gas-like states
            pool2 = [g for g in pool if g in ("H2O(g)", "NH3(g)", "H2S(g)", "H2Sg(g)", "CO2(g)")]
        elif family == "wet_dense":
            # water vapour / ammonia as a minor component of a dense gas: fugacity coefficients far from one
            pool2 = [g for g in pool if g in ("CO2(g)", "CH4(g)", "Mtg(g)", "N2(g)", "Ntg(g)", "H2S(g)", "H2Sg(g)")]
            if draw(st.integers(0, 2)):
                pool2 = [g for g in pool2 if g in ("CO2(g)", "H2S(g)", "H2Sg(g)")]        # carriers in which phi of water drops to ~0.01
        else:
            pool2 = pool
        pool2 = pool2 or pool
        names = draw(st.lists(st.sampled_from(pool2), min_size=0 if custom else 1, max_size=5 - len(custom), unique=True))
        if family == "wet_dense":
            names = names[:2] + [g for g in ("H2O(g)", "NH3(g)") if g in pool and draw(st.booleans())]
            if not any(g in names for g in ("H2O(g)", "NH3(g)")):
                names.append("H2O(g)")
        names = [g["name"] for g in custom] + names
    typ = draw(st.sampled_from(["P", "V"]))
    gp = {"type": typ}
    gp["temp"] = tc if draw(st.integers(0, 3)) else draw(temperature())
    ptot = draw(st.one_of(pressure(-2, 2), pressure(-2, 2), st.sampled_from([1.0, 10.0, 100.0])))
    if custom_mode != "ideal" and family == "wet_dense":
        ptot = float("%.4g" % (30.0 * 10.0 ** (draw(st.integers(0, 1300)) / 1000.0)))      # 30 .. 600 atm
        if draw(st.integers(0, 2)):
            sol["temp"] = gp["temp"] = tc = float(draw(st.integers(0, 600))) / 10.0          # cold and dense: phi of water ~ 0.01 .. 0.1
    # reaction temperatures: none, one, or a sequence (one batch-reaction step each; the engine keeps EOS data between steps)
    rtemp = None
    if draw(st.integers(0, 4)) == 0:
        rtemp = [draw(temperature()) for _ in range(draw(st.sampled_from([1, 1, 2, 3])))]
    if typ == "P":
        tmax = max([tc] + (rtemp or []))
        if "H2O(g)" in names and ptot < 1.5 * psat_water(tmax):
            # a fixed-pressure water-vapour phase below the boiling pressure would boil the solution away
            names = [n for n in names if n != "H2O(g)"] or ["CO2(g)"]
        gp["pressure"] = ptot
    # volume: at most ~20 mol of gas (ideal estimate), so that the aqueous phase can take it
    vmax = min(20.0, 20.0 * 0.0820597 * (gp["temp"] + 273.15) / ptot)
    gp["volume"] = draw(cg.logu(min(0.01, vmax / 10), vmax, 3))
    if typ == "P":
        gp["volume"] = max(min(gp["volume"], 5.0), min(0.05, vmax))
    gp["equilibrate"] = typ == "V" and draw(st.integers(0, 4)) == 0
    # initial composition: integer weights (some zero); the partial pressures are shares of the target total pressure
    w = [0 if draw(st.integers(0, 7)) == 0 else draw(st.integers(1, 20)) for _ in names]
    fill = 1.0
    degas = typ == "P" and "CO2(g)" in names and draw(st.integers(0, 5)) == 0
    if degas:
        # an empty fixed-pressure phase over an acid carbonate solution: the phase forms only if the CO2 pressure reaches P
        w = [0] * len(names)
        sol["pH"] = draw(cg.uni(4.0, 6.5, 3))
        sol["comps"] = [c for c in sol["comps"] if c[0] != "C(4)"] + [["C(4)", draw(cg.logu(3e-4, 0.05, 3)), ""]]
        gp["pressure"] = ptot = draw(pressure(-2, -1))
    elif not any(w):
        w[0] = 1
    if typ == "P" and not degas and draw(st.integers(0, 3)) == 0:
        fill = draw(cg.logu(0.003, 1.0, 3))          # less gas than the phase "wants": the phase may dissolve completely
    comps = []
    for n, wi in zip(names, w):
        p0 = float("%.4g" % (ptot * fill * wi / max(sum(w), 1)))
        if n == "H2O(g)":
            p0 = min(p0, float("%.4g" % (0.9 * psat_water(gp["temp"]))))
        comps.append([n, p0])
    gp["comps"] = comps
    parts["gp"] = gp
    if gp["equilibrate"]:
        # the gas comes out of the solution: give the solution the gas-forming elements
        have = {c[0] for c in sol["comps"]}
        for n in names:
            e = EXTRA_SOL.get(n)
            if e and e not in have and draw(st.integers(0, 3)):
                sol["comps"].append([e, draw(cg.logu(2e-5, 2e-2, 3)), ""])
                have.add(e)
        if "CO2(g)" in names and "C(4)" not in have and draw(st.integers(0, 2)):
            sol["comps"].append(["C(4)", draw(cg.logu(1e-3, 0.5, 3)), ""])
    # user binary interaction parameters between distinct components
    kij = []
    if len(names) >= 2 and draw(st.integers(0, 3)) == 0:
        for _ in range(draw(st.integers(1, 2))):
            i = draw(st.integers(0, len(names) - 2))
            j = draw(st.integers(i + 1, len(names) - 1))
            kij.append([names[i], names[j], draw(cg.uni(-0.3, 0.6, 3))])
    parts["kij"] = kij
    parts["minerals"] = draw(st.sampled_from([[], [], [], ["Calcite"], ["Calcite", "Dolomite"]]))
    rx = None
    if draw(st.integers(0, 3)) == 0:
        rx = {"what": draw(st.sampled_from(["HCl", "NaOH", "NaCl", "NaHCO3"])), "moles": draw(cg.logu(1e-4, 0.05, 3)),
              "steps": draw(st.integers(1, 3))}
    parts["reaction"] = rx
    parts["rtemp"] = rtemp
    return finish(parts)


def gas_names(parts):
    if parts["kind"] == "equi":
        return [e[0] for e in parts["equi"]]
    if parts["kind"] == "multi":
        out = []
        for gp in parts["phases"]:
            out += [c[0] for c in gp["comps"] if c[0] not in out]
        return out
    return [c[0] for c in parts["gp"]["comps"]]


def gas_elements(parts, name):
    for g in parts["custom"]:
        if g["name"] == name:
            return CUSTOM[g["tpl"]][1]
    return GAS_ELEMENTS[name]


def tracked_elements(parts):
    els = []
    for n in gas_names(parts):
        for e in gas_elements(parts, n):
            if e not in els:
                els.append(e)
    return els


def render_gas_phase(gp, number=1, eq_solution=1):
    L = ["GAS_PHASE %d" % number]
    L.append(" -fixed_pressure" if gp["type"] == "P" else " -fixed_volume")
    if gp["type"] == "P":
        L.append(" -pressure %s" % cg.fmt(gp["pressure"]))
    L.append(" -volume %s" % cg.fmt(gp["volume"]))
    L.append(" -temperature %s" % cg.fmt(gp["temp"]))
    if gp["equilibrate"]:
        L.append(" -equilibrate %d" % eq_solution)
    for n, p0 in gp["comps"]:
        L.append(" %s %s" % (n, "" if gp["equilibrate"] else cg.fmt(p0)))
    return L


def finish(parts):
    """render the input text; the case keeps the structure (for the oracle) and the text (what is run)"""
    # DESIGN section 4 rule 2: the solver's own tolerance is set far below the property's; only the registered
    # known-finding replay runs with the default KNOBS
    L = [] if parts.get("knobs") == "default" else ["KNOBS", " -convergence_tolerance 1e-12", " -iterations 400"]
    if parts["custom"]:
        L.append("PHASES")
        for g in parts["custom"]:
            rx, els, lk, _ = CUSTOM[g["tpl"]]
            L += [g["name"], " " + rx, " " + lk]
            if "tc" in g:
                d = "-" if g["dash"] else ""
                L.append(" %sT_c %s; -P_c %s; -Omega %s" % (d, cg.fmt(g["tc"]), cg.fmt(g["pc"]), cg.fmt(g["omega"])))
    if parts.get("kij"):
        L.append("GAS_BINARY_PARAMETERS")
        for a, b, k in parts["kij"]:
            L.append(" %s %s %s" % (a, b, cg.fmt(k)))
    if parts["kind"] == "multi" or (parts["kind"] == "equi" and parts.get("sols")):
        for sol in parts["sols"]:
            L.append(cg.render_solution(sol))
    else:
        L.append(cg.render_solution(parts["sol"]))
    names = gas_names(parts)
    if parts["kind"] == "multi":
        for k in parts["order"]:
            gp = parts["phases"][k]
            L += render_gas_phase(gp, gp["number"], gp["use"])
    elif parts["kind"] == "equi":
        L.append("EQUILIBRIUM_PHASES 1")
        for n, si, m in parts["equi"]:
            L.append(" %s %s %s" % (n, cg.fmt(si), cg.fmt(m)))
        for m in parts["minerals"]:
            L.append(" %s 0 0.05" % m)
        if parts.get("rtemp"):
            L.append("REACTION_TEMPERATURE 1\n %s" % " ".join(cg.fmt(t) for t in parts["rtemp"]))
    else:
        gp = parts["gp"]
        L += render_gas_phase(gp)
        if parts["minerals"]:
            L.append("EQUILIBRIUM_PHASES 1")
            for m in parts["minerals"]:
                L.append(" %s 0 0.05" % m)
        if parts["reaction"]:
            r = parts["reaction"]
            L.append("REACTION 1\n %s 1\n %s moles in %d steps" % (r["what"], cg.fmt(r["moles"]), r["steps"]))
        if parts["rtemp"]:
            L.append("REACTION_TEMPERATURE 1\n %s" % " ".join(cg.fmt(t) for t in parts["rtemp"]))
    L.append("SELECTED_OUTPUT 1\n -reset false\n -state true\n -gases " + " ".join(names))
    heads = ["gas_p", "gas_vm", "tk", "patm"]
    items = ["GAS_P", "GAS_VM", "TK", "PRESSURE"]
    for i, n in enumerate(names):
        heads += ["n%d" % i, "p%d" % i, "f%d" % i, "s%d" % i, "e%d" % i]
        items += ['GAS("%s")' % n, 'PR_P("%s")' % n, 'PR_PHI("%s")' % n, 'SI("%s")' % n, 'EQUI("%s")' % n]
    for e in tracked_elements(parts):
        heads.append("sys_" + e)
        items.append('SYS("%s")' % e)
    L.append("USER_PUNCH 1\n -headings " + " ".join(heads) + "\n -start\n 10 PUNCH " + ", ".join(items) + "\n -end")
    L.append("END")
    if parts["kind"] == "multi":
        for k in parts["order"]:
            gp = parts["phases"][k]
            L.append("USE solution %d\nUSE gas_phase %d\nEND" % (gp["use"], gp["number"]))
    if parts["kind"] == "equi":
        for u in parts.get("uses") or []:
            L.append("USE solution %d\nUSE equilibrium_phases 1\nEND" % u)
    parts["input"] = "\n".join(L) + "\n"
    return parts


# ------------------------------------------------------------------------------- oracle
def rel(a, b):
    return abs(a - b) / max(abs(a), abs(b), 1e-300)


def stat(ctx, name, value):
    """development statistics (largest deviation seen per relation); only dev_scan's context collects them"""
    st_ = getattr(ctx, "stats", None)
    if st_ is not None and value == value:
        if value > st_.get(name, (-1.0, None))[0]:
            st_[name] = (value, getattr(ctx, "current", None))


def model_for(case):
    """critical constants and k_ij from the text of the database, then of the input (later definitions win)"""
    g, k = eos.parse_database(dbtext(case["db"]))
    g2, k2 = eos.parse_database(case["input"])
    g = dict(g)
    g.update(g2)
    k = dict(k)
    k.update(k2)
    return g, k


OUTSIDE = ("single", "vapor")       # eos.Mixture.region values that are outside the two-phase region for certain


def gas_root_at(M, P):
    """(molar volume, region) of the gas-like (largest) root of the cubic at pressure P"""
    z = M.real_roots_Z(P)
    if not z:
        return None, "loop"
    V = z[-1] * M.RT / P
    return V, M.region(V)


def in_domain_P(P):
    return 0.01 <= P <= 1000.0


def check_case(case, ctx):
    names = gas_names(case)
    gases_db, kij = model_for(case)
    for n in names:
        if n not in gases_db:
            raise Violation("harness", "gas %s not found in the database text" % n)
    crit = [gases_db[n].has_crit for n in names]
    if case["kind"] != "multi" and any(crit) and not all(crit):
        raise Discard("mixed_ideal_pr")          # excluded by construction (engine error by documentation)
    pr = all(crit)
    I = lib.fresh(case["db"])
    try:
        rc = I.run_string(case["input"])
        if rc != 0 or I.errors().strip():
            raise Discard("run_error")
        T = I.table()
        if T.rows < 2:
            raise Violation("rows", "no selected-output rows")
        rows = T.dicts()
    finally:
        I.close()
    isoln = [r for r in rows if r["state"] == "i_soln"]
    react = [r for r in rows if r["state"] == "react"]
    if case["kind"] == "multi":
        return check_multi(case, isoln, react, names, gases_db, kij, ctx)
    if case["kind"] == "equi":
        return check_equi_rows(case, isoln, react, names, gases_db, kij, pr, ctx)
    if len(isoln) != 1 or not react:
        raise Violation("rows", "expected one i_soln row and >=1 react rows, got states %r" % [r["state"] for r in rows])
    classes = ["db=" + case["db"], "eos=" + ("PR" if pr else "ideal"), "kind=" + case["kind"], "ngas=%d" % len(names)]
    if case["custom"]:
        classes.append("custom_gases_" + ("pr" if pr else "ideal"))
    rt = case.get("rtemp")
    if isinstance(rt, (int, float)):
        rt = [rt]
    tc = rt[-1] if rt else case["sol"]["temp"]
    if len(rt or []) > 1:
        classes.append("temperature_sequence")
    classes.append("T=%s" % ("0-25" if tc <= 25 else "25-60" if tc <= 60 else "60-100" if tc <= 100 else "100-150" if tc <= 150 else "150-200"))
    info = {"nt": False, "classes": classes}
    G = [gases_db[n] for n in names]
    if case["kind"] == "equi":
        for r in react:
            check_equi(case, r, names, G, kij, pr, info, ctx)
    else:
        for k, r in enumerate(react):
            check_gas_row(case, r, isoln[0], names, G, kij, pr, info, ctx, k)
    return {"nontrivial": info["nt"], "classes": sorted(set(info["classes"]))}


def check_multi(case, isoln, react, names, gases_db, kij, ctx):
    """every gas phase defined in the common simulation is judged by the clauses of a single phase, with its own data"""
    # the defining simulation itself reacts the first solution with the first gas phase it defines (implicit use, nothing is
    # saved); that row is not judged, the rows of the explicit USE simulations are
    if len(isoln) != 2 or len(react) != len(case["phases"]) + 1:
        raise Violation("rows", "expected 2 i_soln rows and %d react rows, got %d / %d" % (len(case["phases"]) + 1, len(isoln), len(react)))
    react = react[1:]
    info = {"nt": False, "classes": ["db=" + case["db"], "kind=multi", "nphases=%d" % len(case["phases"])]}
    kinds = set()
    for r, k in zip(react, case["order"]):
        gp = case["phases"][k]
        sub = [c[0] for c in gp["comps"]]
        crit = [gases_db[n].has_crit for n in sub]
        if any(crit) and not all(crit):
            raise Discard("mixed_ideal_pr")
        kinds.add("PR" if all(crit) else "ideal")
        r2 = {key: v for key, v in r.items() if not (len(key) > 1 and key[0] in "npfse" and key[1:].isdigit())}
        for j, n in enumerate(sub):
            i = names.index(n)
            for c in "npfse":
                r2["%s%d" % (c, j)] = r["%s%d" % (c, i)]
        pcase = dict(case, gp=gp, sol=case["sols"][gp["use"] - 1])
        check_gas_row(pcase, r2, isoln[gp["use"] - 1], sub, [gases_db[n] for n in sub], kij, all(crit), info, ctx, 0)
    info["classes"].append("multi_eos=" + "+".join(sorted(kinds)))
    return {"nontrivial": info["nt"], "classes": sorted(set(info["classes"]))}


def need_finite(r, skip=()):
    # every comparison is written "difference > tolerance => violation"; a NaN/inf would pass all of them silently,
    # so the values the relations use must be finite numbers
    for k, v in r.items():
        if isinstance(v, float) and (math.isnan(v) or math.isinf(v)) and k not in skip:
            raise Violation("finite", "non-finite value %r in column %s of a row whose gas relations are asserted" % (v, k))


def check_equi_rows(case, isoln, react, names, gases_db, kij, pr, ctx):
    """rows of an EQUILIBRIUM_PHASES-gas case: the defining simulation (solution 1, one row per REACTION_TEMPERATURE value or one
    row at the solution's temperature), then one row per 'USE solution k / USE equilibrium_phases 1' simulation at solution k's
    temperature (the reaction temperatures are not used there)"""
    sols = case.get("sols") or [case["sol"]]
    rt = case.get("rtemp")
    if isinstance(rt, (int, float)):
        rt = [rt]
    want = list(rt) if rt else [sols[0]["temp"]]
    want += [sols[u - 1]["temp"] for u in case.get("uses") or []]
    if len(isoln) != len(sols) or len(react) != len(want):
        raise Violation("rows", "expected %d i_soln and %d react rows, got %d / %d" % (len(sols), len(want), len(isoln), len(react)))
    classes = ["db=" + case["db"], "eos=" + ("PR" if pr else "ideal"), "kind=equi", "ngas=%d" % len(names),
               "equi_temperatures=%d" % min(len(set(want)), 4)]
    if rt and len(rt) > 1:
        classes.append("temperature_sequence")
    if case.get("uses"):
        classes.append("equi_consecutive_solutions")
    info = {"nt": False, "classes": classes}
    G = [gases_db[n] for n in names]
    for r, tc in zip(react, want):
        check_equi(case, r, names, G, kij, pr, info, ctx, tc)
    return {"nontrivial": info["nt"], "classes": sorted(set(info["classes"]))}


def check_equi(case, r, names, G, kij, pr, info, ctx, tc=None):
    """gases as EQUILIBRIUM_PHASES: each is a pure gas at P = 10^target (documented: "the target saturation index for a gas
    is log10(P)", SI is based on the fugacity) => PR_P = P, PR_PHI = phi_EOS(P, T), SI = log10(phi P) while the gas is present"""
    need_finite(r)
    Tk = r["tk"]
    tc = case["sol"]["temp"] if tc is None else tc
    if rel(Tk, tc + 273.15) > 1e-12:
        raise Violation("temperature", "TK %r but the temperature of this calculation is %r C" % (Tk, tc))
    info["classes"].append("T=%s" % ("0-25" if tc <= 25 else "25-60" if tc <= 60 else "60-100" if tc <= 100 else "100-150" if tc <= 150 else "150-200"))
    present = 0
    for i, n in enumerate(names):
        target = case["equi"][i][1]
        P = 10.0 ** target
        si, phi, pp, left = r["s%d" % i], r["f%d" % i], r["p%d" % i], r["e%d" % i]
        if si <= -99:
            continue
        lnphi = 0.0
        if pr:
            if rel(pp, P) > 1e-9:
                raise Violation("equi_pressure", "%s: PR_P %r but the target log10 P is %r (P=%r)" % (n, pp, target, P))
            M = eos.Mixture([G[i]], [1.0], Tk, kij)
            V, reg = gas_root_at(M, P)
            info["classes"].append("equi_region=" + reg)
            if reg not in OUTSIDE:
                ctx.event("two_phase_skipped")
                continue
            lnphi = M.ln_phi(P, V)[0]
            if not (0.0099 <= phi <= 85.5):
                raise Violation("phi_clamp", "%s: PR_PHI %r outside the documented 0.01..85 clamp" % (n, phi))
            if not (LNPHI_LO + 2e-2 < lnphi < LNPHI_HI - 2e-2):
                ctx.event("phi_outside_clamp")
                continue
            stat(ctx, "equi_phi", rel(phi, math.exp(lnphi)) / TOL_PHI)
            if rel(phi, math.exp(lnphi)) > TOL_PHI:
                raise Violation("equi_phi", "%s at P=%r atm T=%r K: PR_PHI %r, Peng-Robinson gives %r (rel %.3g)" % (
                    n, P, Tk, phi, math.exp(lnphi), rel(phi, math.exp(lnphi))))
            if abs(lnphi) > 1e-3:
                info["nt"] = True
        elif phi != 1.0:
            raise Violation("ideal_phi", "gas %s without critical constants has PR_PHI %r" % (n, phi))
        want = target + lnphi / math.log(10.0)
        if left > 0:
            present += 1
            stat(ctx, "equi_fug", abs(si - want) / (TOL_FUG / math.log(10.0)))
            if abs(si - want) > TOL_FUG / math.log(10.0):
                raise Violation("equi_fugacity", "%s present (%r mol): SI %r but log10(phi P) = %r" % (n, left, si, want))
        else:
            if si > want + TOL_FUG / math.log(10.0):
                raise Violation("equi_fugacity", "%s exhausted but SI %r exceeds log10(phi P) = %r" % (n, si, want))
            info["classes"].append("equi_exhausted")
    if present >= 2:
        info["nt"] = True
    if present:
        info["classes"].append("equi_present")


def element_total(case, names, moles):
    tot = {}
    for n, m in zip(names, moles):
        for e, c in gas_elements(case, n).items():
            tot[e] = tot.get(e, 0.0) + c * m
    return tot


def check_gas_row(case, r, r0, names, G, kij, pr, info, ctx, step=0):
    gp = case["gp"]
    N = len(names)
    n = [r["n%d" % i] for i in range(N)]
    ntot = math.fsum(x for x in n if x == x)
    P, Vm = r["gas_p"], r["gas_vm"]
    fixedP = gp["type"] == "P"
    # a fixed-pressure phase "exists" when it holds gas (the engine reports P = 0 and no moles otherwise); a fixed-volume
    # phase holds gas whenever its components are in the system
    exists = ntot >= 1e-12 and P > 0
    if exists:
        need_finite(r)
    else:
        # a phase without gas: GAS_VM is V / 0 mol and the -gases pressure/volume columns can be 0/0; the only relation
        # asserted for such a row (existence criterion of a fixed-pressure phase) uses TK, SI and PR_PHI of the components
        used = {"tk"} | {"%s%d" % (c, i) for c in "sf" for i in range(N)}
        need_finite({k: v for k, v in r.items() if k in used})
        ctx.event("gas_absent_readouts_not_asserted")
    Tk = r["tk"]
    rt = case["rtemp"]
    if isinstance(rt, (int, float)):
        rt = [rt]                       # replays saved before temperature sequences were generated
    want_t = (rt[min(step, len(rt) - 1)] if rt else case["sol"]["temp"]) + 273.15
    if rel(Tk, want_t) > 1e-12:
        raise Violation("temperature", "TK %r, input says %r" % (Tk, want_t))
    if any(x < 0 for x in n):
        raise Violation("moles", "negative gas moles %r" % n)
    si = [r["s%d" % i] for i in range(N)]
    phi = [r["f%d" % i] for i in range(N)]
    info["classes"].append("type=" + gp["type"])
    info["classes"].append("equilibrate" if gp["equilibrate"] else "initial_p")
    # ---------------------------------------------------------------- initial moles through the EOS (element totals)
    if not gp["equilibrate"]:
        check_initial(case, r, r0, names, G, kij, pr, info, ctx)
    if not exists:
        info["classes"].append("gas_absent")
        if fixedP:
            # a fixed-pressure phase that does not exist: the equilibrium partial pressures do not reach P
            s = 0.0
            for i in range(N):
                if si[i] > -99:
                    if not (0.0099 <= phi[i] <= 85.5):
                        raise Violation("phi_clamp", "%s: PR_PHI %r outside 0.01..85" % (names[i], phi[i]))
                    s += 10.0 ** si[i] / (phi[i] if pr else 1.0)
            stat(ctx, "absent_sum", (s / gp["pressure"] - 1.0) / TOL_EXIST)
            if s > gp["pressure"] * (1 + TOL_EXIST) + ABS_EXIST:
                raise Violation("existence", "no gas phase, but sum of equilibrium partial pressures %r > fixed P %r" % (s, gp["pressure"]))
            info["classes"].append("absent_checked")
        return
    # ---------------------------------------------------------------- volume / pressure bookkeeping (reported quantities)
    if fixedP:
        if rel(P, gp["pressure"]) > 1e-12:
            raise Violation("fixed_pressure", "GAS_P %r differs from the fixed pressure %r" % (P, gp["pressure"]))
        V = r["volume"]
    else:
        V = gp["volume"]
        if rel(r["volume"], V) > 1e-12:
            raise Violation("fixed_volume", "-gases volume %r, fixed volume %r" % (r["volume"], V))
    stat(ctx, "cols_P", rel(r["pressure"], P))
    stat(ctx, "cols_n", rel(r["total mol"], ntot))
    if rel(r["pressure"], P) > 1e-9 or rel(r["total mol"], ntot) > 1e-9:
        raise Violation("gases_columns", "-gases pressure/total mol %r/%r vs GAS_P %r, sum GAS %r" % (r["pressure"], r["total mol"], P, ntot))
    if not in_domain_P(P):
        # the property quantifies over 0.01..1000 atm
        ctx.event("P_outside_0.01_1000_skipped")
        info["classes"].append("P_out_of_domain")
        return
    info["classes"].append("P_decade=%d" % int(math.floor(math.log10(P))))
    reg = None
    slack = MOLE_SLACK_KGW * max(1.0, case["sol"].get("water", 1.0))
    x = [v / ntot for v in n]
    live = [i for i in range(N) if n[i] > MOLE_FLOOR]
    Vn = V / ntot                       # molar volume from the reported volume and moles
    # ---------------------------------------------------------------- (1) partial pressures
    if pr:
        pp = [r["p%d" % i] for i in range(N)]
        for i in live:
            stat(ctx, "partial", abs(pp[i] - x[i] * P) / (TOL_PSUM * P + slack / ntot * P))
            if abs(pp[i] - x[i] * P) > TOL_PSUM * P + slack / ntot * P:
                raise Violation("partial_pressure", "%s: PR_P %r but x*P = %r (P=%r)" % (names[i], pp[i], x[i] * P, P))
        stat(ctx, "partial_sum", abs(math.fsum(pp[i] for i in live) - P) / P)
        if abs(math.fsum(pp[i] for i in live) - P) > TOL_PSUM_EXACT * P * len(live):
            raise Violation("partial_pressure_sum", "sum of PR_P %r != P %r" % (math.fsum(pp[i] for i in live), P))
    # ---------------------------------------------------------------- equilibrium partial pressures (fugacity = 10^SI)
    peq = {}
    for i in live:
        if si[i] <= -99:
            if x[i] > 1e-12:
                raise Violation("fugacity", "%s has %r mol in the gas but no saturation index" % (names[i], n[i]))
            continue
        if pr and not (0.0099 <= phi[i] <= 85.5):
            raise Violation("phi_clamp", "%s: PR_PHI %r outside the documented 0.01..85 clamp" % (names[i], phi[i]))
        peq[i] = 10.0 ** si[i] / phi[i]             # partial pressure whose fugacity phi_i p_i equals 10^SI_i
    ssum = math.fsum(peq.values())
    if not ssum > 0:
        raise Violation("fugacity", "gas phase with %r mol but no component has a saturation index" % ntot)
    # ---------------------------------------------------------------- (2,3) equation of state and fugacity coefficients
    stale = False
    if not pr:
        stat(ctx, "ideal", rel(P * V, ntot * eos.R_LATM * Tk) / (TOL_EOS + slack / ntot))
        if rel(P * V, ntot * eos.R_LATM * Tk) > TOL_EOS + slack / ntot:
            raise Violation("ideal_gas", "P V = %r but n R T = %r (P=%r V=%r n=%r T=%r)" % (P * V, ntot * eos.R_LATM * Tk, P, V, ntot, Tk))
        stat(ctx, "ideal_vm", rel(Vm, Vn))
        if rel(Vm, Vn) > TOL_EOS:
            raise Violation("molar_volume", "GAS_VM %r but volume / moles = %r" % (Vm, Vn))
        for i in live:
            if phi[i] != 1.0:
                raise Violation("ideal_phi", "ideal gas %s has PR_PHI %r" % (names[i], phi[i]))
        info["classes"].append("ideal_checked")
    else:
        M = eos.Mixture([G[i] for i in live], [n[i] for i in live], Tk, kij)
        reg = M.region(Vn)
        src = set()
        for i in live:
            for j in live:
                if i < j:
                    if (names[i], names[j]) in kij:
                        src.add("kij=user" if any({a, b_} == {names[i], names[j]} for a, b_, _ in case.get("kij") or []) else "kij=database")
                    elif eos.kij_lookup(names[i], names[j], {}) != 0.0:
                        src.add("kij=documented_builtin")
        info["classes"] += sorted(src)
        if not math.fsum(pp[i] for i in live) > 0:
            raise Violation("partial_pressure_sum", "gas phase with %r mol but all PR_P are zero" % ntot)
        info["classes"].append("region=" + reg)
        if reg not in OUTSIDE:
            ctx.event("two_phase_skipped")
        else:
            allowed = TOL_EOS + slack / ntot
            allowed_sum = TOL_EXIST * P if fixedP else TOL_FUG * P + slack / ntot * P
            Pc = M.pressure(Vn)
            stat(ctx, "pr_P", rel(Pc, P) / allowed)
            if rel(Pc, P) > allowed or (not fixedP and abs(ssum - P) > allowed_sum):
                # Known finding (replays/C19/known/stale-total-pressure*.json): the total pressure a fixed-volume phase
                # reports is the EOS pressure at a *relaxed* molar volume (model.cpp calc_gas_pressures: V_m <- (V_m_old +
                # V/n) / 2 each iteration) and can trail the reported moles.  Recognised by its signature - moles, volume,
                # temperature, SI and phi are consistent with the EOS among themselves (sum of 10^SI/phi = P_EOS(V/n)), only
                # the reported total differs - counted, and the clauses that use the reported total are skipped for this row.
                if fixedP or case.get("assert_reported_pressure") or rel(ssum, Pc) > allowed:
                    raise Violation("peng_robinson", "reported P=%r V=%r n=%r (V/n=%r) T=%r x=%r: the Peng-Robinson pressure of this state is %r (rel %.3g, region %s); sum of 10^SI/phi = %r" % (
                        P, V, ntot, Vn, Tk, [x[i] for i in live], Pc, rel(Pc, P), reg, ssum))
                stale = True
                ctx.event("known_stale_total_pressure_rows")
                info["classes"].append("stale_total_pressure")
            stat(ctx, "pr_vm", rel(Vm, Vn))
            if rel(Vm, Vn) > TOL_EOS:
                raise Violation("molar_volume", "GAS_VM %r but volume / moles = %r" % (Vm, Vn))
            # PR_PHI belongs to the composition of the engine's last evaluation of the EOS, which it reports as
            # PR_P(i) = x_i P; that composition and the moles of the final Newton step differ by the size of that step.
            # The 1e-6 comparison is therefore made at x_i = PR_P(i) / P and the root of the cubic at the reported P
            # next to the reported V/n (P-V-n consistency itself is the 1e-4 assertion above).
            M2 = eos.Mixture([G[i] for i in live], [pp[i] for i in live], Tk, kij)
            z2 = M2.real_roots_Z(P)
            if not z2:
                raise Violation("peng_robinson", "no admissible root of the cubic at the reported P=%r" % P)
            V2 = min((zz * M2.RT / P for zz in z2), key=lambda v: abs(v - Vn))
            if not stale:
                stat(ctx, "pr_v2", rel(V2, Vn) / allowed)
                if rel(V2, Vn) > allowed:
                    raise Violation("peng_robinson", "the cubic at the reported P=%r has its nearest root at %r L/mol, reported V/n = %r" % (P, V2, Vn))
            lp = M2.ln_phi(P, V2)
            for k, i in enumerate(live):
                if not (LNPHI_LO + 2e-2 < lp[k] < LNPHI_HI - 2e-2):
                    ctx.event("phi_outside_clamp")
                    info["classes"].append("phi_clamped")
                    continue
                stat(ctx, "pr_phi", rel(phi[i], math.exp(lp[k])) / TOL_PHI)
                if rel(phi[i], math.exp(lp[k])) > TOL_PHI:
                    raise Violation("phi", "%s in %r x=%r at P=%r V/n=%r T=%r: PR_PHI %r, Peng-Robinson mixture expression gives %r (rel %.3g)" % (
                        names[i], [names[j] for j in live], M2.x, P, V2, Tk, phi[i], math.exp(lp[k]), rel(phi[i], math.exp(lp[k]))))
                if abs(lp[k]) > 1e-3:
                    info["nt"] = True
                    info["classes"].append("pr_nonideal")
                if lp[k] < -2.3:
                    info["classes"].append("phi<0.1")
            info["classes"].append("pr_checked")
    # ---------------------------------------------------------------- (4) fugacity = 10^SI, (5) fixed-pressure sum
    if pr and reg == "loop" and not case.get("assert_inside_spinodal"):
        # Peng-Robinson pressure of the reported (V/n, T, x) is <= 0: deep inside the two-phase region, where the engine
        # substitutes another molar volume (gases.cpp calc_PR: "while (P <= 0) V_m *= 2"); the equilibrium partial
        # pressures then sum to a multiple of the reported total (replays/C19/known/inside-spinodal-vm-doubled.json)
        ctx.event("inside_spinodal_fugacity_skipped")
        info["classes"].append("inside_spinodal")
        return
    # phi_i x_i P = 10^SI_i for every i  <=>  (a) the shares x_i equal the shares of 10^SI_i / phi_i  and  (b) their sum is P.
    # (a) involves only quantities of one solver iterate; (b) compares them with the total pressure (see MOLE_SLACK_KGW)
    for i in peq:
        stat(ctx, "fug_share", abs(peq[i] / ssum - x[i]) / TOL_FUG)
        if abs(peq[i] / ssum - x[i]) > TOL_FUG:
            raise Violation("fugacity", "%s: mole fraction %r, but its share of the equilibrium partial pressures 10^SI/phi is %r (SI=%r phi=%r)" % (
                names[i], x[i], peq[i] / ssum, si[i], phi[i]))
    if pr and not fixedP and reg not in OUTSIDE and not case.get("assert_inside_spinodal"):
        # the sum is compared with the reported total pressure, which for a fixed-volume PR phase may be stale (see above);
        # where the EOS itself is not asserted the signature of that finding cannot be established
        ctx.event("two_phase_sum_skipped")
    elif not stale:
        allowed = TOL_EXIST * P if fixedP else TOL_FUG * P + slack / ntot * P      # a fixed pressure is an input, not an iterate
        stat(ctx, "fug_sum_P" if fixedP else "fug_sum_V", abs(ssum - P) / allowed)
        if abs(ssum - P) > allowed:
            raise Violation("existence" if fixedP else "fugacity", "sum over components of 10^SI/phi = %r but the total pressure is %r (moles %r, SI %r, phi %r)" % (
                ssum, P, n, si, phi))
    if len(live) >= 2:
        info["nt"] = True
        info["classes"].append("multi_gas")


def check_initial(case, r, r0, names, G, kij, pr, info, ctx):
    """moles put into the system by the initial partial pressures = EOS at (sum p, T_gas, x = p/sum p) * volume"""
    gp = case["gp"]
    p0 = [c[1] for c in gp["comps"]]
    Ptot = math.fsum(p0)
    if Ptot <= 0 or not in_domain_P(Ptot):
        return
    Tg = gp["temp"] + 273.15
    if not pr:
        n0 = [p * gp["volume"] / (eos.R_LATM * Tg) for p in p0]
    else:
        idx = [i for i in range(len(names)) if p0[i] > 0]
        M = eos.Mixture([G[i] for i in idx], [p0[i] for i in idx], Tg, kij)
        V, reg = gas_root_at(M, Ptot)
        if reg not in OUTSIDE:
            ctx.event("initial_two_phase_skipped")
            return
        n0 = [0.0] * len(names)
        for k, i in enumerate(idx):
            n0[i] = M.x[k] * gp["volume"] / V
    want = element_total(case, names, n0)
    other = set()
    for m in case["minerals"]:
        other |= {"Calcite": {"C", "Ca"}, "Dolomite": {"C", "Ca", "Mg"}}[m]
    if case["reaction"] and case["reaction"]["what"] == "NaHCO3":
        other.add("C")
    checked = False
    for e, w in want.items():
        if e in other or w <= 0:
            continue
        got = r["sys_" + e] - r0["sys_" + e]
        stat(ctx, "initial", abs(got - w) / w if abs(r0["sys_" + e]) < 1e3 * w else 0.0)
        if abs(got - w) > TOL_EOS * w + 1e-9 * abs(r0["sys_" + e]) + 1e-14:
            raise Violation("initial_moles", "element %s: system total rose by %r mol when the gas phase was added, EOS (%s) at sum p=%r atm, T=%r K, V=%r L gives %r" % (
                e, got, "PR" if pr else "ideal", Ptot, Tg, gp["volume"], w))
        checked = True
    if checked:
        info["classes"].append("initial_moles_checked")


def run(ctx):
    ctx.hyp(case_strategy(), lambda c: check_case(c, ctx), BUDGET[ctx.tier], "gas")


def dev_scan(n=300, seed_=5, show=3):
    """development helper: runs n generated cases without stopping at violations; prints error texts of
    discarded cases, violations per oracle (first `show` messages each) and the class histogram"""
    from hypothesis import given, settings, seed, HealthCheck
    import collections
    cnt = collections.Counter()
    cls = collections.Counter()
    vio = collections.defaultdict(list)

    class C:
        stats = {}
        current = None

        def event(self, name, n=1):
            cls["ev:" + name] += n
    c = C()

    @settings(max_examples=n, database=None, deadline=None, suppress_health_check=list(HealthCheck))
    @seed(seed_)
    @given(case_strategy())
    def t(case):
        cls["TOTAL"] += 1
        c.current = case
        try:
            out = check_case(case, c)
            for k in out["classes"]:
                cls[k] += 1
            cls["NT"] += out["nontrivial"]
            cls["ALL"] += 1
        except Violation as v:
            vio[v.oracle].append((v.msg, case))
        except Discard as d:
            cls["DISCARD"] += 1
            I = lib.fresh(case["db"])
            I.run_string(case["input"])
            cnt[(d.why, case["db"], case["kind"], I.errors().strip().split("\n")[0][:150])] += 1
            I.close()
    t()
    for k, v in cnt.most_common(30):
        print(v, k)
    for k, v in sorted(cls.items()):
        print("  ", k, v)
    for k, v in vio.items():
        print("VIOLATION", k, len(v))
        for m, case in v[:show]:
            print("   ", m[:600])
    for k, v in sorted(c.stats.items()):
        print("   maxdev %-20s %.3g" % (k, v[0]))
    return vio, c.stats
